"""Hashed-collection inventory of norad (anchor of C10, DESIGN.md section 4.1).

Regenerated from <repo>/src on every run: every `HashMap` / `HashSet` type or constructor and every
iteration over a hashed collection (`for .. in`, `.iter()`, `.iter_mut()`, `.keys()`, `.values()`,
`.values_mut()`, `.into_iter()`, `.drain(`, `.retain(`, `collect` into one) outside `#[cfg(test)]`
modules, keyed by (file, enclosing fn, normalised expression). Regex / brace matching only, no Rust
parser. The committed catalogue (coq/Model/HashSites.v) maps each key to the lemma that discharges
it; AnchorsOK_C10.v proves extracted = catalogue.

Conservative by construction: an identifier counts as hashed in a file as soon as ONE declaration
in that file gives it a hashed type (field, parameter, annotated or constructor-initialised let),
so a new hashed collection, or a new iteration over an existing one, changes the inventory.
"""
import os
import re

ITER = r"\.(iter|iter_mut|keys|values|values_mut|into_iter|into_keys|into_values|drain|retain|par_iter)\s*\("


def strip_code(src):
    """blank out comments and string/char literals (keeping line structure)"""
    out = []
    i = 0
    n = len(src)
    while i < n:
        c = src[i]
        if src.startswith("//", i):
            j = src.find("\n", i)
            j = n if j < 0 else j
            i = j
            continue
        if src.startswith("/*", i):
            j = src.find("*/", i + 2)
            j = n if j < 0 else j + 2
            out.append("".join(ch if ch == "\n" else " " for ch in src[i:j]))
            i = j
            continue
        if c == '"':
            j = i + 1
            while j < n and src[j] != '"':
                j += 2 if src[j] == "\\" else 1
            out.append('""' + "".join("\n" for ch in src[i:j] if ch == "\n"))
            i = j + 1
            continue
        if c == "r" and re.match(r'r#*"', src[i:i + 6]) and (i == 0 or not (src[i - 1].isalnum() or src[i - 1] == "_")):
            m = re.match(r'r(#*)"', src[i:])
            end = '"' + m.group(1)
            j = src.find(end, i + len(m.group(0)))
            j = n if j < 0 else j + len(end)
            out.append('""' + "".join("\n" for ch in src[i:j] if ch == "\n"))
            i = j
            continue
        if c == "'":
            m = re.match(r"'(\\.[^']*|[^'\\])'", src[i:])
            if m:
                out.append("' '")
                i += len(m.group(0))
                continue
        out.append(c)
        i += 1
    return "".join(out)


def drop_test_modules(code):
    """remove `#[cfg(test)] mod x { ... }` blocks (and single `#[cfg(test)]` items)"""
    while True:
        m = re.search(r"#\[cfg\(test\)\]\s*(pub\s+)?mod\s+\w+\s*\{", code)
        if not m:
            break
        depth = 0
        j = m.end() - 1
        while j < len(code):
            if code[j] == "{":
                depth += 1
            elif code[j] == "}":
                depth -= 1
                if depth == 0:
                    break
            j += 1
        blanked = "".join(ch if ch == "\n" else " " for ch in code[m.start():j + 1])
        code = code[:m.start()] + blanked + code[j + 1:]
    return code


def norm(s):
    s = " ".join(s.split())
    return s.replace('"', "'")


def hashed_idents(code):
    ids = set()
    # field / parameter / annotated let:  name : [&][mut] Hash{Map,Set}<
    for m in re.finditer(r"\b([a-z_][a-z0-9_]*)\s*:\s*&?\s*(?:mut\s+)?(?:std::collections::)?Hash(?:Map|Set)\b", code):
        ids.add(m.group(1))
    # let [mut] name = Hash{Map,Set}::...   /   let name: ... = ...
    for m in re.finditer(r"\blet\s+(?:mut\s+)?([a-z_][a-z0-9_]*)\s*(?::[^=;]*)?=\s*(?:std::collections::)?Hash(?:Map|Set)\s*::", code):
        ids.add(m.group(1))
    # tuple-struct wrappers around a hashed collection:  struct X(RwLock<HashSet<..>>)  ->  self.0
    if re.search(r"struct\s+\w+\s*\([^)]*Hash(?:Map|Set)", code):
        ids.add("0")
    ids.discard("_items")
    return ids


def wrapper_types(src_dir):
    """Types whose own iterator methods iterate a hashed field: {type name: {method names}}.
    A method counts when its signature returns `impl Iterator` and its body iterates a hashed
    identifier of its file; the types are the structs and type aliases declared in that file."""
    res = {}
    for root, _, fs in os.walk(src_dir):
        for f in sorted(fs):
            if not f.endswith(".rs"):
                continue
            code = drop_test_modules(strip_code(open(os.path.join(root, f), encoding="utf-8").read()))
            ids = hashed_idents(code)
            if not ids:
                continue
            alt = "|".join(sorted(re.escape(i) for i in ids))
            methods = set()
            for m in re.finditer(r"\bfn\s+(\w+)\s*(?:<[^>]*>)?\s*\([^{;]*?->\s*impl\s+Iterator[^{;]*\{", code):
                depth = 0
                j = m.end() - 1
                while j < len(code):
                    if code[j] == "{":
                        depth += 1
                    elif code[j] == "}":
                        depth -= 1
                        if depth == 0:
                            break
                    j += 1
                body = code[m.end():j]
                if re.search(r"(?:self\s*\.\s*)?(?:%s)\b\s*%s" % (alt, ITER), body):
                    methods.add(m.group(1))
            if not methods:
                continue
            types = set(re.findall(r"\bstruct\s+(\w+)", code)) | set(re.findall(r"\btype\s+(\w+)\s*=", code))
            for t in types:
                res.setdefault(t, set()).update(methods)
    return res


def inventory(repo):
    """sorted list of 'file|fn|kind|expr' strings"""
    src_dir = os.path.join(repo, "src")
    sites = set()
    wrappers = wrapper_types(src_dir)
    for root, _, fs in os.walk(src_dir):
        for f in sorted(fs):
            if not f.endswith(".rs"):
                continue
            path = os.path.join(root, f)
            rel = os.path.relpath(path, src_dir)
            code = drop_test_modules(strip_code(open(path, encoding="utf-8").read()))
            ids = hashed_idents(code)
            idre = None
            if ids:
                alt = "|".join(sorted(re.escape(i) for i in ids))
                idre = re.compile(r"(?<![A-Za-z0-9_])(?:self\s*\.\s*)?(?:%s)\b(?:\s*\.\s*(?:read|write|borrow|borrow_mut)\s*\(\s*\)(?:\s*\.\s*unwrap\s*\(\s*\))?)?\s*%s" % (alt, ITER))
                forre = re.compile(r"\bfor\b[^;{]*\bin\b[^;{]*(?<![A-Za-z0-9_.])&?\s*(?:mut\s+)?(?:self\s*\.\s*)?(?:%s)\b\s*\{" % alt)
            # identifiers of a wrapper type: calls of its hashed iterator methods are sites
            wres = []
            for t, methods in sorted(wrappers.items()):
                wid = set(re.findall(r"\b([a-z_][a-z0-9_]*)\s*:\s*&?\s*(?:mut\s+)?%s\b" % re.escape(t), code))
                if wid:
                    wres.append(re.compile(r"(?<![A-Za-z0-9_])(?:self\s*\.\s*)?(?:%s)\b\s*\.\s*(?:%s)\s*\("
                                           % ("|".join(sorted(wid)), "|".join(sorted(methods)))))
            # statements: split at ; { } keeping track of the enclosing fn
            depth = 0
            fn_stack = []      # (name, depth at which its body opened)
            pending_fn = None
            stmt = []
            pos = 0

            def flush(text, fn):
                t = norm(text)
                if not t:
                    return
                if re.search(r"\bHash(Map|Set)\b", t):
                    sites.add("%s|%s|type|%s" % (rel, fn, t))
                if idre is not None:
                    if idre.search(t):
                        sites.add("%s|%s|iter|%s" % (rel, fn, t))
                    elif forre.search(t + " {"):
                        sites.add("%s|%s|iter|%s" % (rel, fn, t))
                for wr in wres:
                    if wr.search(t):
                        sites.add("%s|%s|iter|%s" % (rel, fn, t))
                if re.search(r"collect\s*::\s*<\s*(?:std::collections::)?Hash(Map|Set)", t):
                    sites.add("%s|%s|iter|%s" % (rel, fn, t))
                # collecting into a field / variable known to be hashed:  name = ....collect()
                if ids and re.search(r"\bcollect\s*\(\s*\)", t):
                    m = re.match(r"(?:let\s+(?:mut\s+)?)?(?:self\s*\.\s*)?([a-z_][a-z0-9_]*)\s*(?::[^=]*)?=", t)
                    if m and m.group(1) in ids:
                        sites.add("%s|%s|iter|%s" % (rel, fn, t))

            for ch in code:
                if ch in ";{}":
                    text = "".join(stmt)
                    stmt = []
                    fn = fn_stack[-1][0] if fn_stack else "-"
                    m = re.search(r"\bfn\s+([A-Za-z_][A-Za-z0-9_]*)", text)
                    if m and ch == "{":
                        # signature belongs to the function it declares
                        fn_stack.append((m.group(1), depth))
                        flush(text, m.group(1))
                    elif m and ch == ";":
                        flush(text, m.group(1))      # trait method declaration
                    else:
                        flush(text, fn)
                    if ch == "{":
                        depth += 1
                    elif ch == "}":
                        depth -= 1
                        if fn_stack and fn_stack[-1][1] == depth:
                            fn_stack.pop()
                else:
                    stmt.append(ch)
    return sorted(sites)


def coq_string(s):
    return '"' + s.replace('"', '""') + '"'


def generate(repo):
    inv = inventory(repo)
    if not inv:
        raise RuntimeError("no hashed-collection site found under %s/src (extraction broken?)" % repo)
    body = ["(* generated by lib/anchors_c10.py from %s/src - do not edit *)" % repo,
            "From Coq Require Import String List.", "Import ListNotations.", "Open Scope string_scope.",
            "Definition extracted_sites : list string := ["]
    body.append(";\n".join("  " + coq_string(s) for s in inv))
    body.append("].")
    return "\n".join(body) + "\n"


if __name__ == "__main__":
    import sys
    for s in inventory(sys.argv[1] if len(sys.argv) > 1 else "/repo"):
        print(s)
