"""C03 anchor: inventory of every panic site of norad, regenerated from <repo>/src on every run.

A site is an occurrence, outside comments, string literals, `#[cfg(test)]` items, `#[test]`
functions and test-only files (`#[cfg(test)] mod x;`), of

  unwrap     `.unwrap()` / `.unwrap_err()`
  expect     `.expect(..)` / `.expect_err(..)`
  macro      `panic!` `unreachable!` `assert!` `assert_eq!` `assert_ne!` `todo!` `unimplemented!`
             (not `debug_assert*!`)
  index      an index / slice expression: `[` directly after an identifier, `)`, `]` or `?`
             (so not an attribute `#[`, a macro `vec![`, an array type or literal)
  arith      binary `-` `+` `*` and `-=` `+=` `*=` whose statement visibly involves an integer of
             machine size (`.len()`, `.count()`, `usize`/`u32`/`u64`/`i32`/... casts or
             suffixes, a `NUMBER_LEN`/`MAX_LEN`-style constant, or one of the integer locals
             named in INT_NAMES), and every `/` `%` with such an operand (division by zero);
             float arithmetic (transforms, colours, number conversions) is not a site
  method     calls of std methods that panic on a bad index / char boundary / re-borrow:
             `.remove(` `.insert(` on a receiver that is visibly a Vec/String (see VEC_NAMES),
             `.split_at(` `.split_off(` `.truncate(` `.drain(` `.swap_remove(` `.rotate_left(`
             `.rotate_right(` `.copy_from_slice(` `.replace_range(` `.insert_str(`
             `.borrow_mut()` `.borrow()` (RefCell) `.step_by(` `.chunks(` `.windows(`

Key: "file|enclosing item|kind|normalised expression text" (+ "#n" for the n-th identical key of
one item).  The expression text is the source text from the start of the enclosing operand
(scanning backwards to the nearest `;` `,` `{` `}` `=` `=>` or unbalanced opening bracket) to
the end of the site token (closing bracket of the index / call / macro), white space collapsed,
capped at MAXTXT characters (the end nearest to the site is kept).  Line numbers are NOT part
of a key, so unrelated edits do not shift keys.

`python3 lib/anchors_c03.py [repo]` prints the inventory as a Coq list skeleton for
coq/Model/Sites.v (every new line needs a discharge).
"""
import os
import re
import sys

MAXTXT = 150

# ----------------------------------------------------------------------------- lexing
def mask(src):
    """return (code, strs): `code` = src with comments replaced by spaces and the *contents* of
    string / char literals replaced by `\x01` (same length, newlines kept), so that bracket
    matching and regexes never look inside them."""
    out = list(src)
    disp = list(src)
    n = len(src)
    i = 0

    def blank(a, b, ch=" "):
        for k in range(a, b):
            if out[k] != "\n":
                out[k] = ch
                if ch == " ":
                    disp[k] = " "
    while i < n:
        c = src[i]
        if src.startswith("//", i):
            j = src.find("\n", i)
            j = n if j < 0 else j
            blank(i, j)
            i = j
        elif src.startswith("/*", i):
            depth = 1
            j = i + 2
            while j < n and depth:
                if src.startswith("/*", j):
                    depth += 1
                    j += 2
                elif src.startswith("*/", j):
                    depth -= 1
                    j += 2
                else:
                    j += 1
            blank(i, j)
            i = j
        elif c == '"' or (c in "rb" and re.match(r'(?:b?r#*"|b")', src[i:i + 8]) and (i == 0 or not (src[i - 1].isalnum() or src[i - 1] == "_"))):
            m = re.match(r'(b?)(r(#*))?"', src[i:])
            raw = m.group(2) is not None
            hashes = m.group(3) or ""
            j = i + m.end()
            start = j
            if raw:
                end = src.find('"' + hashes, j)
                end = n if end < 0 else end
                blank(start, end, "\x01")
                i = end + 1 + len(hashes)
            else:
                while j < n and src[j] != '"':
                    j += 2 if src[j] == "\\" else 1
                blank(start, min(j, n), "\x01")
                i = j + 1
        elif c == "'":
            # char literal or lifetime
            m = re.match(r"'(?:\\(?:u\{[0-9a-fA-F_]+\}|x[0-9a-fA-F]{2}|.)|[^'\\])'", src[i:])
            if m:
                blank(i + 1, i + m.end() - 1, "\x01")
                i += m.end()
            else:
                i += 1
        else:
            i += 1
    return "".join(out), "".join(disp)


OPEN = "([{"
CLOSE = ")]}"


def match_forward(code, i):
    """code[i] is an opening bracket; index of its partner (or len)"""
    depth = 0
    for j in range(i, len(code)):
        c = code[j]
        if c in OPEN:
            depth += 1
        elif c in CLOSE:
            depth -= 1
            if depth == 0:
                return j
    return len(code) - 1


def item_extent(code, i):
    """code[i:] starts an item (after its attributes); returns the end index (exclusive) of the
    item: the partner of its first `{` at bracket depth 0, or the first `;` at depth 0"""
    depth = 0
    j = i
    while j < len(code):
        c = code[j]
        if c in "([":
            depth += 1
        elif c in ")]":
            depth -= 1
        elif c == "{" and depth == 0:
            return match_forward(code, j) + 1
        elif c == ";" and depth == 0:
            return j + 1
        j += 1
    return len(code)


TEST_ATTR = re.compile(r"#\[\s*(?:cfg\s*\(\s*test\s*\)|test)\s*\]")
ATTR = re.compile(r"\s*#\[")


def blank_tests(code):
    """blank every item carrying #[cfg(test)] or #[test]; returns (code, [test-only module names])"""
    out = code
    test_mods = []
    pos = 0
    while True:
        m = TEST_ATTR.search(out, pos)
        if not m:
            break
        j = m.end()
        # skip further attributes
        while True:
            a = ATTR.match(out, j)
            if not a:
                break
            j = match_forward(out, a.end() - 1) + 1
        k = j
        while k < len(out) and out[k].isspace():
            k += 1
        end = item_extent(out, k)
        head = out[k:end]
        mm = re.match(r"(?:pub(?:\([^)]*\))?\s+)?mod\s+(\w+)\s*;", head)
        if mm:
            test_mods.append(mm.group(1))
        out = out[:m.start()] + "".join(ch if ch == "\n" else " " for ch in out[m.start():end]) + out[end:]
        pos = end
    return out, test_mods


# ----------------------------------------------------------------------------- items
KW = re.compile(r"(?<![\w.])(fn|impl|mod|trait)\b")


def item_map(code):
    """list of (start, end, label, kind) for every fn / impl / mod / trait with a body"""
    items = []
    for m in KW.finditer(code):
        kind = m.group(1)
        i = m.end()
        rest = code[i:i + 400]
        if kind == "fn":
            mm = re.match(r"\s+([A-Za-z_]\w*)", rest)
            if not mm:
                continue            # fn(..) pointer type
            label = "fn " + mm.group(1)
        elif kind == "impl":
            # `impl Trait` in argument / return position is not an item: the previous
            # non-space character of an item-level impl is `}`, `;`, `]`, `{` or start of file
            p = m.start() - 1
            while p >= 0 and code[p].isspace():
                p -= 1
            prev_word = re.search(r"(\w+)\s*$", code[max(0, m.start() - 12):m.start()])
            if p >= 0 and code[p] not in "};]{" and not (prev_word and prev_word.group(1) in ("unsafe", "default")):
                continue
            r = rest
            if r.lstrip().startswith("<"):
                # generic parameters
                s = len(r) - len(r.lstrip())
                d = 0
                for q in range(s, len(r)):
                    if r[q] == "<":
                        d += 1
                    elif r[q] == ">" and r[q - 1] != "-":
                        d -= 1
                        if d == 0:
                            r = r[q + 1:]
                            break
            mm = re.match(r"\s*(.*?)\s*(?:\{|\bwhere\b)", r, re.S)
            label = "impl " + " ".join((mm.group(1) if mm else "?").split())
        else:
            mm = re.match(r"\s+([A-Za-z_]\w*)", rest)
            if not mm:
                continue
            label = "%s %s" % (kind, mm.group(1))
        # find the body
        depth = 0
        j = i
        body = None
        while j < len(code):
            c = code[j]
            if c in "([":
                depth += 1
            elif c in ")]":
                depth -= 1
            elif c == "{" and depth == 0:
                body = j
                break
            elif c == ";" and depth == 0:
                break
            elif c == "}" and depth == 0:
                break
            j += 1
        if body is None:
            continue
        items.append((body, match_forward(code, body), label, kind))
    return items


def enclosing(items, pos):
    """label of the innermost fn containing pos, qualified by its impl/trait; else innermost item"""
    inside = [it for it in items if it[0] < pos <= it[1]]
    inside.sort(key=lambda it: it[0])
    fns = [it for it in inside if it[3] == "fn"]
    outer = [it for it in inside if it[3] in ("impl", "trait")]
    if fns:
        lab = "::".join(f[2][3:] for f in fns)
        if outer:
            return "%s::%s" % (outer[-1][2], lab)
        mods = [it for it in inside if it[3] == "mod"]
        return ("%s::" % mods[-1][2] if mods else "") + "fn " + lab
    if inside:
        return inside[-1][2]
    return "<top>"


# ----------------------------------------------------------------------------- sites
def stmt_start(code, pos):
    """scan backwards from pos to the start of the statement / argument (for the type hints)"""
    depth = 0
    j = pos - 1
    while j >= 0:
        c = code[j]
        if c in ")]":
            depth += 1
        elif c in "([":
            if depth == 0:
                return j + 1
            depth -= 1
        elif c == "}":
            k = j + 1
            while k < len(code) and code[k].isspace():
                k += 1
            if depth == 0 and not (k < len(code) and code[k] in ".?"):
                return j + 1
            depth += 1
        elif c == "{":
            if depth == 0:
                return j + 1
            depth -= 1
        elif depth == 0 and c == ";":
            return j + 1
        j -= 1
    return 0


def stmt_end(code, pos):
    depth = 0
    j = pos
    while j < len(code):
        c = code[j]
        if c in OPEN:
            depth += 1
        elif c in CLOSE:
            if depth == 0:
                return j
            depth -= 1
        elif depth == 0 and c == ";":
            return j
        j += 1
    return len(code)


def chain_start(code, pos):
    """start of the postfix chain (receiver expression) that ends just before pos: identifiers,
    `.`, `::`, `?`, balanced brackets, generic arguments of a turbofish, and white space that is
    followed by `.` or `?` (a method chain continued on the next line); prefix `&` `*` `!` `-`
    and `&mut` are included"""
    j = pos
    while j > 0:
        c = code[j - 1]
        if c.isalnum() or c in "_.?\x01\"'":
            j -= 1
        elif c == ":" and j >= 2 and code[j - 2] == ":":
            j -= 2
        elif c == "!" and j >= 2 and (code[j - 2].isalnum() or code[j - 2] == "_") and code[j] in "([{":
            j -= 1                                    # macro call `write!(..)`
        elif c in ")]}":
            depth = 0
            k = j - 1
            while k >= 0:
                if code[k] in CLOSE:
                    depth += 1
                elif code[k] in OPEN:
                    depth -= 1
                    if depth == 0:
                        break
                k -= 1
            if c == "}":
                # a block: only part of the chain when a struct literal / match / closure body;
                # keep it simple: include it (the text is capped anyway)
                pass
            j = max(k, 0)
        elif c == ">" and j >= 2 and re.search(r"::<[^<>;{}]*(?:<[^<>;{}]*>[^<>;{}]*)*$", code[max(0, j - 80):j - 1]):
            m = re.search(r"::<[^<>;{}]*(?:<[^<>;{}]*>[^<>;{}]*)*$", code[max(0, j - 80):j - 1])
            j = max(0, j - 80) + m.start()
        elif c.isspace():
            k = j
            while k < len(code) and code[k].isspace():
                k += 1
            if k < pos and code[k] in ".?" and not code.startswith("..", k):
                while j > 0 and code[j - 1].isspace():
                    j -= 1
            else:
                break
        else:
            break
    # prefix operators (adjacent unary `&` `*` `!`, `&mut `)
    while True:
        if j > 0 and code[j - 1] in "&*!" and (j < 2 or not (code[j - 2].isalnum() or code[j - 2] in "_)]&\x01\"'")):
            j -= 1
            continue
        m = re.search(r"&mut\s+$", code[max(0, j - 8):j])
        if m:
            j = max(0, j - 8) + m.start()
            continue
        break
    while j < pos and code[j].isspace():
        j += 1
    return j


def chain_end(code, pos):
    """end (exclusive) of the operand starting at pos"""
    j = pos
    n = len(code)
    while j < n and code[j] in "&*!- ":
        j += 1
    if code.startswith("mut ", j):
        j += 4
    while j < n:
        c = code[j]
        if c.isalnum() or c in "_\x01\"'":
            j += 1
        elif c == "." and not code.startswith("..", j):
            j += 1
        elif c == ":" and code.startswith("::", j):
            j += 2
        elif c == "?":
            j += 1
        elif c in "([":
            j = match_forward(code, j) + 1
        elif c.isspace():
            k = j
            while k < n and code[k].isspace():
                k += 1
            if k < n and code[k] in ".?" and not code.startswith("..", k):
                j = k
            else:
                break
        else:
            break
    return j


def norm(s):
    return " ".join(s.split())


INT_HINT = re.compile(r"\.len\(\)|\.count\(\)|\busize\b|\bu8\b|\bu16\b|\bu32\b|\bu64\b|\bi8\b|\bi16\b|\bi32\b|\bi64\b|\bisize\b"
                      r"|\d(?:usize|u8|u16|u32|u64|i32|i64)\b|\b[A-Z][A-Z0-9_]*_LEN\b|\bMAX_[A-Z_]+\b|\.position\(|\.find\(|\.rfind\("
                      r"|\bbuffer_position\(\)|\.saturating_sub\(")
# integer locals whose declaration is not part of the same statement (a new integer variable with
# another name is still seen when its statement carries one of the hints above)
INT_NAMES = re.compile(r"\b(?:boundary|counter|start|end|idx|index|i|j|n|pos|position|offset|len|length|depth|level|count|"
                       r"suffix_len|prefix_len|start_idx|end_idx|layer_pos|default_idx|indent|indent_level|spaces|width)\b")
FLOAT_HINT = re.compile(r"\d\.\d|\bf64\b|\bf32\b|\bas_f64\b|\.abs\(\)|\.round\(\)|\.fract\(\)|EPSILON|\.x\b|\.y\b|_scale\b|_offset\b")

# functions that contain no site but whose conditions are what makes a site elsewhere unreachable
EXTRA_GUARD_FNS = {"src/layer.rs": ["fn plain_name"], "src/glyph/mod.rs": ["impl Image::new"],
                   "src/fontinfo.rs": ["impl NonNegativeIntegerOrFloat::new"]}

MACROS = r"(?<![\w])(panic|unreachable|assert|assert_eq|assert_ne|todo|unimplemented)!\s*[\(\[\{]"
METHODS_ALWAYS = ("split_at", "split_at_mut", "split_off", "truncate", "drain", "swap_remove", "rotate_left", "rotate_right",
                  "copy_from_slice", "replace_range", "insert_str", "borrow_mut", "borrow", "step_by", "chunks", "windows",
                  "chunks_exact")
METHODS_IDX = ("remove", "insert")       # sites only when the first argument is visibly an index
IDX_ARG = re.compile(r"\s*(?:\d+|\w*(?:idx|index|pos|position)\w*|i|j|n)\s*(?:[-+]\s*\w+\s*)?[,)]")
NOT_INDEXED = ("in", "return", "mut", "let", "else", "match", "if", "as", "dyn", "const", "static", "ref", "move")
ARITH = re.compile(r"(?<=[\w\)\]\?])\s*(-=|\+=|\*=|/=|%=|-(?![>=])|\+(?!=)|\*(?!=)|/(?![=/*])|%(?!=))\s*(?=[\w\(&\.])")


def scan_code(code, disp, rel, excluded=None):
    """[(key, line, kind)] for one masked, test-blanked source text"""
    items = item_map(code)
    found = []        # (pos, kind, text)

    def txt(a, b):
        t = norm(disp[a:b])
        return "..." + t[-MAXTXT:] if len(t) > MAXTXT else t

    for m in re.finditer(r"\.(unwrap|unwrap_err)\(\s*\)", code):
        found.append((m.start(), "unwrap", txt(chain_start(code, m.start()), m.end())))
    for m in re.finditer(r"\.(expect|expect_err)\s*\(", code):
        found.append((m.start(), "expect", txt(chain_start(code, m.start()), match_forward(code, m.end() - 1) + 1)))
    for m in re.finditer(MACROS, code):
        found.append((m.start(), "macro", txt(m.start(), match_forward(code, m.end() - 1) + 1)))
    for m in re.finditer(r"(?<=[\w\)\]\?])\[", code):
        w = re.search(r"(\w+)$", code[max(0, m.start() - 20):m.start()])
        if w and w.group(1) in NOT_INDEXED:
            continue
        found.append((m.start(), "index", txt(chain_start(code, m.start()), match_forward(code, m.start()) + 1)))
    for name in METHODS_ALWAYS + METHODS_IDX:
        for m in re.finditer(r"\.%s\s*\(" % name, code):
            if name in METHODS_IDX and not IDX_ARG.match(code, m.end()):
                continue
            found.append((m.start(), "method", txt(chain_start(code, m.start()), match_forward(code, m.end() - 1) + 1)))
    for m in ARITH.finditer(code):
        op = m.group(1)
        stmt = code[stmt_start(code, m.start()):stmt_end(code, m.end())]
        left = chain_start(code, m.start())
        right = chain_end(code, m.end())
        text = "%s %s %s" % (norm(disp[left:m.start()]), op, norm(disp[m.end():right]))
        if op == "+" and re.search(r"\b(?:dyn|impl|where)\b|'\w+\s*\+|\+\s*'\w+|\+\s*(?:Send|Sync|Sized|Clone|Copy|Debug)\b|:\s*[A-Z]\w*\s*\+\s*[A-Z]", stmt):
            continue        # trait bounds
        is_int = bool(INT_HINT.search(stmt)) or bool(INT_NAMES.search(text))
        is_float = bool(FLOAT_HINT.search(stmt))
        keep = is_int and not (is_float and not INT_HINT.search(text) and not INT_NAMES.search(text))
        if not keep:
            if excluded is not None:
                excluded.append((rel, code.count("\n", 0, m.start()) + 1, text))
            continue
        found.append((m.start(1), "arith", text if len(text) <= MAXTXT else "..." + text[-MAXTXT:]))
    for m in re.finditer(r"(?<![\w.])(?<!fn )(new_raw|user_name_to_file_name|default_file_name_for_glyph_name|default_file_name_for_layer_name)\s*\(", code):
        if re.search(r"\bfn\s+$", code[max(0, m.start() - 8):m.start()]):
            continue
        found.append((m.start(), "call", txt(chain_start(code, m.start()), match_forward(code, m.end() - 1) + 1)))
    found.sort()
    # the conditions (if / else if / while / match guards) of every fn that contains a site: one entry per fn
    fns_with_sites = []
    for pos, kind, text in found:
        e = enclosing(items, pos)
        if e not in fns_with_sites:
            fns_with_sites.append(e)
    # functions without a site of their own whose conditions guard a site elsewhere
    for e in EXTRA_GUARD_FNS.get(rel, []):
        if e not in fns_with_sites:
            fns_with_sites.append(e)
    conds = {}
    for m in re.finditer(r"(?<![\w.])let\s+[^;={}]*=\s*", code):
        # `let PATTERN = EXPR else { .. }`
        e = enclosing(items, m.start())
        if e not in fns_with_sites:
            continue
        j = stmt_end(code, m.end())
        k = m.end()
        depth = 0
        found_else = None
        while k < j:
            c = code[k]
            if c in "([{":
                if c == "{" and depth == 0:
                    break
                depth += 1
            elif c in ")]}":
                depth -= 1
            elif depth == 0 and re.match(r"else\b", code[k:k + 5]) and not (code[k - 1].isalnum() or code[k - 1] == "_"):
                found_else = k
                break
            k += 1
        if found_else is not None:
            conds.setdefault(e, []).append((m.start(), "%s else" % norm(disp[m.start():found_else])))
    for m in re.finditer(r"(?<![\w.])(if|while|for|match)\b", code):
        e = enclosing(items, m.start())
        if e not in fns_with_sites:
            continue
        if m.group(1) == "match" and e not in EXTRA_GUARD_FNS.get(rel, []):
            continue
        if m.group(1) == "match":
            # the whole match of a guard function (plain_name): scrutinee and arms
            j0 = code.find("{", m.end())
            j1 = match_forward(code, j0) + 1
            conds.setdefault(e, []).append((m.start(), norm(disp[m.start():j1])))
            continue
        depth = 0
        j = m.end()
        while j < len(code):
            c = code[j]
            if c in "([":
                depth += 1
            elif c in ")]":
                depth -= 1
            elif c == "{" and depth == 0:
                break
            elif c == ";" and depth == 0:
                break
            elif depth == 0 and code.startswith("=>", j):
                break
            j += 1
        conds.setdefault(e, []).append((m.start(), "%s %s" % (m.group(1), norm(disp[m.end():j]))))
    res = []
    seen = {}
    for e in fns_with_sites:
        if e in conds:
            cs = sorted(conds[e])
            first = cs[0][0]
            res.append(("%s|%s|guards|%s" % (rel, e, " ;; ".join(t for _, t in cs)), code.count("\n", 0, first) + 1, "guards"))
    for pos, kind, text in found:
        key = "%s|%s|%s|%s" % (rel, enclosing(items, pos), kind, text)
        seen[key] = seen.get(key, 0) + 1
        if seen[key] > 1:
            key = "%s#%d" % (key, seen[key])
        res.append((key, code.count("\n", 0, pos) + 1, kind))
    return res


def inventory(repo, excluded=None):
    src = os.path.join(repo, "src")
    files = []
    for root, dirs, fs in os.walk(src):
        dirs.sort()
        for f in sorted(fs):
            if f.endswith(".rs"):
                files.append(os.path.join(root, f))
    masked = {}
    test_files = set()
    for p in files:
        rel = os.path.relpath(p, repo)
        text = open(p, encoding="utf-8").read()
        code, disp = mask(text)
        code, tmods = blank_tests(code)
        assert len(code) == len(text) == len(disp), rel
        masked[rel] = (code, disp)
        d = os.path.dirname(p)
        for tm in tmods:
            test_files.add(os.path.relpath(os.path.join(d, tm + ".rs"), repo))
            test_files.add(os.path.relpath(os.path.join(d, tm, "mod.rs"), repo))
    res = []
    for rel in sorted(masked):
        if rel in test_files:
            continue
        res += scan_code(masked[rel][0], masked[rel][1], rel, excluded)
    # string / integer constants that a site text mentions: their values are part of the anchor
    names = []
    for k, _, kind in res:
        if True:
            for n in re.findall(r"\b[A-Z][A-Z0-9]*(?:_[A-Z0-9]+)+\b", k.split("|", 3)[3]):
                if n not in names:
                    names.append(n)
    consts = []
    for n in sorted(names):
        for rel in sorted(masked):
            if rel in test_files:
                continue
            code, disp = masked[rel]
            for m in re.finditer(r"(?<![\w.])(?:const|static)\s+%s\s*:[^=;]*=\s*" % re.escape(n), code):
                j = code.find(";", m.end())
                consts.append(("%s|<top>|const|%s = %s" % (rel, n, norm(disp[m.end():j])), code.count("\n", 0, m.start()) + 1, "const"))
    return res + consts


def coq_string(s):
    return '"' + s.replace('"', '""') + '"'


def gen_coq(repo):
    inv = inventory(repo)
    if len(inv) < 50:
        raise RuntimeError("only %d panic sites found: extraction is broken" % len(inv))
    body = ";\n  ".join(coq_string(k) for k, _, _ in inv)
    return ("From Coq Require Import String List.\nImport ListNotations.\nOpen Scope string_scope.\n"
            "(* regenerated from %s/src by lib/anchors_c03.py *)\n"
            "Definition extracted_sites : list string := [\n  %s ].\n" % (repo, body)), inv


if __name__ == "__main__":
    args = [a for a in sys.argv[1:] if not a.startswith("-")]
    repo = args[0] if args else os.environ.get("VERIF_REPO", "/repo")
    exc = []
    inv = inventory(repo, exc)
    if "--stats" in sys.argv:
        from collections import Counter
        print(Counter(k for _, _, k in inv))
    if "--excluded" in sys.argv:
        for rel, ln, t in exc:
            print("excluded arithmetic %s:%d  %s" % (rel, ln, t))
    else:
        for k, ln, kind in inv:
            print("%5d  %s" % (ln, k))
