#!/bin/bash
# run_seeds.sh <n>: every registered check in the quick tier under n pseudo-random seeds (soak for false alarms)
N=${1:-5}
cd "$(dirname "$0")/.."
for i in $(seq 1 $N); do
  S=$(( (i * 7919 + 104729 * i * i) % 1000003 ))
  for c in $(python3 -c "import json;print(' '.join(x['property_id'] for x in json.load(open('MANIFEST.json'))['checks']))"); do
    r=$(VERIF_SEED=$S ./check $c --tier quick 2>&1 | grep -v "^KNOWN\|^\[" | tail -2 | tr '\n' ' ' | cut -c1-260)
    case "$r" in *" ok "*) echo "seed=$S $c ok";; *) echo "seed=$S $c :: $r";; esac
  done
done
echo SEEDS-DONE
