"""Anchors of C07/C06: constants of src/util.rs and src/layer.rs, extracted from the source text
on every run and written as Gallina definitions (Gen/Anchors_C07.v).  Regular expressions over
the source, no Rust parser; a constant that cannot be found raises (= broken tie)."""
import os
import re


def _char_lit(tok):
    tok = tok.strip()
    m = re.match(r"^'(\\.|[^\\])'$", tok, re.S)
    if not m:
        raise ValueError("not a char literal: %r" % tok)
    c = m.group(1)
    if c.startswith("\\"):
        esc = {"\\\\": "\\", "\\'": "'", '\\"': '"', "\\n": "\n", "\\t": "\t", "\\r": "\r", "\\0": "\0"}
        if c not in esc:
            raise ValueError("unknown escape %r" % c)
        c = esc[c]
    return ord(c)


def _str_lit(tok):
    tok = tok.strip()
    m = re.match(r'^"((?:[^"\\]|\\.)*)"$', tok, re.S)
    if not m:
        raise ValueError("not a string literal: %r" % tok)
    s = m.group(1)
    if "\\" in s:
        s = s.replace('\\"', '"').replace("\\\\", "\\")
    return [ord(c) for c in s]


def _split_top(body):
    """split a comma separated list of literals (commas inside quotes are kept)"""
    items, cur, q, i = [], "", None, 0
    while i < len(body):
        ch = body[i]
        if q:
            cur += ch
            if ch == "\\":
                cur += body[i + 1]
                i += 1
            elif ch == q:
                q = None
        elif ch in "'\"":
            q = ch
            cur += ch
        elif ch == ",":
            if cur.strip():
                items.append(cur)
            cur = ""
        else:
            cur += ch
        i += 1
    if cur.strip():
        items.append(cur)
    return items


def _one(rx, src, what, flags=re.S):
    ms = re.findall(rx, src, flags)
    if len(ms) != 1:
        raise ValueError("%s: expected exactly one match, found %d" % (what, len(ms)))
    return ms[0]


def nl(xs):
    return "[" + ";".join(str(x) for x in xs) + "]"


def extract(repo):
    util = open(os.path.join(repo, "src", "util.rs")).read()
    layer = open(os.path.join(repo, "src", "layer.rs")).read()
    # only the non-test part of util.rs
    util_main = util.split("#[cfg(test)]")[0]
    a = {}
    body = _one(r"static\s+SPECIAL_ILLEGAL\s*:\s*&\[char\]\s*=\s*&\[(.*?)\]\s*;", util_main, "SPECIAL_ILLEGAL")
    a["SPECIAL_ILLEGAL"] = [_char_lit(t) for t in _split_top(body)]
    body = _one(r"static\s+SPECIAL_RESERVED\s*:\s*&\[&str\]\s*=\s*&\[(.*?)\]\s*;", util_main, "SPECIAL_RESERVED")
    a["SPECIAL_RESERVED"] = [_str_lit(t) for t in _split_top(body)]
    a["MAX_LEN"] = int(_one(r"const\s+MAX_LEN\s*:\s*usize\s*=\s*(\d+)\s*;", util_main, "MAX_LEN"))
    a["NUMBER_LEN"] = int(_one(r"const\s+NUMBER_LEN\s*:\s*usize\s*=\s*(\d+)\s*;", util_main, "NUMBER_LEN"))
    lo, hi = _one(r"for\s+counter\s+in\s+(\d+)\s*\.\.\s*(\d+)\s*u8", util_main, "counter range")
    a["COUNTER_FIRST"], a["COUNTER_END"] = int(lo), int(hi)
    a["COUNTER_WIDTH"] = int(_one(r'write!\(\s*&mut\s+result\s*,\s*"\{:0>(\d+)\}"\s*,\s*counter\s*\)', util_main, "counter format"))
    # the characters the trailing-run replacement and the leading-period rule look at
    a["TRAILING_SET"] = sorted(set(
        _char_lit(t) for t in _split_top(_one(r"suffix\.is_empty\(\)\s*&&\s*result\.ends_with\(\[(.*?)\]\)", util_main, "trailing set"))))
    for fn, key in (("default_file_name_for_glyph_name", "GLYPH"), ("default_file_name_for_layer_name", "LAYER")):
        p, s = _one(r"fn\s+%s\b[^{]*\{\s*user_name_to_file_name\(\s*name\s*,\s*(\"(?:[^\"\\]|\\.)*\")\s*,\s*(\"(?:[^\"\\]|\\.)*\")\s*," % fn,
                    util_main, fn)
        a[key + "_PREFIX"], a[key + "_SUFFIX"] = _str_lit(p), _str_lit(s)
    a["DEFAULT_LAYER_NAME"] = _str_lit(_one(r"static\s+DEFAULT_LAYER_NAME\s*:\s*&str\s*=\s*(\"[^\"]*\")\s*;", layer, "DEFAULT_LAYER_NAME"))
    a["DEFAULT_GLYPHS_DIRNAME"] = _str_lit(_one(r"static\s+DEFAULT_GLYPHS_DIRNAME\s*:\s*&str\s*=\s*(\"[^\"]*\")\s*;", layer, "DEFAULT_GLYPHS_DIRNAME"))
    return a


def gallina(a):
    out = ["(* generated from src/util.rs and src/layer.rs by lib/anchors_c07.py *)",
           "Require Import Norad.Model.Base.", "Open Scope N_scope."]
    for k in ("SPECIAL_ILLEGAL", "TRAILING_SET", "GLYPH_PREFIX", "GLYPH_SUFFIX", "LAYER_PREFIX", "LAYER_SUFFIX",
              "DEFAULT_LAYER_NAME", "DEFAULT_GLYPHS_DIRNAME"):
        out.append("Definition x_%s : list N := %s." % (k, nl(a[k])))
    out.append("Definition x_SPECIAL_RESERVED : list (list N) := [%s]." % ";".join(nl(w) for w in a["SPECIAL_RESERVED"]))
    for k in ("MAX_LEN", "NUMBER_LEN", "COUNTER_FIRST", "COUNTER_END", "COUNTER_WIDTH"):
        out.append("Definition x_%s : N := %d." % (k, a[k]))
    return "\n".join(out) + "\n"


if __name__ == "__main__":
    import sys
    print(gallina(extract(sys.argv[1] if len(sys.argv) > 1 else "/repo")))
