"""Anchor of the fontinfo.plist file model: the schema of `FontInfo` and of every struct / enum it
nests, extracted from /repo/src/fontinfo.rs (and RawGuideline of src/guideline.rs) on every run.

For a struct deriving Serialize / Deserialize: the plist key of every field (serde `rename`, else
`rename_all = "camelCase"`, else the Rust name), whether the type is `Option<..>`, the attributes
`skip_serializing_if` and `default`, `deny_unknown_fields`, and the schema of the field type:
    String / Name / Identifier / Color -> SStr      bool -> SBool
    Integer, i32 -> SInt i32   NonNegativeInteger, u32 -> SInt u32   u8 -> SInt u8
    f64 / IntegerOrFloat with serialize_with = ser_opt_int_or_float -> SNum false
    Vec<..> of these with ser_opt_vec_int_or_float -> SList (SNum false)
    NonNegativeIntegerOrFloat -> SNum true (its Serialize impl is checked to be the integer-or-float one)
    f64 / Float otherwise -> SFloat            Bitlist -> SList (SInt u8)       Vec<T> -> SList T
    enum deriving Serialize_repr -> SEnumI [discriminants]
    enum with a hand-written `serialize_str("..")` impl -> SEnumS [the strings], reader arms checked equal
    Os2FamilyClass / Os2Panose (hand-written sequence impls) -> SFix n elem, n and elem read off the impls
    Guideline -> the struct RawGuideline (its Serialize impl is checked to write exactly those six fields)
A construct outside this list raises (= broken tie).

  extract(repo) -> python schema of FontInfo (nested tuples, see g_schema)
  gallina(schema, name) -> text of `Definition <name> : schema := ...`
"""
import os
import re

I32 = (-2 ** 31, 2 ** 31 - 1)
U32 = (0, 2 ** 32 - 1)
U8 = (0, 255)


def camel(s):
    parts = s.split("_")
    return parts[0] + "".join(p[:1].upper() + p[1:] for p in parts[1:])


def _structs(src):
    """{name: (attr lines before it, body text)} for structs and enums"""
    out = {}
    lines = src.split("\n")
    attrs = []
    i = 0
    while i < len(lines):
        ln = lines[i]
        st = ln.strip()
        if st.startswith("#["):
            a = st
            while a.count("[") > a.count("]"):
                i += 1
                a += " " + lines[i].strip()
            attrs.append(a)
        elif re.match(r"^(pub(\([a-z]+\))? )?(struct|enum) \w+ \{$", ln):
            m = re.match(r"^(?:pub(?:\([a-z]+\))? )?(struct|enum) (\w+) \{$", ln)
            body = []
            i += 1
            while lines[i] != "}":
                body.append(lines[i])
                i += 1
            out[m.group(2)] = (m.group(1), attrs, body)
            attrs = []
        elif st.startswith("///") or st.startswith("//"):
            pass
        else:
            attrs = []
        i += 1
    return out


def _serde_args(attrs):
    """flatten #[serde(a, b = "c")] attributes into {key: value-or-True}"""
    out = {}
    for a in attrs:
        m = re.match(r"^#\[serde\((.*)\)\]$", a)
        if not m:
            continue
        for part in re.findall(r'(\w+)(?:\s*=\s*"([^"]*)")?', m.group(1)):
            out[part[0]] = part[1] if part[1] != "" else True
    return out


def _fields(body):
    """[(rust name, type, serde args)] of a struct body"""
    out = []
    attrs = []
    i = 0
    while i < len(body):
        st = body[i].strip()
        if st.startswith("#["):
            a = st
            while a.count("[") > a.count("]"):
                i += 1
                a += " " + body[i].strip()
            attrs.append(a)
        elif st.startswith("//") or st == "":
            pass
        else:
            m = re.match(r"^(?:pub(?:\([a-z]+\))? )?(\w+): (.*),(?:\s*//.*)?$", st)
            if not m:
                raise ValueError("cannot parse struct field: %r" % st)
            out.append((m.group(1), m.group(2).strip(), _serde_args(attrs)))
            attrs = []
        i += 1
    return out


class Extractor(object):
    def __init__(self, repo):
        self.fi = open(os.path.join(repo, "src", "fontinfo.rs"), encoding="utf-8").read()
        self.gl = open(os.path.join(repo, "src", "guideline.rs"), encoding="utf-8").read()
        self.items = _structs(self.fi.split("#[cfg(test)]\nmod tests")[0])
        self.gitems = _structs(self.gl.split("#[cfg(test)]")[0])

    def _impl(self, src, trait, ty):
        m = re.search(r"impl(?:<'de>)? %s(?:<'de>)? for %s \{\n(.*?)\n\}\n" % (trait, re.escape(ty)), src, re.S)
        if not m:
            raise ValueError("no hand-written %s impl for %s" % (trait, ty))
        return m.group(1)

    def type_schema(self, ty, sargs):
        ser_with = sargs.get("serialize_with", "")
        if ty in ("String", "Name", "Identifier", "Color"):
            return ("str",)
        if ty == "bool":
            return ("bool",)
        if ty in ("Integer", "i32"):
            return ("int",) + I32
        if ty in ("NonNegativeInteger", "u32"):
            return ("int",) + U32
        if ty == "u8":
            return ("int",) + U8
        if ty in ("f64", "IntegerOrFloat"):
            if ser_with.endswith("ser_opt_int_or_float") or ser_with == "__elem_int_or_float":
                self._check_int_or_float()
                return ("num", False)
            if ser_with:
                raise ValueError("unknown serialize_with %r" % ser_with)
            return ("float",)
        if ty == "Float":
            return ("float",)
        if ty == "NonNegativeIntegerOrFloat":
            body = self._impl(self.fi, "Serialize", ty)
            if "serialize_i32(self.0 as i32)" not in body or "serialize_f64(self.0)" not in body or "i32::MIN as f64..=i32::MAX as f64" not in body:
                raise ValueError("NonNegativeIntegerOrFloat: Serialize impl is not the integer-or-float writer")
            rd = self._impl(self.fi, "Deserialize", ty)
            if "let value: f64 = Deserialize::deserialize(deserializer)?" not in rd or "try_from(value)" not in rd:
                raise ValueError("NonNegativeIntegerOrFloat: unexpected Deserialize impl")
            return ("num", True)
        if ty == "Bitlist":
            if not re.search(r"^pub type Bitlist = Vec<u8>;", self.fi, re.M):
                raise ValueError("Bitlist is not Vec<u8>")
            return ("list", ("int",) + U8)
        m = re.match(r"^Vec<(.*)>$", ty)
        if m:
            if ser_with.endswith("ser_opt_vec_int_or_float"):
                return ("list", self.type_schema(m.group(1), {"serialize_with": "__elem_int_or_float"}))
            if ser_with:
                raise ValueError("unknown serialize_with %r on a Vec" % ser_with)
            return ("list", self.type_schema(m.group(1), {}))
        if ty == "Guideline":
            return self._guideline()
        if ty in ("Os2FamilyClass", "Os2Panose"):
            return self._fixed_seq(ty)
        if ty in self.items:
            kind, attrs, body = self.items[ty]
            derives = " ".join(a for a in attrs if a.startswith("#[derive"))
            if kind == "enum":
                if "Serialize_repr" in derives and "Deserialize_repr" in derives:
                    vals = [int(v) for v in re.findall(r"^\s*\w+ = (\d+),", "\n".join(body), re.M)]
                    names = re.findall(r"^\s*(\w+)(?: = \d+)?,", "\n".join(body), re.M)
                    if not vals or len(vals) != len(names):
                        raise ValueError("enum %s: not every variant has an explicit discriminant" % ty)
                    return ("enumi", tuple(vals))
                ser = self._impl(self.fi, "Serialize", ty)
                de = self._impl(self.fi, "Deserialize", ty)
                w = re.findall(r"=> serializer\.serialize_str\(\"([^\"]*)\"\)", ser)
                r = re.findall(r"^\s*\"([^\"]*)\" => Ok\(", de, re.M)
                if not w or w != r:
                    raise ValueError("enum %s: written strings %r, read strings %r" % (ty, w, r))
                return ("enums", tuple(w))
            return self.struct_schema(ty, self.items)
        raise ValueError("type %r is not covered by the fontinfo schema extractor" % ty)

    def _check_int_or_float(self):
        body = self._impl(self.fi, "Serialize", "IntegerOrFloat")
        if "self.0.fract() == 0.0" not in body or "i32::MIN as f64..=i32::MAX as f64" not in body \
                or "serialize_i32(self.0 as i32)" not in body or "serialize_f64(self.0)" not in body:
            raise ValueError("serde_impls::IntegerOrFloat is not the integer-or-float writer")

    def _fixed_seq(self, ty):
        ser = self._impl(self.fi, "Serialize", ty)
        de = self._impl(self.fi, "Deserialize", ty)
        m = re.search(r"serialize_seq\(Some\((\d+)\)\)", ser)
        n_el = len(re.findall(r"seq\.serialize_element\(&self\.\w+\)\?;", ser))
        m2 = re.search(r"let values: Vec<(\w+)> = Deserialize::deserialize\(deserializer\)\?;", de)
        m3 = re.search(r"values\.len\(\) != (\d+)", de)
        if not (m and m2 and m3) or int(m.group(1)) != n_el or int(m3.group(1)) != n_el:
            raise ValueError("%s: sequence impls do not agree on the length" % ty)
        kind, attrs, body = self.items[ty]
        ftypes = {t for _, t, _ in _fields(body)}
        if len(ftypes) != 1:
            raise ValueError("%s: fields of several types" % ty)
        el = self.type_schema(ftypes.pop(), {})
        if el != self.type_schema(m2.group(1), {}):
            raise ValueError("%s: read element type differs from the field type" % ty)
        return ("fix", n_el, el)

    def _guideline(self):
        ser = self._impl(self.gl, "Serialize", "Guideline")
        written = re.findall(r"guideline\.serialize_field\(\"(\w+)\", &(?:self\.)?(\w+)\)\?;", ser)
        sch = self.struct_schema("RawGuideline", self.gitems)
        keys = [f[0] for f in sch[2]]
        if [w[0] for w in written] != keys or "serialize_struct(\"RawGuideline\", %d)" % len(keys) not in ser:
            raise ValueError("Guideline: the Serialize impl writes %r, RawGuideline has %r" % (written, keys))
        if "RawGuideline::deserialize(deserializer)?" not in self._impl(self.gl, "Deserialize", "Guideline"):
            raise ValueError("Guideline: Deserialize does not go through RawGuideline")
        return sch

    def struct_schema(self, name, items):
        kind, attrs, body = items[name]
        if kind != "struct":
            raise ValueError("%s is not a struct" % name)
        derives = " ".join(a for a in attrs if a.startswith("#[derive"))
        if "Serialize" not in derives and name != "RawGuideline" or "Deserialize" not in derives:
            raise ValueError("struct %s does not derive Serialize / Deserialize" % name)
        sa = _serde_args(attrs)
        for k in sa:
            if k not in ("deny_unknown_fields", "rename_all"):
                raise ValueError("struct %s: serde attribute %s is not modelled" % (name, k))
        if sa.get("rename_all", "camelCase") != "camelCase":
            raise ValueError("struct %s: rename_all = %r" % (name, sa.get("rename_all")))
        fields = []
        for rust, ty, fa in _fields(body):
            for k in fa:
                if k not in ("rename", "serialize_with", "skip_serializing_if", "default"):
                    raise ValueError("%s.%s: serde attribute %s is not modelled" % (name, rust, k))
            key = fa["rename"] if "rename" in fa else (camel(rust) if "rename_all" in sa else rust)
            opt = False
            m = re.match(r"^Option<(.*)>$", ty)
            if m:
                opt, ty = True, m.group(1)
            skip = False
            if "skip_serializing_if" in fa:
                if fa["skip_serializing_if"] == "Vec::is_empty" and not opt:
                    skip = True
                elif fa["skip_serializing_if"] == "Option::is_none" and opt:
                    pass
                else:
                    raise ValueError("%s.%s: skip_serializing_if = %r is not modelled" % (name, rust, fa["skip_serializing_if"]))
            dflt = "default" in fa
            if dflt and fa["default"] is not True:
                raise ValueError("%s.%s: default = %r is not modelled" % (name, rust, fa["default"]))
            fields.append((key, (opt, skip, dflt), self.type_schema(ty, fa)))
        return ("rec", "deny_unknown_fields" in sa, tuple(fields))


def extract(repo):
    return Extractor(repo).struct_schema("FontInfo", Extractor(repo).items)


# ------------------------------------------------------------------------------------------------
def g_str(s):
    return "[" + ";".join(str(ord(c)) for c in s) + "]"


def g_bool(b):
    return "true" if b else "false"


def g_z(z):
    return "(%d)%%Z" % z


def g_schema(s, ind=0):
    k = s[0]
    if k == "str":
        return "SStr"
    if k == "bool":
        return "SBool"
    if k == "int":
        return "(SInt %s %s)" % (g_z(s[1]), g_z(s[2]))
    if k == "num":
        return "(SNum %s)" % g_bool(s[1])
    if k == "float":
        return "SFloat"
    if k == "enumi":
        return "(SEnumI [%s])" % ";".join(g_z(v) for v in s[1])
    if k == "enums":
        return "(SEnumS [%s])" % ";".join(g_str(v) for v in s[1])
    if k == "list":
        return "(SList %s)" % g_schema(s[1], ind)
    if k == "fix":
        return "(SFix %d %s)" % (s[1], g_schema(s[2], ind))
    pad = "\n" + " " * (ind + 2)
    fs = [("(%s, (%s, %s, %s), %s)" % (g_str(f[0]), g_bool(f[1][0]), g_bool(f[1][1]), g_bool(f[1][2]), g_schema(f[2], ind + 2)))
          + "   (* %s *)" % f[0] for f in s[2]]
    body = pad.join(x + (";" if i + 1 < len(fs) else "") if False else x for i, x in enumerate(fs))
    # the separators must come before the comments
    parts = []
    for i, f in enumerate(s[2]):
        t = "(%s, (%s, %s, %s), %s)" % (g_str(f[0]), g_bool(f[1][0]), g_bool(f[1][1]), g_bool(f[1][2]), g_schema(f[2], ind + 2))
        parts.append(t + (";" if i + 1 < len(s[2]) else "") + "   (* %s *)" % f[0].replace("*", "x"))
    return "(SRec %s [%s%s])" % (g_bool(s[1]), pad, pad.join(parts))


def gallina(s, name):
    return "Definition %s : schema :=\n  %s.\n" % (name, g_schema(s, 2))


if __name__ == "__main__":
    import sys
    print(gallina(extract(sys.argv[1] if len(sys.argv) > 1 else "/repo"), "font_info_schema"))
