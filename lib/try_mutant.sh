#!/bin/bash
# usage: lib/try_mutant.sh <patch.diff> <Cxx> [more props...]
# Applies a seeded change to a scratch worktree of /repo, runs the given checks against it
# (VERIF_REPO), prints their last lines, removes the worktree.
P=$(readlink -f "$1"); shift
WT=/tmp/evalwt.$$
git -C /repo worktree add --detach $WT HEAD >/dev/null 2>&1 || exit 3
if ! git -C $WT apply "$P"; then echo "patch does not apply"; git -C /repo worktree remove --force $WT; exit 3; fi
cd "$(dirname "$0")/.."
for c in "$@"; do
  cp evidence/$c.json /tmp/ev.$$.$c.json 2>/dev/null
  VERIF_REPO=$WT ./check $c 2>/dev/null | grep -E "VIOLATION|KNOWN|ok|FAIL" | tail -3
  # the evidence of a run against a seeded change is not evidence about /repo: put the old file back
  [ -f /tmp/ev.$$.$c.json ] && mv /tmp/ev.$$.$c.json evidence/$c.json
done
git -C /repo worktree remove --force $WT; rm -rf "$(dirname "$0")/../harness-alt"
