#!/bin/bash
# fold per-property drafts known_findings.d/*.txt into known_findings.txt (then remove the drafts)
cd "$(dirname "$0")/.."
for f in known_findings.d/*.txt; do
  [ -f "$f" ] || continue
  grep -E "^(finding|fixed):" "$f" | while read -r line; do
    grep -qxF "$line" known_findings.txt || echo "$line" >> known_findings.txt
  done
  git rm -q -f "$f" 2>/dev/null || rm -f "$f"
done
