"""Correspondence between the font-level Coq model (coq/Model/FontRT.v, evaluated on the toy
instance through coq/Run/FontRun.v) and what norad did on disk.  Shared by lib/props/c01.py,
c04.py, c05.py.

A case is reduced to the SKELETON that decides norad's own font-level logic: which parts are
empty / default, names, directories and file names, dictionary keys (nested dictionaries kept, other
values dropped), guideline identifiers and which guideline has a lib, the feature text itself.

  font_term(font, built)   abstract font JSON (+ dump of the built value, for directory and file
                           names) -> Gallina term of type [font toy_sig]
  tree_term(ufo)           a UFO directory on disk -> Gallina term of type [tree toy_sig]
  tree_obs(ufo)            what is on disk, as the python value that decode_tree returns
  font_obs(dump)           skeleton of a dump_font JSON, as the python value decode_font returns
  decode_tree / decode_font / decode_save / decode_load ...  printed [tm] -> python value
  eval_cases(ctx, name, fn, terms)  evaluates `fn term` for every term in parallel coqc runs
"""
import json
import os
import re
import sys

sys.path.insert(0, os.path.dirname(os.path.abspath(__file__)))
import ufoio  # noqa: E402


# ------------------------------------------------------------------------------------------------
# Gallina printing

def g_str(s):
    return "[" + ";".join(str(ord(c)) for c in s) + "]"


def g_opt(x, f=lambda y: y):
    return "None" if x is None else "(Some %s)" % f(x)


def g_list(xs):
    return "[" + ";".join(xs) + "]"


def g_pair(a, b):
    return "(%s,%s)" % (a, b)


def skel_pv(pv):
    """tagged plist value -> skeleton: nested dictionaries kept, everything else 0"""
    if pv["t"] == "dict":
        return {k: skel_pv(v) for k, v in pv["v"].items()}
    return 0


def skel_dict(d):
    return {k: skel_pv(v) for k, v in (d or {}).items()}


def g_skel(sk):
    """skeleton dict -> tdict term (keys sorted; the model never depends on the order)"""
    return g_list([g_pair(g_str(k), "TLeaf 0" if v == 0 else "TDict %s" % g_skel(v)) for k, v in sorted(sk.items())])


def g_path(p):
    return g_list([g_str(c) for c in p.split("/")])


def font_term(font, built):
    """`built` = dump of the value built through the API (gives layer directories and glif file names)"""
    meta = font.get("meta") or {}
    info = font.get("info") or {}
    gl = font.get("guidelines")
    guides = None
    if gl is not None:
        guides = g_list(["(G %d %s %s)" % (i, g_opt(g.get("identifier"), g_str),
                                           g_opt(None if g.get("lib") is None else skel_dict(g["lib"]), g_skel))
                         for i, g in enumerate(gl)])
    layers = []
    for l, bl in zip(font["layers"], built["layers"]):
        files = {g["name"]: g["file"] for g in bl["glyphs"]}
        glyphs = g_list(["(%s,%s,(%s,0))" % (g_str(g["name"]), g_str(files[g["name"]]), g_str(g["name"]))
                         for g in sorted(l["glyphs"], key=lambda g: g["name"])])
        layers.append("(Ly %s %s %s %s %s)" % (g_str(l["name"]), g_str(bl["dir"]),
                                               g_opt(None if l.get("color") is None else "0"),
                                               g_skel(skel_dict(l.get("lib"))), glyphs))
    return "(F (M %s %d %d) (I %d %s) %s %d %d %s %s %s %s)" % (
        g_opt(meta.get("creator"), g_str), meta.get("formatVersion", 3), meta.get("formatVersionMinor", 0),
        1 if info else 0, g_opt(guides),
        g_skel(skel_dict(font.get("lib"))),
        len(font.get("groups") or {}), len(font.get("kerning") or {}),
        g_str(font.get("features") or ""),
        g_list(layers),
        g_list([g_pair(g_path(k), "[]") for k in sorted(font.get("data") or {}, key=lambda k: k.split("/"))]),
        g_list([g_pair(g_path(k), "[]") for k in sorted(font.get("images") or {}, key=lambda k: k.split("/"))]))


# ------------------------------------------------------------------------------------------------
# reading a tree from disk (low level: files and keys only)

def _plist(path):
    return ufoio.read_plist_file(path, os.path.basename(path))


def walk_files(ufo):
    files, empty_dirs = set(), []
    for root, ds, fs in os.walk(ufo):
        rel = os.path.relpath(root, ufo)
        if not ds and not fs and rel != ".":
            empty_dirs.append(rel.replace(os.sep, "/"))
        for f in fs:
            files.add(tuple(os.path.normpath(os.path.join(rel, f)).split(os.sep)))
    return files, empty_dirs


def read_tree(ufo):
    """the tree as the python value (see decode_tree); raises ufoio.UfoError / OSError / KeyError"""
    def P(*a):
        return os.path.join(ufo, *a)
    t = {}
    files, empty_dirs = walk_files(ufo)
    t["paths"] = files
    t["empty_dirs"] = empty_dirs

    def opt(name, f):
        return f(_plist(P(name))) if os.path.exists(P(name)) else None

    def meta(pv):
        d = pv["v"]
        return ("meta", d["creator"]["v"] if "creator" in d else None, d["formatVersion"]["v"],
                d["formatVersionMinor"]["v"] if "formatVersionMinor" in d else 0)

    def info(pv):
        d = pv["v"]
        gl = None
        if "guidelines" in d:
            gl = [(i, g["v"]["identifier"]["v"] if "identifier" in g["v"] else None)
                  for i, g in enumerate(d["guidelines"]["v"])]
        return ("info", 1 if [k for k in d if k != "guidelines"] else 0, gl)

    t["meta"] = opt("metainfo.plist", meta)
    t["info"] = opt("fontinfo.plist", info)
    t["lib"] = opt("lib.plist", lambda pv: ("dict", skel_pv(pv)))
    t["groups"] = opt("groups.plist", lambda pv: ("groups", len(pv["v"])))
    t["kerning"] = opt("kerning.plist", lambda pv: ("kerning", len(pv["v"])))
    t["features"] = None
    if os.path.exists(P("features.fea")):
        with open(P("features.fea"), "rb") as f:
            t["features"] = f.read().decode("utf-8")
    t["lcontents"] = opt("layercontents.plist", lambda pv: ("pairs", [(e["v"][0]["v"], e["v"][1]["v"]) for e in pv["v"]]))
    dirs = []
    seen = []
    order = [d for _, d in t["lcontents"][1]] if t["lcontents"] else []
    for d in order + sorted(x for x in os.listdir(ufo) if os.path.isdir(P(x)) and x not in order and x not in ("data", "images")):
        if d in seen or not os.path.isdir(P(d)):
            continue
        seen.append(d)
        ld = {"dir": d, "contents": None, "info": None, "glifs": []}
        if os.path.exists(P(d, "contents.plist")):
            c = _plist(P(d, "contents.plist"))["v"]
            ld["contents"] = ("pairs", sorted((k, v["v"]) for k, v in c.items()))
        if os.path.exists(P(d, "layerinfo.plist")):
            li = _plist(P(d, "layerinfo.plist"))["v"]
            ld["info"] = ("li", 0 if "color" in li else None, skel_pv(li["lib"]) if "lib" in li else None)
        gl = []
        for fn in sorted(os.listdir(P(d))):
            if fn.endswith(".glif"):
                with open(P(d, fn), "rb") as f:
                    root = ufoio.parse_xml(f.read(), fn)
                gl.append((fn, ("glif", root.attrs.get("name", ""), 0)))
        # the model lists the glifs in contents order
        if ld["contents"]:
            pos = {fn: i for i, (_, fn) in enumerate(ld["contents"][1])}
            gl.sort(key=lambda e: (pos.get(e[0], 10 ** 9), e[0]))
        ld["glifs"] = gl
        dirs.append(ld)
    t["dirs"] = dirs
    t["data"] = sorted(p[1:] for p in files if p[0] == "data") if os.path.isdir(P("data")) else None
    t["images"] = sorted(p[1:] for p in files if p[0] == "images") if os.path.isdir(P("images")) else None
    return t


def _g_content(c):
    if c is None:
        return "None"
    k = c[0]
    if k == "meta":
        return "(Some (CMeta (M %s %d %d)))" % (g_opt(c[1], g_str), c[2], c[3])
    if k == "info":
        gl = None if c[2] is None else g_list([g_pair(str(i), g_opt(ident, g_str)) for i, ident in c[2]])
        return "(Some (CInfo (%d,%s)))" % (c[1], g_opt(gl))
    if k == "dict":
        return "(Some (CDict %s))" % g_skel(c[1])
    if k == "groups":
        return "(Some (CGroups %d))" % c[1]
    if k == "kerning":
        return "(Some (CKerning %d))" % c[1]
    if k == "pairs":
        return "(Some (CPairs %s))" % g_list([g_pair(g_str(a), g_str(b)) for a, b in c[1]])
    if k == "li":
        return "(Some (CLi (%s,%s)))" % (g_opt(None if c[1] is None else "0"), g_opt(c[2], g_skel))
    raise ValueError(k)


def tree_term(ufo):
    t = read_tree(ufo)

    def store(x):
        return g_opt(None if x is None else g_list([g_pair(g_list([g_str(c) for c in p]), "[]") for p in x]))
    dirs = g_list([g_pair(g_str(d["dir"]), "(D %s %s %s)" % (
        _g_content(d["contents"]), _g_content(d["info"]),
        g_list([g_pair(g_str(fn), "(CGlif (%s,0))" % g_str(c[1])) for fn, c in d["glifs"]]))) for d in t["dirs"]])
    return "(T %s %s %s %s %s %s %s %s %s %s)" % (
        _g_content(t["meta"]), _g_content(t["info"]), _g_content(t["lib"]), _g_content(t["groups"]),
        _g_content(t["kerning"]), g_opt(t["features"], g_str), _g_content(t["lcontents"]), dirs,
        store(t["data"]), store(t["images"]))


def tree_obs(ufo):
    """the observable part of the tree, in the shape decode_tree produces"""
    t = read_tree(ufo)
    return {"paths": t["paths"], "meta": t["meta"], "info": t["info"], "lib": t["lib"], "groups": t["groups"],
            "kerning": t["kerning"], "features": t["features"], "lcontents": t["lcontents"],
            "dirs": [(d["dir"], d["contents"], d["info"], d["glifs"]) for d in t["dirs"]],
            "empty_dirs": t["empty_dirs"]}


def font_obs(dump):
    """skeleton of a dump_font / abstract font JSON, in the shape decode_font produces"""
    meta = dump.get("meta") or {}
    gl = dump.get("guidelines")
    return {
        "meta": ("meta", meta.get("creator"), meta.get("formatVersion", 3), meta.get("formatVersionMinor", 0)),
        "rest": 1 if (dump.get("info") or {}) else 0,
        "guides": None if gl is None else [(i, g.get("identifier"), None if g.get("lib") is None else skel_dict(g["lib"]))
                                           for i, g in enumerate(gl)],
        "lib": skel_dict(dump.get("lib")),
        "groups": len(dump.get("groups") or {}), "kerning": len(dump.get("kerning") or {}),
        "features": dump.get("features") or "",
        "layers": [(l["name"], l.get("dir"), None if l.get("color") is None else 0, skel_dict(l.get("lib")),
                    sorted((g["name"], g.get("file"), g["name"], 0) for g in l["glyphs"])) for l in dump["layers"]],
        "data": sorted(tuple(k.split("/")) for k in (dump.get("data") or {})),
        "images": sorted(tuple(k.split("/")) for k in (dump.get("images") or {})),
    }



# ------------------------------------------------------------------------------------------------
# encoding python values as tm terms (the inverse of the decoders below; dictionaries with sorted keys)

def e_n(n):
    return "N_ %d" % n


def e_l(xs):
    return "L_ [" + ";".join(xs) + "]"


def e_str(s):
    return e_l([e_n(ord(c)) for c in s])


def e_opt(x, f):
    return e_l([]) if x is None else e_l([f(x)])


def e_dict(d):
    return e_l([e_l([e_str(k), e_n(v) if isinstance(v, int) else e_dict(v)]) for k, v in sorted(d.items())])


def e_meta(c):
    return e_l([e_opt(c[1], e_str), e_n(c[2]), e_n(c[3])])


def e_content(c):
    k = c[0]
    if k == "meta":
        return e_l([e_n(0), e_meta(c)])
    if k == "info":
        return e_l([e_n(1), e_n(c[1]), e_opt(c[2], lambda l: e_l([e_l([e_n(b), e_opt(i, e_str)]) for b, i in l]))])
    if k == "dict":
        return e_l([e_n(2), e_dict(c[1])])
    if k == "groups":
        return e_l([e_n(3), e_n(c[1])])
    if k == "kerning":
        return e_l([e_n(4), e_n(c[1])])
    if k == "pairs":
        return e_l([e_n(5), e_l([e_l([e_str(a), e_str(b)]) for a, b in c[1]])])
    if k == "li":
        return e_l([e_n(6), e_opt(c[1], e_n), e_opt(c[2], e_dict)])
    if k == "glif":
        return e_l([e_n(7), e_str(c[1]), e_n(c[2])])
    raise ValueError(k)


TOP = ["metainfo.plist", "fontinfo.plist", "lib.plist", "groups.plist", "kerning.plist", "features.fea",
       "layercontents.plist"]


def ordered_paths(t):
    """the files on disk in the order the model lists them (anything the model cannot produce last)"""
    files = set(t["paths"])
    out = []

    def take(p):
        if p in files:
            files.discard(p)
            out.append(p)
    for n in TOP:
        take((n,))
    for d in t["dirs"]:
        take((d["dir"], "contents.plist"))
        take((d["dir"], "layerinfo.plist"))
        for fn, _ in d["glifs"]:
            take((d["dir"], fn))
    for st in ("data", "images"):
        for p in sorted(x for x in files if x[0] == st):
            take(p)
    return out + sorted(files)


def e_tree(t):
    """t = read_tree(ufo)"""
    return e_l([
        e_l([e_l([e_str(c) for c in p]) for p in ordered_paths(t)]),
        e_opt(t["meta"], e_content), e_opt(t["info"], e_content), e_opt(t["lib"], e_content),
        e_opt(t["groups"], e_content), e_opt(t["kerning"], e_content), e_opt(t["features"], e_str),
        e_opt(t["lcontents"], e_content),
        e_l([e_l([e_str(d["dir"]), e_opt(d["contents"], e_content), e_opt(d["info"], e_content),
                  e_l([e_l([e_str(fn), e_content(c)]) for fn, c in d["glifs"]])]) for d in t["dirs"]])])


def e_font(o):
    """o = font_obs(dump)"""
    return e_l([
        e_meta(o["meta"]), e_n(o["rest"]),
        e_opt(o["guides"], lambda l: e_l([e_l([e_n(b), e_opt(i, e_str), e_opt(lb, e_dict)]) for b, i, lb in l])),
        e_dict(o["lib"]), e_n(o["groups"]), e_n(o["kerning"]), e_str(o["features"]),
        e_l([e_l([e_str(l[0]), e_str(l[1] or ""), e_opt(l[2], e_n), e_dict(l[3]),
                  e_l([e_l([e_str(a), e_str(b or ""), e_str(c), e_n(n)]) for a, b, c, n in l[4]])]) for l in o["layers"]]),
        e_l([e_l([e_str(c) for c in p]) for p in o["data"]]),
        e_l([e_l([e_str(c) for c in p]) for p in o["images"]])])


def e_ok(x):
    return e_l([e_n(0), x])

# ------------------------------------------------------------------------------------------------
# decoding printed tm values

def tm_py(v):
    """driver.parse_term value -> nested python lists / ints"""
    if isinstance(v, tuple) and v and v[0] == "N_":
        return v[1]
    if isinstance(v, tuple) and v and v[0] == "L_":
        return [tm_py(x) for x in v[1]]
    raise ValueError("not a tm: %r" % (v,))


def d_str(t):
    return "".join(chr(c) for c in t)


def d_opt(t, f):
    return None if t == [] else f(t[0])


def d_dict(t):
    return {d_str(k): (v if isinstance(v, int) else d_dict(v)) for k, v in t}


def d_content(t):
    tag = t[0]
    if tag == 0:
        return d_meta(t[1])
    if tag == 1:
        return ("info", t[1], d_opt(t[2], lambda l: [(b, d_opt(i, d_str)) for b, i in l]))
    if tag == 2:
        return ("dict", d_dict(t[1]))
    if tag == 3:
        return ("groups", t[1])
    if tag == 4:
        return ("kerning", t[1])
    if tag == 5:
        return ("pairs", [(d_str(a), d_str(b)) for a, b in t[1]])
    if tag == 6:
        return ("li", d_opt(t[1], lambda x: x), d_opt(t[2], d_dict))
    if tag == 7:
        return ("glif", d_str(t[1]), t[2])
    raise ValueError(tag)


def d_meta(t):
    return ("meta", d_opt(t[0], d_str), t[1], t[2])


def decode_tree(t):
    return {"paths": set(tuple(d_str(c) for c in p) for p in t[0]), "npaths": len(t[0]),
            "meta": d_opt(t[1], d_content), "info": d_opt(t[2], d_content), "lib": d_opt(t[3], d_content),
            "groups": d_opt(t[4], d_content), "kerning": d_opt(t[5], d_content), "features": d_opt(t[6], d_str),
            "lcontents": d_opt(t[7], d_content),
            "dirs": [(d_str(d[0]), d_opt(d[1], d_content), d_opt(d[2], d_content),
                      [(d_str(fn), d_content(c)) for fn, c in d[3]]) for d in t[8]]}


def decode_font(t):
    return {"meta": d_meta(t[0]), "rest": t[1],
            "guides": d_opt(t[2], lambda l: [(b, d_opt(i, d_str), d_opt(lb, d_dict)) for b, i, lb in l]),
            "lib": d_dict(t[3]), "groups": t[4], "kerning": t[5], "features": d_str(t[6]),
            "layers": [(d_str(l[0]), d_str(l[1]), d_opt(l[2], lambda x: x), d_dict(l[3]),
                        sorted((d_str(a), d_str(b), d_str(c), n) for a, b, c, n in l[4])) for l in t[7]],
            "data": sorted(tuple(d_str(c) for c in p) for p in t[8]),
            "images": sorted(tuple(d_str(c) for c in p) for p in t[9])}


SERR = {1: "Downgrade", 2: "PreexistingPublicObjectLibsKey", 3: "InvalidGroups", 4: "InvalidFontInfo"}
LERR = {1: "MissingMetaInfoFile", 3: "FontInfo", 4: "InvalidGroups", 5: "FontInfo", 6: "FontInfo",
        7: "MissingLayerContentsFile", 8: "MissingDefaultLayer", 9: "Layer", 10: "Layer", 11: "legacy"}


def decode_save(t):
    if t[0] == 0:
        return ("ok", decode_tree(t[1]))
    if t[0] == 1:
        return ("err", SERR.get(t[1], "write") if isinstance(t[1], int) else "write")
    return ("panic", t[1])


def decode_load(t):
    if t[0] == 0:
        return ("ok", decode_font(t[1]))
    if t[0] == 1:
        return ("err", LERR.get(t[1], "parse") if isinstance(t[1], int) else "parse")
    return ("panic", t[1])


def diff_tree(model, obs):
    """differences between the model's tree and the observed one: list of (what, model, observed)"""
    out = []
    if model["npaths"] != len(model["paths"]):
        out.append(("model writes one path twice", model["npaths"], len(model["paths"])))
    if model["paths"] != obs["paths"]:
        out.append(("file set", sorted(model["paths"] - obs["paths"]), sorted(obs["paths"] - model["paths"])))
    for k in ("meta", "info", "lib", "groups", "kerning", "features", "lcontents"):
        if model[k] != obs[k]:
            out.append((k, model[k], obs[k]))
    md = {d[0]: d for d in model["dirs"]}
    od = {d[0]: d for d in obs["dirs"]}
    if [d[0] for d in model["dirs"]] != [d[0] for d in obs["dirs"]]:
        out.append(("layer directories", [d[0] for d in model["dirs"]], [d[0] for d in obs["dirs"]]))
    for k in md:
        if k in od and md[k] != od[k]:
            out.append(("layer directory " + k, md[k], od[k]))
    if obs.get("empty_dirs"):
        out.append(("empty directories on disk", [], obs["empty_dirs"]))
    return out


def diff_font(model, obs, ignore_files=False):
    out = []
    for k in ("meta", "rest", "guides", "lib", "groups", "kerning", "features", "data", "images"):
        if model[k] != obs[k]:
            out.append((k, model[k], obs[k]))
    ml, ol = model["layers"], obs["layers"]
    if [l[0] for l in ml] != [l[0] for l in ol]:
        out.append(("layer order", [l[0] for l in ml], [l[0] for l in ol]))
    else:
        for a, b in zip(ml, ol):
            if a != b:
                out.append(("layer " + a[0], a, b))
    return out


# ------------------------------------------------------------------------------------------------
# evaluation

HEADER = ("Require Import Norad.Run.RunBase Norad.Run.FontRun Norad.Model.FontRT Norad.Model.FontToy.\n"
          "Open Scope N_scope.\nSet Printing Width 1000000. Set Printing Depth 10000000.\n")


def eval_cases(ctx, name, fn, terms, shard=60):
    """fn = one of j_save / j_load / j_spec_read / j_resave (FontRun.v);
    -> list (same length as terms) of parsed python tm values, or an ("error", text) entry"""
    import driver
    d = os.path.join(ctx.scratch, "coq_" + name)
    os.makedirs(d, exist_ok=True)
    files = []
    for b in range(0, len(terms), shard):
        vf = os.path.join(d, "%s_%d.v" % (name, b))
        with open(vf, "w") as f:
            f.write(HEADER)
            for t in terms[b:b + shard]:
                f.write("Eval vm_compute in %s %s.\n" % (fn, t))
        files.append((b, vf))
    res = ctx.coq_eval_many([vf for _, vf in files], timeout=1500)
    out = [("error", "not evaluated")] * len(terms)
    for b, vf in files:
        rc, o = res[vf]
        n = min(shard, len(terms) - b)
        if rc != 0:
            for i in range(n):
                out[b + i] = ("error", o[-800:])
            continue
        vals = re.findall(r'= "([\[\]0-9,\s]*)"', o)
        if len(vals) != n:
            for i in range(n):
                out[b + i] = ("error", "expected %d values, found %d: %s" % (n, len(vals), o[-400:]))
            continue
        for i, v in enumerate(vals):
            try:
                out[b + i] = json.loads(v)
            except Exception as e:      # unparsable output: broken tie, reported by the caller
                out[b + i] = ("error", "unparsable: %r %s" % (e, v[:200]))
    return out


def eval_checks(ctx, name, fn, pairs, shard=80):
    """fn = c_save / c_load / c_spec_read / c_resave; pairs = [(input term, expected tm term)];
    -> list of True / False / ("error", text)"""
    d = os.path.join(ctx.scratch, "coq_" + name)
    os.makedirs(d, exist_ok=True)
    files = []
    for b in range(0, len(pairs), shard):
        vf = os.path.join(d, "%s_%d.v" % (name, b))
        with open(vf, "w") as f:
            f.write(HEADER)
            for t, e in pairs[b:b + shard]:
                f.write("Eval vm_compute in %s %s (%s).\n" % (fn, t, e))
        files.append((b, vf))
    res = ctx.coq_eval_many([vf for _, vf in files], timeout=1500)
    out = [("error", "not evaluated")] * len(pairs)
    for b, vf in files:
        rc, o = res[vf]
        n = min(shard, len(pairs) - b)
        vals = re.findall(r"^\s*= (true|false)\s*$", o, re.M) if rc == 0 else []
        if rc != 0 or len(vals) != n:
            for i in range(n):
                out[b + i] = ("error", "rc=%d, %d of %d values: %s" % (rc, len(vals), n, o[-600:]))
            continue
        for i, v in enumerate(vals):
            out[b + i] = v == "true"
    return out


# ------------------------------------------------------------------------------------------------
# known-finding classes (predicates on the INPUT font and the observed difference)

EPS = 2.0 ** -52
GEN_CLASSES = ("glyph_lib_linebreaks", "note_blanks", "cr_in_note", "attr_ws")
SURFACE_CLASSES = ("comments_in_glyph", "open_close_empties", "empty_lib_element", "cdata_note", "glif_doctype", "pi",
                   "cdata_strings", "ws_in_numbers", "non_utf8_encoding", "crlf_text")


def _has_linebreak(pv):
    if isinstance(pv, dict) and "t" in pv:
        if pv["t"] == "str":
            return "\n" in pv["v"] or "\r" in pv["v"]
        if pv["t"] == "dict":
            return any("\n" in k or "\r" in k or _has_linebreak(v) for k, v in pv["v"].items())
        if pv["t"] == "array":
            return any(_has_linebreak(v) for v in pv["v"])
    return False


def _lib_linebreak(lib):
    return lib is not None and _has_linebreak({"t": "dict", "v": lib})


def glyph_has_lib_linebreak(g):
    if _lib_linebreak(g.get("lib")):
        return True
    objs = list(g.get("guidelines") or []) + list(g.get("anchors") or []) + list(g.get("components") or [])
    for c in g.get("contours") or []:
        objs.append(c)
        objs += c.get("points") or []
    return any(_lib_linebreak(o.get("lib")) for o in objs)


def _glyph_of(font, path):
    """the glyph of the abstract font a difference path 'layers[i]/glyphs/<name>/...' points into"""
    m = re.match(r"^layers\[(\d+)\]/glyphs/(.*)$", path, re.S)
    if not m:
        return None, None
    li = int(m.group(1))
    rest = m.group(2)
    if li >= len(font["layers"]):
        return None, None
    best = None
    for g in font["layers"][li]["glyphs"]:
        n = g["name"]
        if rest == n or rest.startswith(n + "/"):
            if best is None or len(n) > len(best["name"]):
                best = g
    if best is None:
        return None, None
    return best, rest[len(best["name"]):]


def _num(x):
    try:
        if isinstance(x, dict):
            return float(x["v"]) if x["t"] == "int" else ufoio.val(x["v"])
        return ufoio.val(x)
    except Exception:
        return None


def classify_diff(font, path, got, want):
    """-> class id of the known-finding class the difference (path, got, want) falls into, or None.
    (The number classes flush_to_zero / near_integer_rounded / scale_near_one / advance_subnormal were
    repaired by cf70ca2, cce693b, ce237d0: such differences are violations now.)
    `want` is the value of the input font, `got` what came back."""
    g, sub = _glyph_of(font, path)
    if g is not None:
        # F3: glyph lib / object lib entries are re-indented when a key or string has a line break
        if "/lib" in sub and glyph_has_lib_linebreak(g):
            return "glyph_lib_linebreak"
        if sub == "/note":
            w = g.get("note")
            if w is not None and "\r" in w and isinstance(got, str) and got == w.replace("\r\n", "\n").replace("\r", "\n"):
                return "note_cr"
            ws = " \t\r\n"
            gt = got or ""
            if w is not None and (w == "" or w != w.strip(ws)) and got != w and gt.strip(ws) == w.strip(ws) and gt in w:
                return "note_blanks"
        if sub == "/image/fileName":
            w = (g.get("image") or {}).get("fileName", "")
            if re.search(r"[\t\n\r]", w) and got == re.sub(r"[\t\n\r]", " ", w):
                return "attr_whitespace"
    return None


def strip_empty_contours(font):
    """C11: 'empty contours are dropped' — a contour without points carries no outline; the glyph
    equality of C01/C05 is taken modulo such contours.  Returns (copy, number removed)."""
    f = json.loads(json.dumps(font))
    n = 0
    for l in f.get("layers") or []:
        for g in l["glyphs"]:
            keep = [c for c in g.get("contours") or [] if c.get("points")]
            n += len(g.get("contours") or []) - len(keep)
            g["contours"] = keep
    return f, n


def crlf_norm(s):
    """line-ending normal form of the model (crlf_norm of FontRT.v): every CR of a CR..CR LF run is removed"""
    return re.sub(r"\r+\n", "\n", s)


def equal(got, want, font=None, strip="want", **kw):
    """ufoio.equal with the adjustments the property texts call for: the feature text is compared in
    line-ending normal form (one pass of CRLF->LF is not idempotent on CR CR LF); contours without
    points are dropped from the INPUT side only (C11: 'empty contours are dropped'; since e956b60
    the writer skips them and the parser never returns them, so a loaded value with an empty contour
    is a difference).  strip: "want" (default), "both" (tooling self-checks), "none" (C04: both sides
    are loaded values).  -> (differences, observations)"""
    n1 = n2 = 0
    g2, w2 = got, want
    if strip == "both":
        g2, n1 = strip_empty_contours(got)
    if strip in ("want", "both"):
        w2, n2 = strip_empty_contours(want)
    d = ufoio.equal(g2, w2, **kw)
    out = []
    obs = {}
    if n2:
        obs["empty_contours_in_input"] = n2
    for path, x, y in d:
        if path == "features" and crlf_norm(x or "") == crlf_norm(y or ""):
            obs["features_multi_cr"] = 1
            continue
        out.append((path, x, y))
    return out, obs


def wellformed_errors(ufo):
    """every .plist / .glif below `ufo` must be well-formed XML for expat"""
    bad = []
    for root, _, fs in os.walk(ufo):
        rel = os.path.relpath(root, ufo).split(os.sep)
        if rel[0] in ("data", "images"):
            continue
        for f in fs:
            if f.endswith(".plist") or f.endswith(".glif"):
                p = os.path.join(root, f)
                try:
                    with open(p, "rb") as fh:
                        ufoio.parse_xml(fh.read(), f)
                except ufoio.UfoError as e:
                    bad.append((os.path.relpath(p, ufo), str(e)))
    return bad


def short(v, n=160):
    s = json.dumps(v, ensure_ascii=False, sort_keys=True, default=str) if not isinstance(v, str) else repr(v)
    return s if len(s) <= n else s[:n] + "..."
