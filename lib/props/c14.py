"""C14 — format 1 and 2 font info is converted to format 3 as the specification prescribes."""
import hashlib
import json
import os
import sys

sys.path.insert(0, os.path.dirname(os.path.dirname(os.path.abspath(__file__))))
import anchors_c14  # noqa: E402

META = {
    "level": "proof",
    "design_ref": "DESIGN.md section 8, C14; section 4.1 (field-mapping anchors); section 7 Num.v",
    "technique": "Coq proof (norad's field-by-field converters = the specification's conversion tables run by a "
                 "generic table-driven converter, for ALL legacy records and ALL enumeration codes) + anchors "
                 "regenerated from src/fontinfo.rs, src/upconversion.rs, src/font.rs on every run + model/"
                 "implementation correspondence through Font::load of generated UFO 1 / UFO 2 directories",
    "text": "Kernel-checked theorems over a Gallina model of FontInfo::from_file (V1 and V2 arms), of the part of "
            "FontInfo::validate a converted info can trip, and of upconvert_ufov1_robofab_data: the converters equal "
            "the UFO specification's conversion tables (every legacy attribute mapped, no two onto one target, every "
            "code outside the three enumeration tables an error for all integers / strings, weight -1 dropped), "
            "|round x - x| <= 1/2 with ties away from zero, absolute values non-negative, casts saturating, results "
            "typed for format 3, hint data and feature text moved out of the lib, the loaded info satisfies C13's fi_spec and its "
            "save step succeeds. Every line of the two struct literals, "
            "the three match tables, the struct field types and the lib-data function are re-extracted from the source "
            "on every run and proved equal to the tables. Font::load, validate and save are run on thousands of "
            "generated trees (every attribute alone and in combination with distinct values, codes -5..300 "
            "exhaustively, width names and near misses, numeric classes; every tree with a lib.plist also under five other "
            "DataRequests, the result proved and observed to be independent of the request) and compared field by field with the model.",
    "note": "Trusted: Coq kernel + VM; lib/anchors_c14.py (regex translator); the harness's tree writer and field dump; "
            "plist/serde (typed readers are modelled and exercised, not proved). 'passes validation' is a theorem about C13's "
            "validator model fi_validate / fi_spec on the projection of the converted info (C14_result_v3_valid), 'can be saved' "
            "is proved for the font-info step of save (C14_result_saveable, via C13_save_iff_spec); the rest of a save is "
            "checked on the implementation (save + reload of every loaded case).",
}
COQ_TARGETS = ["Props/C14.vo", "Run/C14.vo"]
PROPS_FILES = ["C14"]
TRUSTED = [
    "models Model/Upconv.v (hand-written from src/fontinfo.rs:516-791, src/upconversion.rs:121-217, src/font.rs load_impl), "
    "Model/SpecTables.v (UFO specification conversion chapter, written from the specification), Model/Num.v (exact dyadic binary64)",
    "anchors: lib/anchors_c14.py extracts every struct-literal line, match table, struct field type and the lib-data "
    "statements; Anchors/AnchorsOK_C14.v proves them equal to the tables (8 lemmas)",
    "Coq 8.16.1 kernel and vm_compute; no axioms; no extraction",
    "harness: plist crate writes the generated trees; FontInfo is dumped through its public fields (harness/src/c14_fields.rs)",
]
ASSUMPTIONS = [
    "the UFO specification's conversion tables are those of Model/SpecTables.v (written from the specification / its "
    "reference implementation ufoLib; the web page itself is not reachable offline)",
    "C14_result_v3_valid / C14_result_saveable speak about C13's model of FontInfo::validate and of the font-info step of "
    "Font::save (Model/FontInfo.v, tied to the code by C13's anchors and correspondence and, for converted infos, by this "
    "property's correspondence run); the projection keeps date, selection bits, family class and the lengths of the six "
    "PostScript lists, forgets list member values and all other attributes, and has None for gasp/guidelines/WOFF "
    "(proved absent from loaded legacy infos); saving the rest of the font is not proved here (oracle only)",
    "typed readers of FontInfoV1/FontInfoV2 (serde + plist) are modelled from their field types and validated by the "
    "correspondence run, not proved",
]
ALLOWED_AXIOMS = []

SHARD = 250


def _extract(ctx):
    import driver
    return anchors_c14.extract(driver.REPO)


def anchors(ctx):
    return anchors_c14.render(_extract(ctx))


FALLBACK_SCHEMA = os.path.join(os.path.dirname(os.path.abspath(__file__)), "c14_schema_fallback.json")


def _schema(ctx):
    """legacy field lists for the generator: from the source of this run; the committed copy
    only when the extraction fails (then the anchor obligation has already failed)"""
    try:
        a = _extract(ctx)
        return {"v1": a["v1_schema"], "v2": a["v2_schema"],
                "v1_conv": [l for l, _, sh in a["v1_map"] if sh != "KCopy"],
                "v2_conv": [l for l, _, sh in a["v2_map"] if sh != "KCopy"]}, a
    except Exception as ex:  # noqa: BLE001
        ctx.note("schema extraction failed (%r); generator falls back to the committed field lists" % (ex,))
        return json.load(open(FALLBACK_SCHEMA)), None


# ----------------------------------------------------------------- decoding dump trees for people
def _bytes(t):
    try:
        return bytes(x[1] for x in t[1]).decode("utf-8", "replace")
    except Exception:  # noqa: BLE001
        return repr(t)


def _z(t):
    l = t[1]
    return -l[1][1] if l[0][1] == 1 else l[1][1]


def _f64(t):
    l = t[1]
    tag = l[0][1]
    if tag == 0:
        m, e = _z(l[1]), _z(l[2])
        try:
            return float(m) * (2.0 ** e) if -1100 < e < 1100 else "%d*2^%d" % (m, e)
        except OverflowError:
            return "%d*2^%d" % (m, e)
    return {1: "-0.0", 2: "-inf" if len(l) > 1 and l[1][1] == 1 else "inf", 3: "NaN"}.get(tag, "?")


def _val(t):
    l = t[1]
    tag = l[0][1]
    if tag == 0:
        return _f64(l[1])
    if tag == 1:
        return _z(l[1])
    if tag == 2:
        return _bytes(l[1])
    if tag == 3:
        return bool(l[1][1])
    if tag == 4:
        return [_f64(x) for x in l[1][1]]
    if tag == 5:
        return [_z(x) for x in l[1][1]]
    return "<structured>"


def _pval(t):
    l = t[1]
    tag = l[0][1]
    if tag == 0:
        return _z(l[1])
    if tag == 1:
        return _f64(l[1])
    if tag in (2, 4):
        return _bytes(l[1])
    if tag == 3:
        return bool(l[1][1])
    if tag == 5:
        return [_pval(x) for x in l[1][1]]
    if tag == 6:
        return {_bytes(kv[1][0]): _pval(kv[1][1]) for kv in l[1][1]}
    return "?"


KERR = {1: "UnknownFontStyle", 2: "UnknownMsCharSet", 3: "UnknownWidthClass", 4: "IllTyped(model only)",
        5: "InvalidOpenTypeHeadCreatedDate", 6: "DisallowedSelectionBits", 7: "InvalidOs2FamilyClass",
        8: "InvalidPostscriptListLength", 9: "PostscriptListMustBePairs", 10: "other rule (model)", 99: "other"}


def _kerr(t):
    l = t[1]
    tag = l[0][1]
    name = KERR.get(tag, str(tag))
    if tag in (1, 2):
        return "%s(%d)" % (name, _z(l[1]))
    if tag in (3, 9, 10, 99):
        return "%s(%r)" % (name, _bytes(l[1]))
    if tag == 8:
        return "%s(%s, max %d, len %d)" % (name, _bytes(l[1]), _z(l[2]), _z(l[3]))
    return name


def to_tree(v):
    """parse_term output -> ('N', n) / ('L', [..])"""
    if isinstance(v, tuple) and v and v[0] == "N_":
        return ("N", v[1])
    if isinstance(v, tuple) and v and v[0] == "L_":
        return ("L", [to_tree(x) for x in v[1]])
    raise ValueError("not a tm: %r" % (v,))


def describe(t, keys):
    """human-readable form of an outcome dump tree"""
    try:
        l = t[1]
        tag = l[0][1]
        if tag == 0:
            return {"loaded": True, "format_version": _z(l[1]),
                    "info": {keys[x[1][0][1]] if x[1][0][1] < len(keys) else "?": _val(x[1][1]) for x in l[2][1]},
                    "features": _bytes(l[3]),
                    "lib": {_bytes(kv[1][0]): _pval(kv[1][1]) for kv in l[4][1]}}
        if tag == 1:
            e = l[1][1]
            et = e[0][1]
            if et == 1:
                return {"error": "FontInfo(ParsePlist)"}
            if et == 2:
                return {"error": "FontInfo(FontInfoUpconversion(%s))" % _kerr(e[1])}
            if et == 3:
                return {"error": "ParsePlist{lib.plist}"}
            if et == 4:
                return {"error": "FontInfoV1Upconversion(%s)" % _kerr(e[1])}
            if et == 99:
                return {"error": "other: " + _bytes(e[1])}
            return {"error": "code %d" % et}
        if tag == 2:
            return {"panic": True}
        if tag == 98:
            return {"surface_variant_differs": True, "canonical_order": describe(l[1], keys),
                    "rotated_order": describe(l[2], keys)}
    except Exception as ex:  # noqa: BLE001
        return {"undecodable": repr(ex)}
    return {"undecodable": True}


def parse_tm_text(s):
    """the harness's own rendering `L_ [N_ 1; ...]` -> tree"""
    from driver import parse_term
    return to_tree(parse_term(s))


def split_case_line(line):
    """'(<mk ...>, <tm>)' -> (input text, tm text): the tm starts at the last top-level ', L_' """
    i = line.rfind(", L_ [")
    # the observed dump is the LAST component and contains no 'mk'; find the split by bracket depth
    depth = 0
    j = None
    k = 1
    n = len(line)
    instr = False
    while k < n:
        c = line[k]
        if instr:
            if c == '"':
                instr = False
        elif c == '"':
            instr = True
        elif c in "([":
            depth += 1
        elif c in ")]":
            depth -= 1
        elif c == "," and depth == 0:
            j = k
            break
        k += 1
    if j is None:
        j = i
    return line[1:j], line[j + 1:-1].strip()


def run(ctx, known, built):
    from driver import sh, coq_values, parse_term, VERIF
    out = os.path.join(ctx.scratch, "c14")
    os.makedirs(out)
    schema, extracted = _schema(ctx)
    sp = os.path.join(out, "schema.json")
    json.dump(schema, open(sp, "w"))
    corpus = os.path.join(VERIF, "corpus", "C14")
    cmd = [ctx.harness, "c14", "--tier", ctx.tier, "--seed", str(ctx.seed), "--out", out, "--schema", sp]
    if os.path.isdir(corpus):
        cmd += ["--corpus", corpus]
    rc, o = sh(cmd, timeout=3000)
    if rc != 0:
        ctx.disagreements.append({"what": "harness c14 failed", "output": o[-2000:]})
        ctx.obligation("correspondence:C14", False, "harness failed")
        return
    summ = json.load(open(os.path.join(out, "summary.json")))
    lines = open(os.path.join(out, "cases.txt")).read().split("\n")
    if lines and lines[-1] == "":
        lines.pop()
    meta = [json.loads(x) for x in open(os.path.join(out, "cases.jsonl")).read().split("\n") if x]
    assert len(meta) == len(lines), (len(meta), len(lines))
    keys = sorted([k for k, _ in (extracted["v3_schema"] if extracted else [])], key=lambda k: k.encode()) or []
    if not keys:
        keys = json.load(open(FALLBACK_SCHEMA)).get("v3_keys", [])

    # ---- direct oracle on the implementation (independent of the model)
    HARD = ("format_version_is_3", "validate_ok", "save_ok", "saved_metainfo_says_3", "reload_ok")
    notes = {}
    for m in meta:
        inp = {k: m[k] for k in ("label", "version", "rot", "request", "request_name", "fontinfo", "lib", "features_fea")}
        if m.get("writer_roundtrip") is False:
            ctx.disagreements.append({"what": "harness: a generated plist does not parse back to the intended values",
                                      "index": m["index"], "input": inp})
        if m.get("panic") is not None:
            ctx.violations.append({"input": inp, "index": m["index"], "implementation": "panic: %s" % m["panic"],
                                   "demand": "Font::load returns a font or an error"})
        for name, ok in m.get("oracle", []):
            if ok:
                continue
            if name in HARD:
                ctx.violations.append({"input": inp, "index": m["index"], "implementation": "%s is false" % name,
                                       "demand": "a loaded format 1/2 font reports format 3, passes validation and can be saved"})
            else:
                notes[name] = notes.get(name, 0) + 1
    # ---- model and specification in Coq
    files = []
    shard_base = {}
    for b in range(0, len(lines), SHARD):
        vf = os.path.join(out, "cases_%05d.v" % b)
        with open(vf, "w") as f:
            f.write("From Coq Require Import String.\nRequire Import Norad.Run.RunBase Norad.Run.C14.\n"
                    "Open Scope string_scope. Open Scope Z_scope.\n"
                    "Set Printing Width 1000000. Set Printing Depth 10000000.\n")
            f.write("Definition cs : list (case * tm) := [\n" + ";\n".join(lines[b:b + SHARD]) + "\n].\n")
            f.write("Eval vm_compute in mismatches run_model cs.\n")
            f.write("Eval vm_compute in mismatches run_spec cs.\n")
            f.write("Eval vm_compute in map (fun b : bool => if b then 1 else 0) (typed_flags cs).\n")
        files.append(vf)
        shard_base[vf] = b
    if not built:
        ctx.disagreements.append({"what": "Coq development does not build; correspondence not evaluated"})
        res = {}
    else:
        res = ctx.coq_eval_many(files, timeout=1500)
    nok = 0
    typed_total = 0
    seen_viol = set()
    for vf, (rc, o) in sorted(res.items()):
        b = shard_base[vf]
        if rc != 0:
            ctx.disagreements.append({"what": "correspondence shard failed to evaluate", "shard": os.path.basename(vf),
                                      "output": o[-800:]})
            continue
        vals = coq_values(o)
        if len(vals) != 3:
            ctx.disagreements.append({"what": "unparsable shard output", "shard": os.path.basename(vf), "output": o[-800:]})
            continue
        try:
            dm = parse_term(vals[0])
            ds = parse_term(vals[1])
            flags = parse_term(vals[2])
        except Exception as ex:  # noqa: BLE001
            ctx.disagreements.append({"what": "unparsable shard output", "shard": os.path.basename(vf), "error": repr(ex)})
            continue
        nok += 1
        typed_total += sum(flags)

        def rec(idx, mt, side):
            m = meta[b + idx]
            _, obs = split_case_line(lines[b + idx])
            inp = {k: m[k] for k in ("label", "version", "rot", "request", "request_name", "fontinfo", "lib", "features_fea")}
            return {"index": b + idx, "input": inp, side: describe(to_tree(mt), keys),
                    "implementation": describe(parse_tm_text(obs), keys)}
        for (idx, mt) in dm:
            d = rec(idx, mt, "model")
            d["what"] = "model (Model/Upconv.v) and implementation differ"
            ctx.disagreements.append(d)
        for (idx, mt) in ds:
            # C14_load_refines_spec: the specification's tables prescribe exactly the model's outcome, so
            # for a legacy file with legal (well-typed) values a difference is a violation of the property
            if flags[idx] == 1 and (b + idx) not in seen_viol:
                seen_viol.add(b + idx)
                d = rec(idx, mt, "specification")
                d["demand"] = ("every legacy attribute under the format-3 attribute the conversion tables prescribe, "
                               "with the prescribed value conversion; unknown enumeration values are errors; "
                               "hint data and feature text moved out of the lib")
                ctx.violations.append(d)
    # smallest inputs first
    def size(v):
        i = v.get("input", {})
        return len(json.dumps(i))
    ctx.violations.sort(key=size)
    ctx.obligation("correspondence:C14 (%d shards, %d cases)" % (len(files), len(lines)),
                   nok == len(files) and not ctx.disagreements, "model and implementation differ")
    # ---- coverage
    noncopy = set()
    if extracted:
        for ver in ("v1_map", "v2_map"):
            noncopy |= {k for _, k, s in extracted[ver] if s != "KCopy"}
        noncopy |= {k for k, _, _ in extracted["hint_map"]}
    distinct = set()
    nontrivial = 0
    for m in meta:
        h = hashlib.sha256(json.dumps([m["version"], m["request"], m["fontinfo"], m["lib"], m["features_fea"]], sort_keys=True).encode()).hexdigest()
        if h in distinct:
            continue
        distinct.add(h)
        libkeys = [kv[0] for kv in (m["lib"] or {}).get("m", [])] if m["lib"] else []
        if (not m["loaded"]) or (set(m["info_keys"]) & noncopy) or (m["version"] == 1 and any(k.startswith("org.robofab.") for k in libkeys)):
            nontrivial += 1
    ctx.cov.update({
        "evaluations": len(lines),
        "distinct_nontrivial": nontrivial,
        "rule": "generated UFO 1 / UFO 2 directories through Font::load (+ validate, save, reload) and through the Coq model "
                "and the table-driven specification converter; distinct by hash of the abstract input; non-trivial = the load "
                "reports an error, or sets a format-3 attribute through a non-copy conversion (round, abs, table, weight, "
                "hint data), or moves RoboFab lib data of a format-1 font",
        "exhaustive": True,
        "exhaustive_scope": "fontStyle and msCharSet codes -5..300, weightValue -5..12, all 13 width names, every legacy "
                            "attribute individually; numeric classes and combinations sampled",
        "distinct_inputs": len(distinct),
        "well_typed_cases": typed_total,
        "input_distribution": summ,
        "reload_notes_not_part_of_C14": notes,
        "traces_validated_against_impl": len(lines),
    })
    for m in meta[:1] + [x for x in meta if x["label"] == "robofab"][:1] + [x for x in meta if x["label"] == "enum-combination"][:1]:
        _, obs = split_case_line(lines[m["index"]])
        ctx.samples.append({"label": m["label"], "version": m["version"], "request": m["request_name"], "fontinfo": m["fontinfo"], "lib": m["lib"],
                            "implementation": describe(parse_tm_text(obs), keys)})


def replay(ctx, path):
    from driver import sh
    d = json.load(open(path))
    inp = d.get("input")
    if isinstance(inp, dict) and "input" in inp:
        inp = inp["input"]
    if inp is None and d.get("disagreeing_cases"):
        inp = d["disagreeing_cases"][0].get("input")
    if inp is None or "version" not in inp:
        print("replay file names no generated tree (kind=%s): %s" % (d.get("kind"), json.dumps(d)[:800]))
        return 1
    tmp = os.path.join(ctx.scratch, "replay_case.json")
    json.dump(inp, open(tmp, "w"))
    rc, o = sh([ctx.harness, "c14", "--replay", tmp, "--out", os.path.join(ctx.scratch, "replay")])
    print(o)
    return 0
