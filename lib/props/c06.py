"""C06 — layer and glyph containers stay consistent under any operation history."""
import json
import os

META = {
    "level": "proof",
    "design_ref": "DESIGN.md section 8, C06; Appendix A 'Containers'",
    "technique": "Coq proof (std++ gmap/gset model of Layer and LayerContents; invariant preserved by every operation, "
                 "hence by induction over ALL operation histories; error => unchanged; save+load exact) + differential "
                 "run of exhaustive and random histories against the implementation",
    "text": "Kernel-checked over a Gallina model of Layer / LayerContents and the layer part of Font::save / Font::load "
            "(including the uniqueness / plain-name checks at load): the invariant (layer names unique, exactly one default "
            "layer, first, in 'glyphs', only it may be called public.default, glyph map / file-name index / taken-set in step, "
            "file names and directories distinct ignoring case, names valid) holds initially, after every successful load "
            "(the checks at load are part of the model), and is preserved by every operation except raw Layer::entry access (refuted by witness), "
            "hence after every history; an operation that reports an error leaves the state unchanged; saving and loading a "
            "consistent font succeeds and reproduces exactly its layers and glyphs; the only reachable panics are the documented "
            "99-tries panic and Glyph::new on an invalid name. The model is tied to the code on every run: tries of all "
            "operation sequences up to length 4 over small alphabets plus random histories, comparing outcome and full "
            "getter-visible state after every operation, and which start trees Font::load accepts.",
    "note": "Trusted: Coq kernel + VM; the hand-written model of src/layer.rs (tied by the differential run, not by proof); "
            "file-system behaviour of create_dir / plist reading; DataRequest filters are not modelled (C17).",
}
COQ_TARGETS = ["Props/C06.vo", "Run/C06.vo"]
PROPS_FILES = ["C06"]
TRUSTED = ["model Model/Layer.v hand-written from src/layer.rs and src/font.rs; tied by exhaustive and random histories "
           "through the public API", "Coq 8.16.1 kernel and vm_compute; no axioms; no extraction"]
ASSUMPTIONS = ["the font is loaded with DataRequest::all (layer filters belong to C17)",
               "is_upper / lower are universally quantified (nothing assumed about Unicode case mapping)"]

HEADER = ("From stdpp Require Import gmap.\nRequire Import Norad.Run.RunBase Norad.Run.C07 Norad.Run.C06.\nOpen Scope N_scope.\n"
          "Set Printing Width 100000. Set Printing Depth 1000000.\n")


def anchors(ctx):
    import anchors_c07
    import driver
    return anchors_c07.gallina(anchors_c07.extract(driver.REPO)).replace("Anchors_C07", "Anchors_C06")


def lit(text, k=300):
    parts = [text[i:i + k] for i in range(0, len(text), k)] or [""]
    return "[" + ";\n".join('"%s"' % p.replace('"', '""') for p in parts) + "]%string"


def one(text):
    return '"%s"%%string' % text.replace('"', '""')


def text_of(l):
    try:
        return "".join(chr(c) for c in l)
    except Exception:
        return repr(l)


def run_containers(ctx, known, built, prop, light=False, tags=("C06:", "C07:")):
    """shared by C06 and C07: histories through harness and model; returns the summary"""
    from driver import sh, coq_values, parse_term
    out = os.path.join(ctx.scratch, "c06")
    os.makedirs(out)
    cmd = [ctx.harness, "c06", "--tier", ctx.tier, "--seed", str(ctx.seed), "--out", out]
    if light:
        cmd.append("--light")
    rc, o = sh(cmd, timeout=3000)
    if rc != 0:
        ctx.disagreements.append({"what": "harness c06 failed", "output": o[-2000:]})
        return None
    summ = json.load(open(os.path.join(out, "summary.json")))
    tables = open(os.path.join(out, "tables.v")).read()
    jobs = []
    for sh_ in summ["shards"]:
        text = open(os.path.join(out, sh_["id"] + ".txt"), encoding="utf-8").read()
        if sh_["kind"] == "trie":
            cmd = "Eval vm_compute in run_trie up low names %s %s %s %s %d %s." % (
                one(sh_["start"]), one(sh_["alphabet"]), one(sh_["prefix"]), one(sh_["state0"]), sh_["depth"], lit(text))
        else:
            cmd = "Eval vm_compute in run_histories up low names %s." % lit(text)
        jobs.append((sh_["weight"], sh_, cmd))
    # which start trees load at all: the model's load against Font::load
    starts = summ.get("starts", [])
    if starts:
        jobs.append((3000, {"id": "starts", "kind": "starts", "starts": starts},
                     "Eval vm_compute in map (loads low names) [%s]." % ";".join(one(st["start"]) for st in starts)))
    jobs.sort(key=lambda j: -j[0])
    nfiles = max(1, min(len(jobs), 32))
    bins = [[0, []] for _ in range(nfiles)]
    for j in jobs:
        b = min(bins, key=lambda b: b[0])
        b[0] += j[0] + 500
        b[1].append(j)
    files = {}
    for bi, (_, js) in enumerate(bins):
        if not js:
            continue
        vf = os.path.join(out, "shard_%02d.v" % bi)
        with open(vf, "w", encoding="utf-8") as f:
            f.write(HEADER + tables)
            for _, sh_, c in js:
                f.write(c + "\n")
        files[vf] = [sh_ for _, sh_, c in js]
    if not built:
        ctx.disagreements.append({"what": "Coq development does not build; correspondence not evaluated"})
        res = {}
    else:
        res = ctx.coq_eval_many(list(files), timeout=1500)
    nok = 0
    for vf, (rc, o) in sorted(res.items()):
        if rc != 0:
            ctx.disagreements.append({"what": "correspondence shard failed to evaluate", "shard": os.path.basename(vf), "output": o[-800:]})
            continue
        vals = coq_values(o)
        if len(vals) != len(files[vf]):
            ctx.disagreements.append({"what": "unparsable shard output", "shard": os.path.basename(vf), "output": o[-800:]})
            continue
        nok += 1
        for sh_, v in zip(files[vf], vals):
            diffs = parse_term(v)
            if sh_["kind"] == "starts":
                for st, m in zip(sh_["starts"], diffs):
                    if (m == "true") != bool(st["loads"]):
                        ctx.disagreements.append({"what": "model and Font::load differ on whether this tree loads",
                                                  "start": st["start"], "ops": "", "model_loads": m == "true",
                                                  "implementation_loads": st["loads"]})
                continue
            if not diffs:
                continue
            if sh_["kind"] == "trie":
                idx = open(os.path.join(out, sh_["id"] + ".idx")).read().split("\n")
                exp = open(os.path.join(out, sh_["id"] + ".txt"), encoding="utf-8").read().split("\n")
                for (node, mtxt) in diffs[:10]:
                    d = {"what": "model and implementation differ after the last operation of this history"
                                 if node < 999990 else "model and implementation differ on the state before the first enumerated operation",
                         "start": sh_["start"], "ops": idx[node] if node < len(idx) else sh_["prefix"],
                         "model": text_of(mtxt), "implementation": exp[node] if node < len(exp) else None,
                         "shard": sh_["id"], "format": "outcome|state ('=' unchanged); state = layer:dir:glyph probes;"}
                    ctx.disagreements.append(d)
            else:
                lines = open(os.path.join(out, sh_["id"] + ".txt"), encoding="utf-8").read().split("\n")
                for (hi, steps) in diffs[:10]:
                    parts = lines[hi].split("#")
                    step, mtxt = steps[0]
                    d = {"what": ("model and implementation differ at operation number %d of this history" % step)
                                 if step < 999990 else "model and implementation differ on the start state",
                         "start": parts[0], "ops": parts[1], "model": text_of(mtxt),
                         "implementation": parts[3 + step] if 3 + step < len(parts) else parts[2], "shard": sh_["id"]}
                    ctx.disagreements.append(d)
    ctx.disagreements.sort(key=lambda d: len(d.get("ops") or "") if isinstance(d, dict) else 0)
    ctx.obligation("correspondence:%s containers (%d files, %d shards)" % (prop, len(files), len(summ["shards"])),
                   nok == len(files) and not ctx.disagreements, "model and implementation differ")
    # ---- oracle
    known_ids = {k["id"] for k in known}
    for ln in open(os.path.join(out, "oracle.jsonl")):
        d = json.loads(ln)
        d["failed"] = [c for c in d["failed"] if c.startswith(tags)]
        if not d["failed"]:
            continue
        if d["class"] and d["class"] in known_ids:
            ctx.known_hits[d["class"]] = ctx.known_hits.get(d["class"], 0) + 1
            continue
        ctx.violations.append({"start": d["start"], "ops": d["ops"], "failing_operation": d["at"], "failed": d["failed"],
                               "class": d["class"] or "(outside every known class)", "names": summ["names"],
                               "demand": "C06 invariant through getters after every operation; error => unchanged; "
                                         "save+load exact; no panic; C07 distinct / stable / portable"})
    for cid, n in summ.get("oracle_failures_not_written", {}).items():
        if cid in known_ids:
            ctx.known_hits[cid] = ctx.known_hits.get(cid, 0) + n
        else:
            ctx.violations.append({"start": "?", "ops": "?", "failed": ["%d further oracle failures of class %s (not listed as known)" % (n, cid)],
                                   "class": cid})
    ctx.violations.sort(key=lambda v: len(v.get("ops", "")))
    return summ


def witnesses(ctx, known, sub, marker):
    """replay the witness of every listed finding; a witness that no longer fails is stale (not an alarm)"""
    import re
    import driver
    res = {}
    for k in known:
        m = re.search(r"witness=(\S+)", k["text"])
        if not m:
            continue
        path = os.path.join(driver.VERIF, m.group(1))
        if not os.path.exists(path):
            res[k["id"]] = "witness file missing"
            continue
        rc, o = driver.sh([ctx.harness, sub, "--replay", path, "--out", ctx.scratch], timeout=300)
        res[k["id"]] = "still fails" if marker(o) else "STALE: the witness no longer fails"
    ctx.cov["known_finding_witnesses"] = res


def run(ctx, known, built):
    witnesses(ctx, known, "c06", lambda o: "oracle failure:" in o or "does not load" not in o and "P4" in o)
    summ = run_containers(ctx, known, built, "C06")
    if summ is None:
        return
    shards = summ.pop("shards")
    total = summ["operations_applied"]
    ctx.cov.update({
        "evaluations": total,
        "distinct_nontrivial": summ["trie_nodes"] + summ["random_histories"],
        "rule": "one evaluation = one container operation applied to the implementation and to the model with outcome and "
                "full getter-visible state compared; distinct = distinct histories (trie nodes are distinct operation "
                "sequences by construction, plus the random histories); every history is non-trivial (it exercises the "
                "operation's branches; the outcome histogram is in input_distribution)",
        "exhaustive": True,
        "exhaustive_scope": "; ".join("all sequences of length <= %d over %d operations from start %s" % (
            t["max_length"], t["operations_in_alphabet"], "Font::new()" if t["start"] == "N" else repr(t["start"]))
            for t in summ.get("tries", [])),
        "input_distribution": summ,
        "model_shards": len(shards),
        "traces_validated_against_impl": summ["trie_nodes"] + summ["random_histories"],
    })
    ctx.samples.append({"history": "start N, ops I51 I52 N5121 S (insert A, insert a_, rename A->a_ overwrite, save+load)",
                        "names": summ["names"][:6]})


def replay(ctx, path):
    from driver import sh
    d = json.load(open(path))
    inp = d.get("input") or (d.get("disagreeing_cases") or [{}])[0]
    if not isinstance(inp, dict) or inp.get("ops") is None:
        print("replay file names no history (kind=%s): %s" % (d.get("kind"), json.dumps(d)[:600]))
        return 1
    tmp = os.path.join(ctx.scratch, "replay.json")
    json.dump({"start": inp.get("start", "N"), "ops": inp["ops"]}, open(tmp, "w"))
    rc, o = sh([ctx.harness, "c06", "--replay", tmp, "--out", ctx.scratch])
    print(o)
    if inp.get("model") is not None:
        print("model     =", inp["model"])
        print("implementation =", inp.get("implementation"))
    return 0
