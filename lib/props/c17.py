"""C17 — a partial load equals the full load restricted to what was requested."""
import collections
import json
import os

META = {
    "level": "proof",
    "design_ref": "DESIGN.md section 8, C17; Appendix A 'Load'; findings F10 (fixed in 6bd743f), F23 (fixed in 8d15b4b)",
    "technique": "Coq proof about a logging model of Font::load_impl over an abstract file system (writer monad "
                 "recording every path consulted) + effect-order anchor with the request guards + "
                 "model/implementation correspondence over all 64 switch masks x filter shapes",
    "text": "Kernel-checked theorems about the model of Font::load_impl / LayerContents::load / Layer::load_impl for "
            "format-3 UFOs: for EVERY request (six switches, any layer filter) and EVERY file system, if the full load "
            "succeeds then the partial load succeeds with `restrict r f` (un-requested parts at their defaults, layers "
            "filtered, default layer first, an empty placeholder if it was filtered out); the first layer is always "
            "the default one; no path belonging to an un-requested part is ever consulted (read set, for well-formed "
            "UFOs); the result depends only on the paths consulted, hence changing, corrupting or deleting "
            "un-requested files changes nothing. The step list the model interprets is compared on every run with the "
            "skeleton regenerated from font.rs / layer.rs / data_request.rs (each exists/read call, in order, with "
            "the request.* guard in front of it), and model and implementation are run on generated UFOs x all "
            "requests, pristine and with every un-requested file replaced by garbage or removed.",
    "note": "Trusted: Coq kernel + VM; file contents enter the model as parsed views (a file either parses as its "
            "kind or is garbage) - the parsers themselves are not modelled; format 1/2 upconversion is outside the "
            "model (explicit `Legacy` outcome); which files a run reads is tied to the source by the anchor only "
            "(reads are not observable from outside), and validated by the corruption runs.",
}
COQ_TARGETS = ["Props/C17.vo", "Run/C17.vo"]
PROPS_FILES = ["C17"]
TRUSTED = [
    "model Model/Request.v hand-written from src/font.rs (load_impl), src/layer.rs (LayerContents::load, "
    "Layer::load_impl), src/data_request.rs; tied by the effect-order anchor and the correspondence run",
    "parsed-view abstraction of file contents (harness/src/c17.rs writes the files and their views from one recipe)",
    "Coq 8.16.1 kernel and vm_compute; no axioms; no extraction",
]
ASSUMPTIONS = [
    "state the getters do not show (LayerContents.path_set / Layer.path_set, the lower-cased names in use) is not "
    "part of the model's lfont; it is observed on the implementation by applying the same post-load script to the "
    "partial load and to the restricted full load (new_layer / get_or_create_layer with the names of the left-out "
    "layers and case variants, a rename onto a left-out directory, glyphs of left-out layers inserted) and comparing "
    "Layer::path() and every get_path; by C06's invariant the index is the lower-cased directories of the layers present",
    "format 3 only (the property's scope); UFO 1/2 loads re-read lib.plist regardless of the switch (Appendix A)",
    "C17_not_read needs a well-formed UFO: layer directories / glif paths are distinct plain names that do not "
    "collide with other parts' files",
]

HDR = """From stdpp Require Import gmap strings.
From Norad.Model Require Import Fs Save Request.
From Norad.Run Require Import C17.
Open Scope string_scope. Open Scope list_scope. Open Scope N_scope.
Set Printing Width 100000. Set Printing Depth 1000000.
"""


def anchors(ctx):
    import anchors_save
    import driver
    return anchors_save.gen_file(anchors_save.load_skeletons(driver.REPO))


def run(ctx, known, built):
    from driver import sh, coq_values, parse_term
    out = os.path.join(ctx.scratch, "c17")
    os.makedirs(out)
    rc, o = sh([ctx.harness, "c17", "--tier", ctx.tier, "--seed", str(ctx.seed), "--out", out], timeout=3000)
    if rc != 0:
        ctx.disagreements.append({"what": "harness c17 failed", "output": o[-2000:]})
        return
    fsdefs = open(os.path.join(out, "fs.txt")).read()
    lines = open(os.path.join(out, "cases.txt")).read().split("\n")
    if lines and lines[-1] == "":
        lines.pop()
    rows = [json.loads(l) for l in open(os.path.join(out, "oracle.jsonl")) if l.strip()]
    # lines: "<row>\t<variant>\t<LCase ...>"
    meta = [ln.split("\t", 2)[:2] for ln in lines]
    lines = [ln.split("\t", 2)[2] for ln in lines]
    per = 500
    shards = [lines[i:i + per] for i in range(0, len(lines), per)]
    files = {}
    for k, shl in enumerate(shards):
        used = sorted({ln.split(" ")[1] for ln in shl})
        defs = "\n".join(d for d in fsdefs.split("\n") if d.split(" ")[1:2] and d.split(" ")[1] in used)
        vf = os.path.join(out, "c17_%d.v" % k)
        with open(vf, "w") as f:
            f.write(HDR + defs + "\n")
            f.write("Definition cs : list lcase := [\n" + ";\n".join(shl) + "].\n")
            f.write("Eval vm_compute in map fst (lmismatches cs).\n")
            f.write("Eval vm_compute in restrict_failures cs.\n")
        files[vf] = k
    nok = 0
    if not built:
        ctx.disagreements.append({"what": "Coq development does not build; correspondence not evaluated"})
        res = {}
    else:
        res = ctx.coq_eval_many(list(files), timeout=1800)
    for vf, (rc, o) in sorted(res.items()):
        k = files[vf]
        if rc != 0:
            ctx.disagreements.append({"what": "correspondence shard failed to evaluate", "shard": os.path.basename(vf), "output": o[-800:]})
            continue
        vals = coq_values(o)
        if len(vals) != 2:
            ctx.disagreements.append({"what": "unparsable shard output", "shard": os.path.basename(vf), "output": o[-600:]})
            continue
        nok += 1
        for j in parse_term(vals[0]):
            li = k * per + j
            r = rows[int(meta[li][0])]
            ctx.disagreements.append({
                "what": "model of Font::load_requested_data differs from the implementation",
                "seed": ctx.seed, "case": r["case"], "variant": meta[li][1],
                "scenario": r, "case_line": lines[li][:600]})
        for j in parse_term(vals[1]):
            li = k * per + j
            r = rows[int(meta[li][0])]
            if meta[li][1] == "requested-damaged":
                continue       # the pristine full load says nothing about a damaged tree
            ctx.disagreements.append({
                "what": "the model's partial load is not the restricted full load (theorem C17_restrict would be false)",
                "seed": ctx.seed, "case": r["case"], "scenario": r})
    for r in rows:
        # regression input (former finding F23, `./glyphs`): every load must refuse it
        if r["must_be_rejected"] and not r["pristine"].startswith("(InvalidLayerDirectory"):
            ctx.violations.append({
                "seed": ctx.seed, "case": r["case"], "scenario": r,
                "failed": ["a layer directory that is not a plain name (corpus/C17/f23_dot_glyphs.txt) is accepted again: %s" % r["pristine"]],
                "demand": "the default layer is always present: such a UFO either loads with every request or with none"})
            continue
        if not r["oracle_ok"]:
            ctx.violations.append({
                "seed": ctx.seed, "case": r["case"], "scenario": r, "failed": r["why"],
                "demand": "partial load = full load restricted to the request; default layer present and first; "
                          "corrupting files of un-requested parts changes nothing"})
    ctx.obligation("correspondence:C17 (%d shards)" % len(shards), nok == len(shards) and not ctx.disagreements,
                   "model and implementation differ")
    nontrivial = {(r["ufo"], r["mask"], r["shape"]) for r in rows if r["n_unrequested"] > 0}
    ctx.cov.update({
        "evaluations": len(lines),
        "distinct_nontrivial": len(nontrivial),
        "rule": "one evaluation = one Font::load_requested_data call (and one run of the Coq model) on a generated "
                "format-3 UFO: every (UFO, switch mask 0..63, filter shape) pristine and once more with every "
                "un-requested file replaced by garbage or removed and whole un-requested entries (data / images / layer directories, lib / groups / kerning / features files) replaced by a plain file, a directory, a dangling link, a link loop or a link to a file, and for a third of them once more with one requested file damaged (error variants must agree). Non-trivial = at least one file belongs to an "
                "un-requested part; distinct by (UFO, mask, filter shape).",
        "exhaustive": True,
        "exhaustive_scope": "all 64 switch combinations x 7 filter shapes for every generated UFO",
        "input_distribution": {
            "ufos": len({r["ufo"] for r in rows}),
            "ufos_full_load_ok": len({r["ufo"] for r in rows if r["full_ok"]}),
            "filter_shapes": dict(collections.Counter(r["shape"] for r in rows)),
            "pristine_outcomes": dict(collections.Counter(r["pristine"].split(" ")[0].strip("(") for r in rows)),
            "corrupted_outcomes": dict(collections.Counter(r["corrupted"].split(" ")[0].strip("(") for r in rows)),
            "requested_file_damaged_outcomes": dict(collections.Counter(r["damaged"].split(" ")[0].strip("(") for r in rows if r["damaged"] != "-")),
            "unrequested_files_corrupted_total": sum(r["n_unrequested"] for r in rows),
            "unrequested_entries_replaced": dict(collections.Counter(
                k for r in rows for k in ("PlainFile", "Dangling", "Loop", "LinkToFile", "AsDirectory")
                for _ in range(r.get("entry_damage", "").count(k)))),
        },
        "traces_validated_against_impl": len(lines),
    })
    for r in rows[:3]:
        ctx.samples.append({k: r[k] for k in ("case", "ufo", "mask", "shape", "pristine", "corrupted", "n_unrequested")})


def replay(ctx, path):
    from driver import sh
    d = json.load(open(path))
    case = d.get("input") or (d.get("disagreeing_cases") or [{}])[0]
    if "case" not in case:
        print("replay file names no scenario (kind=%s): %s" % (d.get("kind"), json.dumps(d)[:800]))
        return 1
    tmp = os.path.join(ctx.scratch, "replay.txt")
    open(tmp, "w").write("%d %d\n" % (case.get("seed", d.get("seed", 1)), case["case"]))
    rc, o = sh([ctx.harness, "c17", "--tier", d.get("tier", "quick"), "--seed", str(case.get("seed", d.get("seed", 1))),
                "--replay", tmp, "--out", os.path.join(ctx.scratch, "r")])
    print(o)
    return 0
