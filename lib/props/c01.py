"""C01 — saving a font and loading it back preserves all font data."""
import collections
import copy
import json
import os

META = {
    "level": "proof",
    "design_ref": "DESIGN.md section 8, C01; Appendix A Save / Load",
    "technique": "Coq proof over a font-level model of Font::save_impl / Font::load_impl (composition over an abstract file "
                 "tree, per-part codecs as hypotheses) + differential run against the implementation: file set and file "
                 "skeleton predicted by the model, round trip through Font::save_with_options / Font::load for every option",
    "text": "Kernel-checked theorems for ALL fonts and ALL write options: load(save(f)) succeeds and equals f under the "
            "property's equality (C01_roundtrip), the options never matter (C01_options_irrelevant), exactly which optional "
            "file exists after a save and that an absent file is read as the default of its part "
            "(C01_optional_files_gating, C01_optional_files_gating_sound: colour-only layerinfo, empty-but-present parts), "
            "the feature text up to line endings (C01_features_line_endings). Tied to the code on every run: for every "
            "generated font the model's tree (file set, layercontents order, contents, dictionary keys, object libs, "
            "feature bytes) is the saved tree and the model's load of that tree is what Font::load returns; the "
            "property's own predicate (dump(load(save(f))) = f with the stated tolerances) is evaluated on every font "
            "under two independently drawn write options.  The `_real` theorems instantiate the parts: real glif codec "
            "(C02_roundtrip), font info (C13), groups / kerning maps (C15), and, in the `_all_files` theorems, tree-level "
            "codecs of all seven plist files (metainfo, layercontents, contents, lib, layerinfo, groups, kerning) built on "
            "the plist value codec; remaining hypotheses are the std text facts (L1) and the stated domains.  The seven "
            "file codecs are tied to the code on every run: for each plist file norad wrote, the model writes exactly the "
            "XML tree on disk for the value an independent reader finds in it (element kinds, key order, key presence, "
            "<integer> versus <real>) and reads that tree back as that value.",
    "note": "Parametric in the per-part codecs and their round-trip laws (sig_ok): discharged per part by C02 (glif), "
            "C13/C14 (font info, numbers), C15 (groups, kerning) and the plist/XML layer hypotheses; an instance of the "
            "laws is exhibited. Known-finding classes are exactly the complements of the parts' validity (wf).",
}
COQ_TARGETS = ["Props/C01.vo", "Run/C01.vo", "Run/FontFiles.vo", "Proofs/FontInfoFileP.vo", "Proofs/FontInfoViewP.vo"]
PROPS_FILES = ["C01"]
TRUSTED = [
    "model Model/FontRT.v hand-written from src/font.rs, src/layer.rs, src/fontinfo.rs (object libs); tied by the "
    "correspondence run (saved tree, loaded font skeleton) and by the file-name anchors",
    "laws sig_ok of the per-part codecs: hypotheses of every theorem, instance toy_ok; for the real instance they "
    "are proved (Proofs/FontRealP.v, FontRealPlistP.v, FontRealFilesP.v) from the L1 hypotheses",
    "models Model/FontRealPlist.v, Model/FontRealFiles.v (serde shape of each plist file) hand-written from src/font.rs, "
    "src/layer.rs, src/kerning.rs, src/groups.rs; tied by the file-codec correspondence (lib/fontfiles_corr.py, "
    "Run/FontFiles.v); number text taken from the files (L1)",
    "harness/src/fontio.rs build_font / dump_font (public API only), lib/ufoio.py equal() for the tolerances",
    "Coq 8.16.1 kernel and vm_compute; no axioms; no extraction",
]
ASSUMPTIONS = ["per-part codec laws (sig_ok S) are hypotheses, validated here only through the whole-font oracle",
               "OS errors (disk full, permissions) are outside the model"]

KNOWN_GEN = {"glyph_lib_linebreak": "glyph_lib_linebreaks", "note_blanks": "note_blanks"}
# generator switches of repaired / harmless classes: part of the main stream
MAIN_GEN = ["f13_meta", "cr_in_plist", "cr_in_note", "attr_ws", "empty_contours", "f2_numbers", "subnormal_advance"]


def anchors(ctx):
    import anchors_font
    import driver
    import anchors_fontinfo
    text = anchors_font.gallina(anchors_font.extract(driver.REPO), "C01")
    # the schema of fontinfo.plist, from src/fontinfo.rs and src/guideline.rs
    text += "Require Import Norad.Model.FontInfoFile.\n" + anchors_fontinfo.gallina(anchors_fontinfo.extract(driver.REPO), "x_font_info_schema")
    return text


def _load(p):
    with open(p, encoding="utf-8") as f:
        return json.load(f)


def special_fonts(base_fonts):
    """the cases the property's 'why' names, derived from generated fonts: colour-only layer info,
    lib-only layer info, empty-but-present lists and dictionaries, guideline libs only, CR runs in
    the feature text, nested data paths"""
    out = []
    PV0 = {"t": "int", "v": 0}
    for i, f0 in enumerate(base_fonts):
        f = copy.deepcopy(f0)
        k = i % 10
        if k == 0:      # colour only
            for l in f["layers"]:
                l["color"] = ["0x1.0000000000000p-1", "0x0.0p+0", "0x1.0000000000000p+0", "0x1.0000000000000p+0"]
                l["lib"] = {}
        elif k == 1:    # lib only, with an empty dictionary and an empty array as values
            for l in f["layers"]:
                l["color"] = None
                l["lib"] = {"e.dict": {"t": "dict", "v": {}}, "e.arr": {"t": "array", "v": []}, "e.str": {"t": "str", "v": ""}}
        elif k == 2:    # fontinfo.plist only for an empty guideline list
            f["info"] = {}
            f["guidelines"] = []
        elif k == 3:    # groups / kerning with empty members
            f["groups"] = {"public.kern1.empty": [], "plain": []}
            f["kerning"] = {"a": {}}
        elif k == 4:    # lib.plist only because a guideline has a lib
            f["lib"] = {}
            f["guidelines"] = [{"x": "0x1.0000000000000p+3", "y": None, "angle": None, "name": None, "color": None,
                                "identifier": "gl-1", "lib": {"k": PV0}},
                               {"x": None, "y": "0x1.0000000000000p+2", "angle": None, "name": None, "color": None,
                                "identifier": "gl-2", "lib": None}]
        elif k == 5:    # an empty guideline lib (present, empty)
            f["guidelines"] = [{"x": "0x1.0000000000000p+3", "y": None, "angle": None, "name": None, "color": None,
                                "identifier": "gl-1", "lib": {}}]
        elif k == 6:    # CR runs in the feature text
            f["features"] = ["a;\r\nb;\r\n", "a;\r\r\nb;", "\r\n", "a;\rb;\n", "x\r\r\r\n\r\n"][(i // 10) % 5]
        elif k == 7:    # everything optional empty
            f["info"], f["guidelines"], f["lib"], f["groups"], f["kerning"], f["features"] = {}, None, {}, {}, {}, None
            f["data"], f["images"] = {}, {}
            for l in f["layers"]:
                l["color"], l["lib"] = None, {}
        elif k == 8:    # nested data paths, no images
            f["data"] = {"a.txt": "00", "d/e.bin": "", "d/f/g": "ff00", "d.e": "01"}
            f["images"] = {}
        else:           # lib with empty containers at the top level
            f["lib"] = {"e.dict": {"t": "dict", "v": {}}, "e.arr": {"t": "array", "v": []}}
        out.append(f)
    return out


def mk_glyph(name):
    return {"name": name, "file": None, "advance": ["0x0.0p+0", "0x0.0p+0"], "unicodes": [], "note": None, "image": None,
            "guidelines": [], "anchors": [], "contours": [], "components": [], "lib": {}}


# names that map to the same directory / file stem: illegal characters, case variants (upper case X
# is written X_), trailing period, reserved words (glyph files only), names beyond 255 bytes
LAYER_COLLISIONS = [["Sketch/1", "Sketch:1", "Sketch*1"], ["A", "a_"], ["x.", "x_", "x "], ["Bg?", "Bg|", 'Bg"', "Bg<", "Bg>"],
                    ["L" * 300, "Short"], ["Foo.Bar", "FOO.BAR"], ["con", "_con"],
                    # three and more names on one stem: the clash counter has to skip numbers already handed out,
                    # with an upper-case letter in the stem (the taken set holds lower-cased names) and without
                    ["A*", "A?", "A:", "A|", 'A"'], ["X.", "X ", "X_", "X*"], ["AB", "Ab_", "a_B", "a_b_"],
                    ["a*", "a?", "a:", "a|", 'a"'], ["y.", "y ", "y_", "y*"], ["k*l", "k?l", "k:l", "k|l"]]
# class long_name_clash (F1 of C07): two names whose file names are clipped to the same 255-byte stem get a
# clash counter appended AFTER clipping: a 257-byte file name, which the file system refuses
LONG_LAYER_CLASH = ["L" * 300, "L" * 299 + "M", "L" * 298 + "MM"]
LONG_GLYPH_CLASH = ["g" * 300, "g" * 299 + "h"]
GLYPH_COLLISIONS = [["a/b", "a:b", "a*b"], ["A", "a_"], ["con", "_con"], ["nul.alt", "_nul.alt"], ["x.", "x_"],
                    ["g" * 300, "gshort"], ["T_h", "t_H_"], ["AE", "Ae_", "aE_"],
                    ["A*", "A?", "A:", "A|", 'A"'], ["AB", "Ab_", "a_B", "a_b_"], ["Q/R", "Q:R", "Q*R", "Q<R", "Q>R"],
                    ["a*", "a?", "a:", "a|", 'a"'], ["k*l", "k?l", "k:l", "k|l"], ["m/n", "m:n", "m*n", "m<n", "m>n"]]


# long names of multi-byte characters: 240..320 UTF-8 bytes but far fewer than 255 characters, so the clip to 255
# BYTES is what keeps the file name legal; bodies of 2-, 3- and 4-byte characters, optionally interleaved with
# ASCII, behind 0..3 ASCII characters so that the clip point falls inside a character.  Every name of one font
# gets its own first character: no two of them (nor the ASCII long names above) agree on a clipped stem, which
# would be the separate class long_name_clash.
MB_BODIES = ["\u00e9", "\u0436", "\u6f22", "\u5b57", "\U0001F600", "\U0001D49C"]
MB_LEADS = list("bcdfhjkmnpqrstvwz") + ["\u00e8", "\u0431", "\u4e2d", "\u6587", "\U0001F601", "\U0001D49E"]


def multibyte_long_names(rng, k, used_leads):
    out = []
    for _ in range(k):
        free = [c for c in MB_LEADS if c not in used_leads]
        if not free:
            break
        lead = rng.choice(free)
        used_leads.add(lead)
        body = rng.choice(MB_BODIES)
        target = rng.randint(240, 320)
        mixed = rng.random() < 0.4
        n = lead + "x" * rng.randint(0, 3)
        i = 0
        while len(n.encode("utf-8")) < target:
            n += body
            i += 1
            if mixed and i % 7 == 0:
                n += "y"
        out.append(n)
    return out


def add_multibyte_names(f, rng):
    """adds layers and glyphs with long multi-byte names to a font (in place)"""
    used = set()
    have = {l["name"] for l in f["layers"]}
    for n in multibyte_long_names(rng, rng.randint(1, 2), used):
        if n not in have:
            f["layers"].append({"name": n, "dir": None, "color": None, "lib": {},
                                "glyphs": [mk_glyph("a")] if rng.random() < 0.5 else []})
    for l in f["layers"]:
        if rng.random() < 0.7:
            gh = {g["name"] for g in l["glyphs"]}
            for n in multibyte_long_names(rng, rng.randint(1, 3), used):
                if n not in gh:
                    l["glyphs"].append(mk_glyph(n))
            l["glyphs"].sort(key=lambda g: g["name"])
    return f


# stems with a character whose lower-case form has another UTF-8 length (longer: U+0130, U+023A, U+023E; shorter:
# Kelvin U+212A, Ohm U+2126, Angstrom U+212B, U+1E9E): the clash counter compares lower-cased candidates, so a
# family of 2..6 names on such a stem exercises every place where a byte offset of the original stem could be
# applied to its lower-cased form; the character at the start, in the middle, at the end of the stem, next to an
# upper-case ASCII letter, and with a multi-byte character as the last one of the stem (right at the cut)
CASE_LENGTH_CHARS = ["\u0130", "\u023a", "\u023e", "\u212a", "\u2126", "\u212b", "\u1e9e"]
CASE_LENGTH_FAMILIES = [[pat.replace("X", ch).replace("#", c) for c in '*?:|"<']
                        for ch in CASE_LENGTH_CHARS
                        for pat in ("Xq#", "rX#s", "tX#", "AX#", "X#\u6f22")]
LAYER_COLLISIONS += CASE_LENGTH_FAMILIES
GLYPH_COLLISIONS += CASE_LENGTH_FAMILIES


def long_name_clash(font, err):
    """class predicate: the save failed with 'file name too long' and two glyph names of one layer
    (or two layer names) are longer than 240 bytes and agree on their first 240 bytes"""
    if "File name too long" not in err and "InvalidFilename" not in err:
        return False

    def clash(names):
        long_ = [n for n in names if len(n.encode("utf-8")) > 240]
        return any(a != b and a.encode("utf-8")[:240] == b.encode("utf-8")[:240] for a in long_ for b in long_)
    return clash([l["name"] for l in font["layers"]]) or any(clash([g["name"] for g in l["glyphs"]]) for l in font["layers"])


def history_fonts(base_fonts, rng, long_names=True):
    """fonts whose layer / glyph names collide in their directory / file stems, to be reached through
    varied API histories (harness --varied)"""
    out = []
    for i, f0 in enumerate(base_fonts):
        f = copy.deepcopy(f0)
        have = {l["name"] for l in f["layers"]}
        lfams = [fm for fm in LAYER_COLLISIONS if long_names or max(len(x) for x in fm) < 100]
        gfams = [fm for fm in GLYPH_COLLISIONS if long_names or max(len(x) for x in fm) < 100]
        pick_l = rng.sample(lfams, rng.randint(1, 2)) + ([rng.choice(CASE_LENGTH_FAMILIES)] if rng.random() < 0.25 else [])
        for fam in pick_l:
            for n in rng.sample(fam, rng.randint(min(3, len(fam)) if rng.random() < 0.5 else 2, len(fam))):
                if n not in have and n != "public.default":
                    have.add(n)
                    f["layers"].append({"name": n, "dir": None, "color": None, "lib": {},
                                        "glyphs": [mk_glyph("a")] if rng.random() < 0.5 else []})
        for l in f["layers"]:
            if rng.random() < 0.6:
                gh = {g["name"] for g in l["glyphs"]}
                for fam in rng.sample(gfams, rng.randint(1, 2)) + ([rng.choice(CASE_LENGTH_FAMILIES)] if rng.random() < 0.4 else []):
                    for n in rng.sample(fam, rng.randint(min(3, len(fam)) if rng.random() < 0.5 else 2, len(fam))):
                        if n not in gh:
                            gh.add(n)
                            l["glyphs"].append(mk_glyph(n))
                l["glyphs"].sort(key=lambda g: g["name"])
        if long_names and rng.random() < 0.3:
            add_multibyte_names(f, rng)
        out.append(f)
    return out


def _stream(ctx, fc, tag, seed, count, gen, known_ids, stats, corr, fonts_file=None, options=None, varied=False):
    from driver import sh
    a_dir = os.path.join(ctx.scratch, "a_" + tag)
    cmd = [ctx.harness, "c01", "--out", a_dir, "--seed", str(seed), "--count", str(count), "--two-opts"]
    if gen:
        cmd += ["--gen", ",".join(gen)]
    if fonts_file:
        cmd += ["--fonts", fonts_file]
    if varied:
        cmd += ["--varied"]
    if options:
        for flag, oo in zip(("--options", "--options2"), options):
            if oo:
                cmd += [flag, json.dumps(oo)]
    rc, o = sh(cmd, timeout=3000)
    if rc != 0:
        ctx.disagreements.append({"what": "harness c01 failed", "stream": tag, "output": o[-1500:]})
        return []
    fonts = []
    for k in range(count):
        case = "case_%d" % k
        cd = os.path.join(a_dir, case)
        if not os.path.exists(os.path.join(cd, "font.json")):
            break
        font = _load(os.path.join(cd, "font.json"))
        fonts.append(font)
        stats["cases"] += 1
        opts = _load(os.path.join(cd, "options.json")) if os.path.exists(os.path.join(cd, "options.json")) else None
        opts2 = _load(os.path.join(cd, "options2.json")) if os.path.exists(os.path.join(cd, "options2.json")) else None
        for oo in (opts, opts2):
            if oo:
                stats["options"].add(("default",) if oo["default"] else (oo["indent_char"], oo["indent_width"], oo["single_quote"]))
        base = {"stream": tag, "seed": seed, "case": case, "font": font, "options": opts, "options2": opts2, "varied": varied}
        errs = [e for e in ("build_error.txt", "save_error.txt", "load_error.txt", "save2_error.txt", "load2_error.txt")
                if os.path.exists(os.path.join(cd, e))]
        if errs and errs[0].startswith("save") and long_name_clash(font, open(os.path.join(cd, errs[0])).read()):
            stats["class_hits"]["long_name_clash"] += 1
            if "long_name_clash" in known_ids:
                ctx.known_hits["long_name_clash"] = ctx.known_hits.get("long_name_clash", 0) + 1
                continue
        if errs:
            v = dict(base)
            v.update({"error": errs[0] + ": " + open(os.path.join(cd, errs[0])).read()[:400],
                      "demand": "a valid font built through the API is saved and loaded back, for every write option"})
            ctx.violations.append(v)
            continue
        loaded = _load(os.path.join(cd, "loaded.json"))
        loaded2 = _load(os.path.join(cd, "loaded2.json"))
        stats["roundtrips"] += 2
        for which, ld in (("options", loaded), ("options2", loaded2)):
            d, obs = fc.equal(ld, font)
            for k2, n in obs.items():
                stats["observations"][k2] += n
            outside = []
            for path, got, want in d:
                c = fc.classify_diff(font, path, got, want)
                if c is not None:
                    stats["class_hits"][c] += 1
                if c is not None and c in known_ids:
                    ctx.known_hits[c] = ctx.known_hits.get(c, 0) + 1
                else:
                    outside.append((path, got, want))
            if outside:
                v = dict(base)
                v.update({"saved_with": which,
                          "differences": [{"path": p, "got": fc.short(g), "want": fc.short(w)} for p, g, w in outside[:6]],
                          "demand": "load(save(font)) equals font (numbers within 1e-9 relative, colours to 3 decimals, "
                                    "feature text up to line endings)"})
                ctx.violations.append(v)
                break
        # the write options are irrelevant: both loads are the same value, exactly
        d2, _ = fc.equal(loaded2, loaded, tol=0.0, ignore_creator=False)
        gl_class = any(fc.glyph_has_lib_linebreak(g) for l in font["layers"] for g in l["glyphs"])
        if d2 and not (gl_class and "glyph_lib_linebreak" in known_ids):
            v = dict(base)
            v.update({"differences": [{"path": p, "options2": fc.short(g), "options": fc.short(w)} for p, g, w in d2[:6]],
                      "demand": "the loaded value does not depend on the write options"})
            ctx.violations.append(v)
        elif d2:
            ctx.known_hits["glyph_lib_linebreak"] = ctx.known_hits.get("glyph_lib_linebreak", 0) + 1
        # both saves produce the same files
        f1, _ = fc.walk_files(os.path.join(cd, "n.ufo"))
        f2, _ = fc.walk_files(os.path.join(cd, "n2.ufo"))
        if f1 != f2:
            v = dict(base)
            v.update({"file_sets_differ": [sorted(f1 - f2), sorted(f2 - f1)], "demand": "the file set does not depend on the write options"})
            ctx.violations.append(v)
        if corr is not None:
            try:
                built = _load(os.path.join(cd, "built.json"))
                nufo = os.path.join(cd, "n.ufo")
                corr["save"].append((tag + "/" + case, fc.font_term(font, built), fc.e_ok(fc.e_tree(fc.read_tree(nufo)))))
                corr["load"].append((tag + "/" + case, fc.tree_term(nufo), fc.e_ok(fc.e_font(fc.font_obs(loaded)))))
            except Exception as e:
                ctx.disagreements.append({"what": "cannot build the correspondence case", "case": case, "stream": tag, "error": repr(e)})
            if "files" in corr:
                # the seven plist files norad wrote, against the tree-level file codecs (both option sets now and then)
                import fontfiles_corr as ffc
                for which in ("n.ufo", "n2.ufo") if k % 4 == 0 else ("n.ufo",):
                    try:
                        pert = corr["files_perturbed"] if len(corr["files_perturbed"]) < 80 else None
                        for rel, e in ffc.checks_written(os.path.join(cd, which), pert,
                                                         fontinfo=(which == "n.ufo" and k % (13 if ctx.thorough() else 3) == 0)):
                            corr["files"].append(("%s/%s/%s/%s" % (tag, case, which, rel), e))
                    except Exception as e:
                        ctx.disagreements.append({"what": "cannot build the file-codec case", "case": case, "stream": tag,
                                                  "ufo": which, "error": repr(e)})
    return fonts


def run(ctx, known, built):
    import fontrt_corr as fc
    known_ids = {k["id"] for k in known}
    stats = {"cases": 0, "roundtrips": 0, "options": set(), "class_hits": collections.Counter(),
             "observations": collections.Counter()}
    thorough = ctx.thorough()
    n_main = 12000 if thorough else 420
    n_special = 600 if thorough else 60
    n_class = 300 if thorough else 20
    corr = {"save": [], "load": [], "files": [], "files_perturbed": []}
    verif = os.path.dirname(os.path.dirname(os.path.dirname(os.path.abspath(__file__))))
    # corpus first: the witnesses of the known classes
    cdir = os.path.join(verif, "corpus", "C01")
    stale = []
    if os.path.isdir(cdir):
        ws = [(fn, _load(os.path.join(cdir, fn))) for fn in sorted(os.listdir(cdir)) if fn.endswith(".json")]
        if ws:
            ff = os.path.join(ctx.scratch, "witnesses.json")
            json.dump([w["font"] for _, w in ws], open(ff, "w"))
            before = dict(stats["class_hits"])
            _stream(ctx, fc, "witness", ctx.seed, len(ws), [], known_ids, stats, None, fonts_file=ff)
            for fn, w in ws:
                c = w.get("class", "").split("_kerning")[0].split("_info")[0]
                if c.startswith("regression"):
                    continue
                if stats["class_hits"].get(c, 0) == before.get(c, 0):
                    stale.append(fn)
    ctx.note("witnesses done")
    main_fonts = _stream(ctx, fc, "main", ctx.seed, n_main, MAIN_GEN, known_ids, stats, corr)
    ctx.note("main stream done")
    sp = special_fonts(main_fonts[:n_special])
    if sp:
        ff = os.path.join(ctx.scratch, "special.json")
        json.dump(sp, open(ff, "w"))
        _stream(ctx, fc, "special", ctx.seed, len(sp), [], known_ids, stats, corr, fonts_file=ff)
    # the main pool extended by long names of multi-byte characters (built directly, no API history)
    import random as _random
    mr = _random.Random(ctx.seed * 53 + 11)
    n_mb = 600 if thorough else 40
    mb = [add_multibyte_names(copy.deepcopy(f0), mr) for f0 in main_fonts[:n_mb]]
    if mb:
        ff = os.path.join(ctx.scratch, "multibyte.json")
        json.dump(mb, open(ff, "w"))
        _stream(ctx, fc, "multibyte_names", ctx.seed, len(mb), [], known_ids, stats, None, fonts_file=ff)
        # (the model correspondence on a few of them only: long literal names are slow to elaborate)
        ff2 = os.path.join(ctx.scratch, "multibyte_corr.json")
        json.dump(mb[:150 if thorough else 8], open(ff2, "w"))
        _stream(ctx, fc, "multibyte_names_corr", ctx.seed, len(mb[:150 if thorough else 8]), [], known_ids, stats, corr, fonts_file=ff2)
    ctx.note("special cases done")
    # the same abstract fonts reached through varied API histories (temporary names + rename_layer /
    # rename_glyph, decoys, remove and re-create), with names that collide in their directory / file stems
    import random
    hr = random.Random(ctx.seed * 31 + 7)
    n_hist = 1500 if thorough else 70
    hf = history_fonts(main_fonts[:n_hist], hr) + main_fonts[n_hist:n_hist + n_hist // 2]
    if hf:
        ff = os.path.join(ctx.scratch, "history.json")
        json.dump(hf, open(ff, "w"))
        _stream(ctx, fc, "history", ctx.seed, len(hf), [], known_ids, stats, corr, fonts_file=ff, varied=True)
    # class long_name_clash, separately
    lf = []
    for i, f0 in enumerate(main_fonts[:6 if not thorough else 60]):
        f = copy.deepcopy(f0)
        if i % 2 == 0:
            f["layers"][0]["glyphs"] = sorted(f["layers"][0]["glyphs"] + [mk_glyph(n) for n in LONG_GLYPH_CLASH
                                               if n not in {g["name"] for g in f["layers"][0]["glyphs"]}], key=lambda g: g["name"])
        else:
            f["layers"] += [{"name": n, "dir": None, "color": None, "lib": {}, "glyphs": []} for n in LONG_LAYER_CLASH
                            if n not in {l["name"] for l in f["layers"]}]
        lf.append(f)
    if lf:
        ff = os.path.join(ctx.scratch, "longnames.json")
        json.dump(lf, open(ff, "w"))
        _stream(ctx, fc, "long_name_clash", ctx.seed, len(lf), [], known_ids, stats, None, fonts_file=ff, varied=True)
    ctx.note("API histories done")
    for cid, sw in sorted(KNOWN_GEN.items()):
        _stream(ctx, fc, "g_" + sw, ctx.seed + 17, n_class, [sw] + MAIN_GEN, known_ids, stats, None)
    ctx.note("class streams done")
    nd = 0
    if not built:
        ctx.disagreements.append({"what": "Coq development does not build; correspondence not evaluated"})
    else:
        import fontfiles_corr as ffc

        def spread(items):
            # cases with long names are slow to evaluate and come in runs (one stream after the other):
            # deal them round-robin over the shards
            k = 16
            return sorted(items, key=lambda it: 0) if len(items) < 2 * k else [it for r in range(k) for it in items[r::k]]
        corr["files"] = spread(corr["files"])
        corr["save"] = spread(corr["save"])
        corr["load"] = spread(corr["load"])
        items = corr["files"]
        codes = ffc.eval_codes(ctx, "files", [e for _, e in items], shard=max(8, len(items) // 16 + 1))
        bad = [(i, c) for i, c in enumerate(codes) if c != 0]
        nd += len(bad)
        for i, c in bad[:10]:
            ctx.disagreements.append({"what": "file codec model and implementation differ: " +
                                      (ffc.CODES.get(c, str(c)) if isinstance(c, int) else "evaluation failed"),
                                      "file": items[i][0], "seed": ctx.seed, "coq_check": c if not isinstance(c, int) else c,
                                      "expression": items[i][1][:3000]})
        ctx.obligation("correspondence:C01 plist file codecs (%d files)" % len(items), not bad and len(items) > 0,
                       "%d of %d files differ" % (len(bad), len(items)))
        pitems = corr["files_perturbed"]
        pcodes = ffc.eval_codes(ctx, "files_perturbed", [e for _, e in pitems])
        missed = [pitems[i][0] for i, c in enumerate(pcodes) if c == 0 or not isinstance(c, int)]
        ctx.obligation("selftest:C01 file-codec comparison rejects perturbed trees (%d)" % len(pitems),
                       not missed and len(pitems) > 0, "not rejected: %s" % missed[:5])
        for name, fn, jfn in (("save", "c_save", "j_save"), ("load", "c_load", "j_load")):
            items = corr[name]
            res = fc.eval_checks(ctx, name, fn, [(t, e) for _, t, e in items], shard=max(8, len(items) // 16 + 1))
            bad = [(i, r) for i, r in enumerate(res) if r is not True]
            nd += len(bad)
            for i, r in bad[:10]:
                mv = fc.eval_cases(ctx, "%s_dbg_%d" % (name, i), jfn, [items[i][1]])[0]
                what = "model and implementation differ: " + ("the saved tree (file set / file skeleton)" if name == "save"
                                                              else "the font loaded from the saved tree")
                ctx.disagreements.append({"what": what, "case": items[i][0], "seed": ctx.seed,
                                          "coq_check": r if r is not False else "false",
                                          "model_value": fc.short(mv, 3000), "implementation_value": items[i][2][:3000]})
            ctx.obligation("correspondence:C01 %s (%d cases)" % (name, len(items)), not bad and len(items) > 0,
                           "%d of %d cases differ" % (len(bad), len(items)))
    ctx.note("correspondence done")
    for x in ctx.disagreements[:3]:
        ctx.note("disagreement: " + json.dumps(x, ensure_ascii=False, default=str)[:2500])
    ctx.cov.update({
        "evaluations": stats["roundtrips"],
        "distinct_nontrivial": stats["cases"],
        "rule": "every generated or derived font (distinct by construction of the seeded generator) is saved twice with "
                "independently drawn options and loaded back; non-trivial = all of them.",
        "exhaustive": False,
        "traces_validated_against_impl": sum(len(v) for k9, v in corr.items() if k9 != "files_perturbed"),
        "input_distribution": {"main_stream_fonts": n_main, "special_cases": len(sp), "api_history_fonts": len(hf),
                               "per_known_class": n_class,
                               "distinct_write_options": len(stats["options"]),
                               "class_hits": dict(stats["class_hits"]), "observations": dict(stats["observations"]),
                               "stale_witnesses": stale},
        "correspondence_cases": {k: len(v) for k, v in corr.items()}, "correspondence_disagreements": nd,
    })
    ctx.samples += [{"case": c, "check": "c_save"} for c, _, _ in corr["save"][:2]]
    ctx.violations.sort(key=lambda v: len(json.dumps(v.get("font", ""))))


def replay(ctx, path):
    import fontrt_corr as fc
    d = _load(path)
    v = d.get("input") or {}
    font = v.get("font")
    if font is None:
        print("replay file has no font (kind=%s): %s" % (d.get("kind"), json.dumps(d)[:800]))
        return 1
    ff = os.path.join(ctx.scratch, "replay.json")
    json.dump([font], open(ff, "w"))
    stats = {"cases": 0, "roundtrips": 0, "options": set(), "class_hits": collections.Counter(),
             "observations": collections.Counter()}
    _stream(ctx, fc, "replay", d.get("seed", 1), 1, [], set(), stats, None, fonts_file=ff,
            options=(v.get("options"), v.get("options2")), varied=bool(v.get("varied")))
    print("violations on replay:", len(ctx.violations))
    for x in ctx.violations[:3]:
        x = dict(x)
        x.pop("font", None)
        print(json.dumps(x, indent=1, ensure_ascii=False)[:2000])
    return 0
