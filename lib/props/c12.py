"""C12 — glif documents breaking the structure rules are rejected, legal ones accepted."""
import glob
import json
import os

META = {
    "level": "proof",
    "design_ref": "DESIGN.md section 8, C12; Appendix A 'Glif reader'",
    "technique": "Coq proof over an executable model of the glif reader on XML event trees (soundness AND "
                 "completeness of acceptance w.r.t. a declarative rule predicate outside exactly described surface "
                 "classes, identifier uniqueness across element kinds, format-1 gating and anchor upgrade) + "
                 "differential correspondence with Glyph::parse_raw",
    "text": "Kernel-checked theorems over the Gallina model of GlifParser (element dispatch, version guards, "
            "duplicate flags, identifier set, attribute loops, outline builder, object-lib transfer): every "
            "accepted document satisfies the declarative rule predicate glif_ok and the returned glyph "
            "satisfies glyph_rules (C12_sound), every rule-obeying document is accepted (C12_complete), outside the "
            "structurally described classes F14/F16/F17, each refuted at full strength by witnesses; the executable "
            "glif_okb / class predicates are proved to decide the specification and are compared with the "
            "generator's labels on every case. The model is tied to "
            "the code on every run by parsing generated documents (legal building blocks, one injected rule "
            "violation or surface variation each, both format versions, varied legal XML syntax) with "
            "Glyph::parse_raw and with the model (vm_compute) and comparing error kind / complete returned glyph.",
    "note": "Trusted: Coq kernel + VM; the hand-written model (tied by the differential run, not by proof); "
            "quick-xml tokenisation and std's f64 parser (abstract function in the theorems, observed table in "
            "the run); the plist crate's XML reader (modelled at tree level, validated by the run); the harness "
            "renderer.",
}
COQ_TARGETS = ["Props/C12.vo", "Run/C12.vo"]
PROPS_FILES = ["C12"]
TRUSTED = ["model Model/GlifParse.v hand-written from src/glyph/parse.rs, src/glyph/mod.rs (load_object_libs), "
           "src/glyph/builder.rs (via Model/Contour.v); tied by the correspondence run through Glyph::parse_raw",
           "Model/Plist.v plist_of_nodes: tree-level model of the plist crate's XML reader (library behaviour, validated differentially)",
           "Coq 8.16.1 kernel and vm_compute; no axioms; no extraction"]
ASSUMPTIONS = ["f64::from_str is an arbitrary function pf in every theorem; the run instantiates it with the table of "
               "results std returned for the strings of each document",
               "documents are well-formed XML (quick-xml's tokenisation, entity unescaping and end-tag matching are not modelled)"]

HEADER = ("Require Import Norad.Run.C12.\nFrom Coq Require Import Uint63.\nOpen Scope uint63_scope.\n"
          "Set Printing Width 1000000. Set Printing Depth 10000000.\n")
ERRN = {1: "UnexpectedMove", 2: "UnexpectedPointAfterOffCurve", 3: "UnexpectedSmooth", 4: "TooManyOffCurves",
        5: "TrailingOffCurves", 10: "UnsupportedGlifVersion", 11: "UnknownPointType", 12: "WrongFirstElement",
        13: "MissingCloseTag", 14: "BadHexValue", 15: "BadNumber", 16: "BadColor", 17: "BadAnchor", 18: "BadPoint",
        19: "BadGuideline", 20: "BadImage", 21: "BadIdentifier", 22: "InvalidName", 23: "BadLib",
        24: "UnexpectedElement", 25: "UnexpectedAttribute", 26: "DuplicateIdentifier", 27: "UnexpectedPointField",
        28: "UnexpectedComponentField", 29: "UnexpectedAnchorField", 30: "UnexpectedGuidelineField",
        31: "UnexpectedImageField", 32: "DuplicateElement", 33: "UnexpectedV1Element", 34: "UnexpectedV1Attribute",
        35: "ComponentEmptyBase", 36: "ComponentMissingBase", 37: "LibMustBeDictionary", 38: "BadAngle",
        39: "XmlAttr", 40: "PublicObjectLibsMustBeDictionary", 41: "ObjectLibMustBeDictionary", 42: "Xml"}


def load_cases(out):
    rows = []
    cf = os.path.join(out, "cases_corpus.jsonl")
    if os.path.exists(cf):
        rows += [json.loads(ln) for ln in open(cf) if ln.strip()]
    sf = os.path.join(out, "cases_sizes.jsonl")
    if os.path.exists(sf):
        rows += [json.loads(ln) for ln in open(sf) if ln.strip()]
    for f in sorted([p for p in glob.glob(os.path.join(out, "cases_*.jsonl")) if not p.endswith("corpus.jsonl") and not p.endswith("sizes.jsonl")], key=lambda p: int(p.split("_")[-1].split(".")[0])):
        for ln in open(f):
            if ln.strip():
                rows.append(json.loads(ln))
    return rows


def summarize_tm(t):
    """short text of a parsed tm_res value"""
    try:
        tag = t[1][0][1]
        if tag == 0:
            return "Ok(glyph)"
        if tag == 1:
            return "Err(%s)" % ERRN.get(t[1][1][1], t[1][1][1])
        return "Panic"
    except Exception:
        return str(t)[:80]


def run(ctx, known, built):
    from driver import sh, coq_values, parse_term
    out = os.path.join(ctx.scratch, "c12")
    os.makedirs(out)
    import driver
    corpus = os.path.join(driver.VERIF, "corpus", "C12")
    rc, o = sh([ctx.harness, "c12", "--tier", ctx.tier, "--seed", str(ctx.seed), "--out", out, "--corpus", corpus], timeout=3000)
    if rc != 0:
        ctx.disagreements.append({"what": "harness c12 failed", "output": o[-2000:]})
        return
    rows = load_cases(out)
    known_ids = {k["id"] for k in known}
    # ---- property oracle on the implementation.  "obeys the rules" = the generator's label, which the
    # correspondence run below checks against the model's glif_okb (the predicate of the theorems) on every
    # case; class membership = the structural predicates F14/F16/F17, computed by the harness and checked
    # against the Coq definitions on every case as well.
    hist = {}
    stale = set()
    for r in rows:
        acc = r["impl"] == "Ok"
        cls = [c for c in ("F14", "F16", "F17") if r[c.lower()]]
        key = "%s/%s/%s" % ("legal" if r["legal"] else "illegal", "+".join(cls) or "-", "accepted" if acc else "rejected")
        hist[key] = hist.get(key, 0) + 1
        if r["impl"].startswith("PANIC"):
            ctx.violations.append({"id": r["id"], "xml": r["xml"], "injection": r["inj"], "implementation": r["impl"],
                                   "demand": "the parser returns a glyph or an error, it does not panic"})
            continue
        if r.get("rules"):
            ctx.violations.append({"id": r["id"], "xml": r["xml"], "format": r["ver"], "injection": r["inj"],
                                   "implementation": r["impl"], "returned_glyph": r["rules"],
                                   "demand": "every returned glyph satisfies the glif rules (no point-less contour, unique "
                                             "identifiers, no public.objectLibs key, format-1 named move points are anchors)"})
            continue
        if r["legal"] == acc:
            if r.get("corpus") and r["class"]:
                stale.add(r["corpus"])
            continue
        # rule-obeying but rejected: excused inside F14/F17; rule-breaking but accepted: excused inside F16
        excuse = [c for c in (("F14", "F17") if r["legal"] else ("F16",)) if r[c.lower()] and c in known_ids]
        if excuse:
            ctx.known_hits[excuse[0]] = ctx.known_hits.get(excuse[0], 0) + 1
            continue
        ctx.violations.append({"id": r["id"], "xml": r["xml"], "format": r["ver"], "injection": r["inj"],
                               "obeys_rules": r["legal"], "implementation": r["impl"], "classes": cls,
                               "demand": "rule-breaking documents are rejected, rule-obeying ones accepted"})
    # ---- correspondence: model vs implementation
    SH = 500
    files = []
    shard_rows = {}
    # documents too large for the Coq evaluation are covered by the implementation-side oracle only
    crows = [r for r in rows if not r.get("nomodel")]
    for b in range(0, len(crows), SH):
        part = crows[b:b + SH]
        vf = os.path.join(out, "cases_%d.v" % b)
        with open(vf, "w") as f:
            f.write(HEADER)
            f.write("Definition cases : list (list int * list int) := [\n")
            f.write(";\n".join("(%s,%s)" % (r["case"], r["exp"]) for r in part))
            f.write("].\nEval vm_compute in mismatches_packed run_packed cases.\n")
        files.append(vf)
        shard_rows[vf] = part
    if not built:
        ctx.disagreements.append({"what": "Coq development does not build; correspondence not evaluated"})
        res = {}
    else:
        res = ctx.coq_eval_many(files, timeout=1500)
    ok_shards = 0
    for vf, (rc, o) in sorted(res.items()):
        part = shard_rows[vf]
        if rc != 0:
            ctx.disagreements.append({"what": "correspondence shard failed to evaluate", "shard": os.path.basename(vf), "output": o[-800:]})
            continue
        vals = coq_values(o)
        if len(vals) != 1:
            ctx.disagreements.append({"what": "unparsable shard output", "shard": os.path.basename(vf), "output": o[-800:]})
            continue
        ok_shards += 1
        for (idx, m) in parse_term(vals[0]):
            r = part[idx]
            try:
                res, flags = m[1][0], [x[1] for x in m[1][1][1]]
            except Exception:
                res, flags = m, []
            mres = summarize_tm(res)
            hflags = [int(r["legal"]), int(r["f14"]), int(r["f16"]), int(r["f17"])]
            if flags != hflags:
                ctx.disagreements.append({"what": "rule predicate / class predicates: Coq and harness differ "
                                                  "[obeys rules, F14, F16, F17]", "id": r["id"], "xml": r["xml"],
                                          "injection": r["inj"], "coq": flags, "harness": hflags})
            if mres.split("(")[0] != r["impl"].split(" ")[0] or (mres.startswith("Err") and mres[4:-1] not in r["impl"]) or flags == hflags:
                ctx.disagreements.append({"what": "model outcome differs from Glyph::parse_raw", "id": r["id"], "xml": r["xml"],
                                          "injection": r["inj"], "model": mres, "implementation": r["impl"]})
                # by C12_sound, outside F16 the model accepts only rule-obeying documents: an implementation
                # that accepts where the model rejects a rule-breaking document violates the property
                if r["impl"] == "Ok" and not r["legal"] and not r["f16"]:
                    ctx.violations.append({"id": r["id"], "xml": r["xml"], "format": r["ver"], "injection": r["inj"],
                                           "obeys_rules": False, "implementation": r["impl"], "model": mres,
                                           "demand": "rule-breaking documents are rejected"})
    ctx.obligation("correspondence:C12 (%d shards)" % len(files), ok_shards == len(files) and not ctx.disagreements,
                   "model and implementation differ")
    nontrivial = len({r["xml"] for r in rows if r["inj"] != "none"})
    ctx.cov.update({
        "evaluations": len(rows),
        "distinct_nontrivial": nontrivial,
        "rule": "documents composed from legal building blocks (all element kinds, optional attributes, both format "
                "versions, glyph libs with object libs) with ONE injected rule violation or surface variation out of 54 "
                "kinds at a random applicable position, rendered with varied legal XML syntax; every 7th document has no "
                "injection; plus legal documents of chosen sizes (every identifier count 0..70, 100, 150, 300, 1000; up to "
                "1000 objects without identifiers, 300 code points, 1000 lib keys; above 160 items the model is not "
                "evaluated). Non-trivial = distinct documents with an injection.",
        "exhaustive": False,
        "input_distribution": hist,
        "traces_validated_against_impl": len(crows),
        "corpus_witnesses": len({r["corpus"] for r in rows if r.get("corpus")}),
        "stale_witnesses": sorted(stale),
    })
    for r in rows[1:4]:
        ctx.samples.append({"injection": r["inj"], "format": r["ver"], "implementation": r["impl"], "xml": r["xml"][:400]})


def replay(ctx, path):
    from driver import sh
    d = json.load(open(path))
    inp = d.get("input") or (d.get("disagreeing_cases") or [{}])[0]
    xml = inp.get("xml")
    if xml is None:
        print("replay file carries no document (kind=%s): %s" % (d.get("kind"), json.dumps(d)[:600]))
        return 1
    tmp = os.path.join(ctx.scratch, "replay.json")
    json.dump({"xml": xml}, open(tmp, "w"))
    rc, o = sh([ctx.harness, "c12", "--replay", tmp, "--out", ctx.scratch])
    print("document:\n" + xml)
    print("injection:", inp.get("injection"))
    print("Glyph::parse_raw:", o.split("\n")[0])
    if "obeys_rules" in inp:
        print("obeys the rules of the property:", inp["obeys_rules"])
    if "model" in inp:
        print("model:", inp["model"])
    if "returned_glyph" in inp:
        print("the returned glyph breaks a rule:", inp["returned_glyph"])
    return 0
