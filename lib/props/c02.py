"""C02 — encoding a glyph to glif XML and parsing it back is lossless."""
import glob
import json
import os
import xml.parsers.expat

META = {
    "level": "proof",
    "design_ref": "DESIGN.md section 8, C02; Appendix A 'Glif writer'",
    "technique": "Coq proofs over executable models of the glif writer (tree level) and reader: per-component codec "
                 "lemmas, dictionary algebra of the lib, composite round-trip theorem, exact characterisation of the lib re-indentation defect, refutation witnesses; differential "
                 "correspondence of the encoder's bytes (read by expat) and of the read-back glyph with the models",
    "text": "Gallina model of Glyph::encode_xml_impl producing the event tree a reader gets back (element / attribute "
            "order and presence conditions, colour and code-point formatting, object libs under public.objectLibs, "
            "recursive key sorting, line-by-line lib re-indentation), composed with the reader model of C12. "
            "Kernel-checked: the codecs of contours/points, anchors, guidelines, components, images invert under the "
            "library hypotheses; dump_object_libs followed by load_object_libs is the identity (C02_object_libs_roundtrip); the "
            "composite round trip holds for every valid glyph outside F3, glyph lib and object libs included, up to the "
            "writer's recursive key sorting (C02_roundtrip); base64 data reads back (proved, no hypothesis); re-indentation is the "
            "identity exactly when no lib string or key holds a line break (or the indent width is 0); notes survive "
            "exactly when trimmed and non-empty; witnesses refute the full-strength statements. Every run compares, for generated glyphs x write options, the bytes norad wrote "
            "(parsed by Python's expat) with the model's tree, and parse_raw of those bytes with the model's re-read. "
            "The writer keeps no state between calls (C02_encode_history_independent, by construction in the model): "
            "the run ties this to the code with write histories - sequences of encode_xml / Glyph::save on one thread, "
            "including every way a write fails (a UID value reaching the plist writer, C02_encode_fails_iff_uid_written; "
            "a user public.objectLibs key on save) - each write compared with the same write on a fresh thread and with the model.",
    "note": "Trusted: Coq kernel + VM; the hand-written models (tied by the differential run); byte-level rendering and "
            "escaping by quick-xml / plist (validated through expat on every case); std's number formatting and "
            "parsing (Section hypotheses, validated on every value of every case).",
}
COQ_TARGETS = ["Props/C02.vo", "Run/C02.vo"]
PROPS_FILES = ["C02"]
TRUSTED = ["model Model/GlifEncode.v hand-written from src/glyph/serialize.rs and Glyph::dump_object_libs; tied by the "
           "correspondence run (expat tree of the written bytes = model tree)",
           "model Model/GlifParse.v (see C12)",
           "lib/props/c02.py: expat-based reader of the written bytes (independent of quick-xml)",
           "Coq 8.16.1 kernel and vm_compute; no axioms; no extraction"]
ASSUMPTIONS = ["L1 (Section hypotheses, validated per case): f64::from_str(f64::to_string(x)) = x for finite x; a colour "
               "channel printed with 3 decimals parses to a value in 0..1 within 0.0005; Integer::to_string / from_str and "
               "{:04X} / from_str_radix invert; the XML text quick-xml / plist write for a tree is read back as that tree"]

HEADER = ("Require Import Norad.Run.C02.\nFrom Coq Require Import Uint63.\nOpen Scope uint63_scope.\n"
          "Set Printing Width 1000000. Set Printing Depth 10000000.\n")
CONTAINERS = {"glyph", "outline", "contour", "lib", "dict", "array"}
WS = " \t\r\n"


# ---------------------------------------------------------------- transport (coq/Run/Pack.v)
def varint(n, out):
    while True:
        b = n & 127
        n >>= 7
        if n == 0:
            out.append(b)
            return
        out.append(b | 128)


def ser(x, out):
    """x: int | str | bytes | list"""
    if isinstance(x, bool):
        out.append(0)
        varint(int(x), out)
    elif isinstance(x, int):
        out.append(0)
        varint(x, out)
    elif isinstance(x, str):
        b = x.encode("utf-8")
        out.append(1)
        varint(len(b), out)
        out.extend(b)
    elif isinstance(x, (bytes, bytearray)):
        out.append(4)
        varint(len(x), out)
        out.extend(x)
    else:
        out.append(2)
        for y in x:
            ser(y, out)
        out.append(3)


def packed(x):
    out = bytearray()
    ser(x, out)
    ints = [len(out)]
    for i in range(0, len(out), 7):
        ints.append(int.from_bytes(out[i:i + 7], "little"))
    return "[" + ";".join(map(str, ints)) + "]"


# ---------------------------------------------------------------- independent reader of the written bytes
def read_tree(data):
    """event tree of an XML document through expat: [tag 0 name attrs] for a self-closing element,
    [tag 1 name attrs kids] otherwise, [2 text]; blank text between the children of container elements is
    dropped, the text of <data> loses its blanks"""
    p = xml.parsers.expat.ParserCreate()
    p.ordered_attributes = True
    p.buffer_text = True
    stack = [[None, None, [], -1]]

    def start(name, attrs):
        a = [[attrs[i], attrs[i + 1]] for i in range(0, len(attrs), 2)]
        # is the tag at this position self-closing?  scan to its closing bracket outside quotes
        i = p.CurrentByteIndex
        quote = None
        while i < len(data):
            c = data[i:i + 1]
            if quote:
                if c == quote:
                    quote = None
            elif c in (b'"', b"'"):
                quote = c
            elif c == b">":
                break
            i += 1
        stack.append([name, a, [], data[i - 1:i] == b"/"])

    def end(name):
        nm, a, kids, selfclosing = stack.pop()
        if nm in CONTAINERS:
            kids = [k for k in kids if not (k[0] == 2 and k[1].strip(WS) == "")]
        if nm == "data":
            t = "".join(k[1] for k in kids if k[0] == 2)
            t = "".join(c for c in t if c not in WS + "\x0c")
            kids = [[2, t]] if t else []
        node = [0, nm, a] if selfclosing else [1, nm, a, kids]
        stack[-1][2].append(node)

    def chars(s):
        kids = stack[-1][2]
        if kids and kids[-1][0] == 2:
            kids[-1][1] += s
        else:
            kids.append([2, s])

    p.StartElementHandler = start
    p.EndElementHandler = end
    p.CharacterDataHandler = chars
    p.Parse(data, True)
    roots = [k for k in stack[0][2] if k[0] != 2]
    return roots[0] if len(roots) == 1 else None


ERRN = None


def load_cases(out):
    rows = []
    cf = os.path.join(out, "cases_corpus.jsonl")
    if os.path.exists(cf):
        rows += [json.loads(ln) for ln in open(cf) if ln.strip()]
    sf = os.path.join(out, "cases_sizes.jsonl")
    if os.path.exists(sf):
        rows += [json.loads(ln) for ln in open(sf) if ln.strip()]
    hs = glob.glob(os.path.join(out, "cases_hist*.jsonl"))
    for f in sorted(hs, key=lambda p: int(p.split("_hist")[-1].split(".")[0])):
        rows += [json.loads(ln) for ln in open(f) if ln.strip()]
    fs = [p for p in glob.glob(os.path.join(out, "cases_*.jsonl")) if not p.endswith("corpus.jsonl") and p not in hs and p != sf]
    for f in sorted(fs, key=lambda p: int(p.split("_")[-1].split(".")[0])):
        rows += [json.loads(ln) for ln in open(f) if ln.strip()]
    return rows


def enc_expected(enc):
    """the model's outcome for a write that did not succeed: [1, code] for the errors the model has"""
    if enc.startswith("Err Plist("):
        return [1, 42]
    if enc.startswith("Err PreexistingPublicObjectLibsKey"):
        return [1, 43]
    return [7]


def run(ctx, known, built):
    from driver import sh, coq_values, parse_term
    import driver
    from props import c12 as c12mod
    out = os.path.join(ctx.scratch, "c02")
    os.makedirs(out)
    corpus = os.path.join(driver.VERIF, "corpus", "C02")
    rc, o = sh([ctx.harness, "c02", "--tier", ctx.tier, "--seed", str(ctx.seed), "--out", out, "--corpus", corpus], timeout=3000)
    if rc != 0:
        ctx.disagreements.append({"what": "harness c02 failed", "output": o[-2000:]})
        return
    rows = load_cases(out)
    known_ids = {k["id"] for k in known}
    hist = {}
    stale = set()
    # ---- property oracle: parse_raw(encode(g)) ~ g for every valid glyph and every option set
    for r in rows:
        key = "%s/%s/%s" % ("valid" if r["valid"] else "invalid", "+".join(r["classes"]) or "-",
                            r["verdict"] if r["verdict"] in ("equal", "differs") else r["verdict"].split(" ")[0] + "-failed")
        hist[key] = hist.get(key, 0) + 1
        rep = {"id": r["id"], "options": r["opts"], "bytes_hex": r["bytes"], "verdict": r["verdict"], "field": r["field"],
               "classes": r["classes"], "glif": bytes.fromhex(r["bytes"]).decode("utf-8", "replace")}
        if r.get("hist"):
            rep["history"] = r["hist"]
            rep["seed"] = ctx.seed
            hk = "history item/%s/%s" % (r["hist"]["op"], "Ok" if r["enc"] == "Ok" else r["enc"].split("(")[0])
            hist[hk] = hist.get(hk, 0) + 1
        if r.get("hist_diff"):
            rep["demand"] = ("a write gives the same bytes (or the same error) whatever was written before on the thread: "
                             "item %d of history %d differs from the same write on a fresh thread"
                             % (r["hist"]["position"], r["hist"]["history"]))
            rep["difference"] = r["hist_diff"][:4000]
            ctx.violations.append(rep)
            continue
        if r.get("l1_fail"):
            ctx.disagreements.append({"what": "library hypothesis of the theorems fails on a value of this case",
                                      "detail": r["l1_fail"], "id": r["id"]})
        if r["enc"].startswith("PANIC"):
            rep["demand"] = "encode_xml_with_options does not panic"
            ctx.violations.append(rep)
            continue
        if not r["decl_ok"]:
            rep["demand"] = "the XML declaration follows the quote style"
            ctx.violations.append(rep)
            continue
        if not r["valid"]:
            continue
        if r["verdict"] == "equal":
            if r.get("corpus") and r["classes"]:
                stale.add(r["corpus"])
            continue
        excuse = [c for c in r["classes"] if c in known_ids]
        if excuse:
            for c in excuse[:1]:
                ctx.known_hits[c] = ctx.known_hits.get(c, 0) + 1
            continue
        rep["demand"] = "parse_raw(encode_xml_with_options(g, o)) equals g without its point-less contours (numbers within 1e-9 relative, colours to 3 decimals)"
        ctx.violations.append(rep)
    # ---- options must not matter: consecutive rows 2k, 2k+1 are the same glyph under two option sets
    byid = {r["id"]: r for r in rows if r["id"] >= 0}
    for i in sorted(byid):
        if i % 2 == 0 and i + 1 in byid:
            a, b = byid[i], byid[i + 1]
            if a["valid"] and not a["classes"] and not b["classes"] and a["reparse"] != b["reparse"]:
                ctx.violations.append({"id": i, "options": [a["opts"], b["opts"]], "bytes_hex": a["bytes"],
                                       "glif": bytes.fromhex(a["bytes"]).decode("utf-8", "replace"),
                                       "demand": "the re-read glyph does not depend on the write options"})
    # ---- correspondence
    SH = 250
    files = []
    shard_rows = {}
    # not evaluated in Coq: glyphs too large (implementation-side oracle only), and written files that
    # hold a character XML forbids (C0 controls other than tab, LF, CR; U+FFFE, U+FFFF), which the
    # independent reader rejects - for those the round-trip oracle above is the check
    def forbidden(r):
        try:
            t = bytes.fromhex(r["bytes"]).decode("utf-8")
        except UnicodeDecodeError:
            return False
        return any((ord(c) < 32 and c not in "\t\n\r") or c in "\ufffe\uffff" for c in t)
    skipped = {"too large": 0, "XML-forbidden character": 0}
    crows = []
    for r in rows:
        if r.get("nomodel"):
            skipped["too large"] += 1
        elif forbidden(r):
            skipped["XML-forbidden character"] += 1
        else:
            crows.append(r)
    for b in range(0, len(crows), SH):
        part = crows[b:b + SH]
        vf = os.path.join(out, "cases_%d.v" % b)
        with open(vf, "w") as f:
            f.write(HEADER)
            f.write("Definition cases : list (list int * list int) := [\n")
            items = []
            for r in part:
                if r["enc"] == "Ok":
                    try:
                        tree = read_tree(bytes.fromhex(r["bytes"]))
                        tree = [0, tree] if tree is not None else [9]
                    except xml.parsers.expat.ExpatError as ex:
                        tree = [8, str(ex)]
                    exp = "[%s;%s]" % (packed(tree), r["reparse"])
                else:
                    exp = None
                r["_tree"] = tree if r["enc"] == "Ok" else None
                flags = [int("F3" in r["classes"])]
                items.append((r["case"], packed([tree]) if r["enc"] == "Ok" else packed([enc_expected(r["enc"])]), r["reparse"], flags))
            f.write(";\n".join("(%s,%s)" % (c, packed_pair(t, rp, fl)) for (c, t, rp, fl) in items))
            f.write("].\nEval vm_compute in mismatches_packed run_c02 cases.\n")
        files.append(vf)
        shard_rows[vf] = part
    if not built:
        ctx.disagreements.append({"what": "Coq development does not build; correspondence not evaluated"})
        res = {}
    else:
        res = ctx.coq_eval_many(files, timeout=1500)
    ok_shards = 0
    for vf, (rc, o) in sorted(res.items()):
        part = shard_rows[vf]
        if rc != 0:
            ctx.disagreements.append({"what": "correspondence shard failed to evaluate", "shard": os.path.basename(vf), "output": o[-800:]})
            continue
        vals = coq_values(o)
        if len(vals) != 1:
            ctx.disagreements.append({"what": "unparsable shard output", "shard": os.path.basename(vf), "output": o[-800:]})
            continue
        ok_shards += 1
        for (idx, m) in parse_term(vals[0]):
            r = part[idx]
            ctx.disagreements.append({"what": "model (encoder tree, re-read outcome) differs from the implementation",
                                      "id": r["id"], "options": r["opts"], "valid": r["valid"], "why": r["why"],
                                      "glif": bytes.fromhex(r["bytes"]).decode("utf-8", "replace")[:3000],
                                      "bytes_hex": r["bytes"], "model": str(m)[:3000], "expat_tree": str(r.get("_tree"))[:3000]})
    ctx.obligation("correspondence:C02 (%d shards)" % len(files), ok_shards == len(files) and not ctx.disagreements,
                   "model and implementation differ")
    ctx.cov.update({
        "evaluations": len(rows),
        "distinct_nontrivial": len({r["case"] for r in rows if r["valid"] and r["verdict"] in ("equal", "differs")}),
        "rule": "glyph values built through the public API (all fields, legal contours, identifiers, object libs, libs "
                "with every plist type, strings / keys / notes with XML metacharacters, blanks, line breaks, non-BMP, DEL and C1 "
                "controls (legal XML) and, rarely, C0 controls (not legal XML: round-trip oracle only), numbers from a "
                "boundary set) x two write-option sets each (indent char, width 0..8, quote style); one glyph in 12 breaks "
                "a validity rule (model comparison only); plus glyphs of chosen sizes (every identifier count 0..70, 100, 150, 300, "
                "1000; up to 1000 objects without identifiers, 300 code points, 1000 lib keys; above 160 items the "
                "round-trip oracle only); plus write histories (3..24 writes on one thread each: valid glyphs, "
                "glyphs with a UID in the glyph lib / an object lib / an unwritten place, user public.objectLibs, "
                "Glyph::save, failing reads in between), every write compared with the same write on a fresh thread. "
                "Non-trivial = distinct valid glyph x options whose bytes were "
                "read back.",
        "exhaustive": False,
        "input_distribution": hist,
        "traces_validated_against_impl": len(crows),
        "not_evaluated_in_model": skipped,
        "stale_witnesses": sorted(stale),
    })
    for r in rows[:3]:
        ctx.samples.append({"options": r["opts"], "verdict": r["verdict"], "glif": bytes.fromhex(r["bytes"]).decode("utf-8", "replace")[:500]})


def packed_pair(tree_packed, reparse_packed, flags=(0,)):
    """expected dump = L_[tree; reparse]: both parts are already packed streams; re-pack as one list"""
    def unpack(s):
        ints = [int(x) for x in s.strip("[]").split(";")]
        n, out = ints[0], bytearray()
        for v in ints[1:]:
            out.extend(v.to_bytes(7, "little"))
        return bytes(out[:n])
    fl = bytearray()
    ser(list(flags), fl)
    body = bytearray([2]) + unpack(tree_packed)[1:-1] + unpack(reparse_packed) + fl + bytearray([3])
    ints = [len(body)]
    for i in range(0, len(body), 7):
        ints.append(int.from_bytes(body[i:i + 7], "little"))
    return "[" + ";".join(map(str, ints)) + "]"


def replay(ctx, path):
    d = json.load(open(path))
    inp = d.get("input") or (d.get("disagreeing_cases") or [{}])[0]
    if inp.get("history"):
        from driver import sh
        h = inp["history"]
        print("write history %d (seed %s): %d writes on one thread; the violation is at item %d" %
              (h["history"], inp.get("seed"), len(h["items"]), h["position"]))
        for i, t in enumerate(h["items"]):
            print("  %d. %s" % (i, t))
        tmp = os.path.join(ctx.scratch, "replay.json")
        json.dump({"history": h["history"], "seed": inp.get("seed", 1)}, open(tmp, "w"))
        rc, o = sh([ctx.harness, "c02", "--replay", tmp, "--out", ctx.scratch])
        print("re-running the history:\n" + o[:6000])
        for k in ("demand", "difference", "verdict"):
            if k in inp:
                print("%s: %s" % (k, inp[k]))
        return 0
    hx = inp.get("bytes_hex")
    if hx is None:
        print("replay file carries no document (kind=%s): %s" % (d.get("kind"), json.dumps(d)[:600]))
        return 1
    from driver import sh
    data = bytes.fromhex(hx)
    print("bytes written by norad for the failing glyph (options %s):\n%s" % (inp.get("options"), data.decode("utf-8", "replace")))
    tmp = os.path.join(ctx.scratch, "replay.json")
    json.dump({"glif": data.decode("utf-8", "replace"), "opts": inp.get("options") if isinstance(inp.get("options"), list) and not isinstance(inp.get("options")[0], list) else [9, 1, False]}, open(tmp, "w"))
    rc, o = sh([ctx.harness, "c02", "--replay", tmp, "--out", ctx.scratch])
    print("re-encoding the glyph read from these bytes and reading it back again:\n" + o[:3000])
    for k in ("verdict", "field", "demand", "classes", "model"):
        if k in inp:
            print("%s: %s" % (k, inp[k]))
    return 0
