"""C07 — assigned file names are portable, unique ignoring case, and stable."""
import json
import os

META = {
    "level": "proof",
    "design_ref": "DESIGN.md section 8, C07 (and C06 for the container half); Appendix A 'File names'",
    "technique": "Coq proofs about a Gallina model of user_name_to_file_name (for all names, all accept closures, "
                 "all is_uppercase/to_lowercase functions) and of the Layer/LayerContents containers (invariant by "
                 "induction over all operation histories); constants anchored in the source; model tied to the code "
                 "by an exhaustive + structured differential run on every check",
    "text": "Kernel-checked: the function never returns a rejected candidate and panics exactly when 100 candidates "
            "were rejected; a returned glif file name / layer directory name is a single component, has no illegal or "
            "control character, a stem that is no reserved device name (also after clipping and after the counter), "
            "no leading period (glif), no trailing period/space, carries '.glif' / 'glyphs.', and is <= 255 bytes "
            "outside the exact known class len257 (refuted inside it). Container level: assigned names stay pairwise "
            "distinct ignoring case and stable under every history, and every name in a font built through the API "
            "is an assigned name and so satisfies the clauses above (see C06 for the container model). The model is compared with "
            "norad::user_name_to_file_name on all strings of length <= 3 over a 15-symbol alphabet, reserved words, "
            "every clip boundary in every UTF-8 width mix, chains of 0..100 forced clashes and random names.",
    "note": "Trusted: Coq kernel + VM; the hand-written model (tied by the differential run, not by proof); "
            "lib/anchors_c07.py; char::is_uppercase / str::to_lowercase are arbitrary functions in the theorems and "
            "come from rustc's std as tables in the run (U+03A3 excluded: context-sensitive lower-casing).",
}
COQ_TARGETS = ["Props/C07.vo", "Run/C07.vo", "Run/C06.vo"]
PROPS_FILES = ["C07"]
TRUSTED = ["model Model/FileName.v hand-written from src/util.rs; tied by anchors (constants) and by the differential run "
           "through norad::user_name_to_file_name",
           "Coq 8.16.1 kernel and vm_compute; no axioms; no extraction"]
ASSUMPTIONS = ["is_upper / lower are universally quantified in every theorem (nothing assumed about Unicode case mapping); "
               "the case-insensitive 'not reserved' theorem assumes ASCII capitals are upper-case",
               "str::to_lowercase is the concatenation of char::to_lowercase on the generated names (U+03A3 never generated)"]

HEADER = ("Require Import Norad.Run.RunBase Norad.Run.C07.\nOpen Scope N_scope.\n"
          "Set Printing Width 100000. Set Printing Depth 1000000.\n")


def anchors(ctx):
    import anchors_c07
    import driver
    return anchors_c07.gallina(anchors_c07.extract(driver.REPO))


def lit_chunks(text, k=300):
    """Coq list of string literals (<= k characters each) whose concatenation is `text`"""
    parts = [text[i:i + k] for i in range(0, len(text), k)] or [""]
    return "[" + ";\n".join('"%s"' % p.replace('"', '""') for p in parts) + "]%string"


def cps(s):
    return "[" + ";".join(str(ord(c)) for c in s) + "]"


def run(ctx, known, built):
    from driver import sh, coq_values, parse_term
    import props.c06 as c06mod
    c06mod.witnesses(ctx, known, "c07", lambda o: "length<=255" in o)
    out = os.path.join(ctx.scratch, "c07")
    os.makedirs(out)
    rc, o = sh([ctx.harness, "c07", "--tier", ctx.tier, "--seed", str(ctx.seed), "--out", out], timeout=3000)
    if rc != 0:
        ctx.disagreements.append({"what": "harness c07 failed", "output": o[-2000:]})
        return
    summ = json.load(open(os.path.join(out, "summary.json")))
    tables = open(os.path.join(out, "tables.v")).read()
    index = {}
    for ln in open(os.path.join(out, "index.jsonl")):
        d = json.loads(ln)
        index[(d["shard"], d["local"])] = d
    # ---- model run: several shards per file, balanced by text size
    jobs = []   # (size, shard id, [eval commands], [local offsets])
    for sh_ in summ["shards"]:
        text = open(os.path.join(out, sh_["id"] + ".txt"), encoding="utf-8").read()
        cmds, offs = [], []
        if sh_["kind"] == "enum":
            lines = text.split("\n")[:-1]
            pos = 0
            tail = cps(chr(sh_["tail"])) if sh_["tail"] is not None else "[]"
            for part in sh_["parts"]:
                sub = "".join(l + "\n" for l in lines[pos:pos + part["count"]])
                cmds.append("Eval vm_compute in run_enum up low alphabet %d %s %s %s %s." % (
                    part["len"], tail, cps(sh_["prefix"]), cps(sh_["suffix"]), lit_chunks(sub)))
                offs.append(pos)
                pos += part["count"]
        else:
            cmds.append("Eval vm_compute in run_listed up low %s." % lit_chunks(text))
            offs.append(0)
        jobs.append((sh_.get("weight", len(text.encode("utf-8"))), sh_["id"], cmds, offs))
    jobs.sort(reverse=True)
    nfiles = max(1, min(len(jobs), 32))
    bins = [[0, []] for _ in range(nfiles)]
    for j in jobs:
        b = min(bins, key=lambda b: b[0])
        b[0] += j[0] + 2000
        b[1].append(j)
    files = {}
    for bi, (_, js) in enumerate(bins):
        if not js:
            continue
        vf = os.path.join(out, "shard_%02d.v" % bi)
        with open(vf, "w", encoding="utf-8") as f:
            f.write(HEADER + tables)
            for _, sid, cmds, offs in js:
                for c in cmds:
                    f.write(c + "\n")
        files[vf] = [(sid, off) for _, sid, cmds, offs in js for off in offs]
    if not built:
        ctx.disagreements.append({"what": "Coq development does not build; correspondence not evaluated"})
        res = {}
    else:
        res = ctx.coq_eval_many(list(files), timeout=1500)
    nshard_ok = 0

    def text_of(l):
        try:
            return "".join(chr(c) for c in l)
        except Exception:
            return repr(l)

    for vf, (rc, o) in sorted(res.items()):
        if rc != 0:
            ctx.disagreements.append({"what": "correspondence shard failed to evaluate", "shard": os.path.basename(vf), "output": o[-800:]})
            continue
        vals = coq_values(o)
        if len(vals) != len(files[vf]):
            ctx.disagreements.append({"what": "unparsable shard output", "shard": os.path.basename(vf), "output": o[-800:]})
            continue
        nshard_ok += 1
        for (sid, off), v in zip(files[vf], vals):
            for (local, diffs) in parse_term(v):
                case = index.get((sid, off + local), {"shard": sid, "local": off + local})
                for (step, outcome) in diffs:
                    mres, mknown = outcome
                    model = "panic (99 tries)" if mres == "None" else (text_of(mres[1]) if isinstance(mres, tuple) else str(mres))
                    if step == 999:
                        model = "(case text not understood by the model-side decoder)"
                    d = {"what": "model and norad::user_name_to_file_name differ",
                         "name": case.get("name"), "prefix": case.get("prefix"), "suffix": case.get("suffix"),
                         "k": step, "conversion": "number %d of the chain (earlier results are taken)" % step,
                         "model_result": model, "model_in_class_len257": mknown == "true",
                         "implementation_first_results": case.get("results"), "generator": case.get("gen")}
                    ctx.disagreements.append(d)
    ctx.disagreements.sort(key=lambda d: (len(d.get("name") or ""), d.get("k") or 0) if isinstance(d, dict) else (0, 0))
    ctx.obligation("correspondence:C07 function level (%d files, %d shards)" % (len(files), len(summ["shards"])),
                   nshard_ok == len(files) and not ctx.disagreements, "model and implementation differ")
    # ---- property oracle on the implementation
    known_ids = {k["id"] for k in known}
    for ln in open(os.path.join(out, "oracle.jsonl")):
        d = json.loads(ln)
        if d["class"] and d["class"] in known_ids:
            ctx.known_hits[d["class"]] = ctx.known_hits.get(d["class"], 0) + 1
            continue
        ctx.violations.append({"name": d["name"], "prefix": d["prefix"], "suffix": d["suffix"], "k": d["k"],
                               "returned": d["result"], "panic": d["panic"], "failed_clauses": d["failed"],
                               "class": d["class"] or "(outside every known class)",
                               "demand": "every clause of C07 on a returned name; no undocumented panic"})
    ctx.violations.sort(key=lambda v: (len(v["name"]), v["k"]))
    shards = summ.pop("shards")
    ctx.cov.update({
        "evaluations": summ["conversions"],
        "distinct_nontrivial": summ["distinct_nontrivial"],
        "rule": "every conversion (name, prefix, suffix, taken-set) run through norad::user_name_to_file_name and through "
                "the Coq model; distinct = distinct (name, prefix, suffix); non-trivial = the name has a character that "
                "is not a lower-case ASCII letter or is longer than the limit (takes an escaping, reserved, clipping, "
                "trailing or clash branch)",
        "exhaustive": True,
        "exhaustive_scope": "all strings of length <= 3 over the 15-symbol alphabet . space a A _ / c o n 1 E-acute euro "
                            "emoji dz-titlecase I-dot, x {glif file, layer dir, bare} x {no clash, clash}",
        "input_distribution": summ,
        "model_shards": len(shards),
        "traces_validated_against_impl": summ["conversions"],
    })
    for key in (("L0", 0), ("L0", 7), ("E0_t3", 5)):
        if key in index:
            ctx.samples.append(index[key])
    # ---- container level: histories (the model of the containers is tied by C06's run; here a
    # lighter set of histories, with the C07 clauses of the oracle: distinct ignoring case, stable,
    # portable, evaluated after every operation)
    import props.c06 as c06
    nd = len(ctx.disagreements)
    csum = c06.run_containers(ctx, known, built, "C07", light=True, tags=("C07:",))
    if csum is not None:
        csum.pop("shards", None)
        ctx.cov["container_histories"] = csum
        ctx.cov["evaluations"] += csum["operations_applied"]
        ctx.cov["traces_validated_against_impl"] += csum["trie_nodes"] + csum["random_histories"]


def replay(ctx, path):
    from driver import sh
    d = json.load(open(path))
    inp = d.get("input") or (d.get("disagreeing_cases") or [{}])[0]
    if not isinstance(inp, dict) or inp.get("name") is None:
        print("replay file names no input (kind=%s): %s" % (d.get("kind"), json.dumps(d)[:600]))
        return 1
    tmp = os.path.join(ctx.scratch, "replay.json")
    json.dump({"name": inp["name"], "prefix": inp.get("prefix", ""), "suffix": inp.get("suffix", ""), "k": inp.get("k", 0)},
              open(tmp, "w"))
    rc, o = sh([ctx.harness, "c07", "--replay", tmp, "--out", ctx.scratch])
    print(o)
    if inp.get("model_result") is not None:
        print("model     =", repr(inp["model_result"]))
    return 0
