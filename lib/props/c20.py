"""C20 — contour-to-path and transform conversions follow the glif drawing rules."""
import json
import os

META = {
    "level": "proof",
    "design_ref": "DESIGN.md section 8, C20; section 7 (generic arithmetic + primitive-float instance)",
    "technique": "Coq proof (to_path = spec_path for ALL legal contours, over an abstract point type; transform "
                 "formula / kurbo expression tree / round trip over any (F,+,x)) + bit-exact model/implementation "
                 "correspondence with Coq primitive floats",
    "text": "Kernel-checked theorems over the Gallina model of Contour::to_kurbo: for every legal (= parser-accepted, "
            "C11) contour and arbitrary coordinates the conversion succeeds and returns exactly the outline the glif "
            "drawing rules define (start point, one segment per on-curve point of the kind its preceding off-curves "
            "call for, implied on-curve points, closure, off-curve-only contours), visits the on-curve points in "
            "order, returns to its start when closed and loses no point; ContourPoint::transform is the stated "
            "formula, the same expression tree as kurbo's Affine * Point, and AffineTransform <-> kurbo::Affine is "
            "the identity both ways. The model is tied to the code on every run: every type sequence up to length "
            "6 (quick) / 8 (thorough) and random longer contours with arbitrary finite doubles go through "
            "Contour::new + to_kurbo, through Glyph::parse_raw + to_kurbo and through the model and the "
            "specification evaluated with Coq's primitive floats (element lists compared bit-exactly via "
            "fingerprints); 10^5 / 10^7 random transform x point pairs are compared bit-exactly among "
            "ContourPoint::transform, kurbo::Affine * Point and the Coq model.",
    "note": "Trusted: Coq kernel + VM incl. primitive float/int evaluation (hardware binary64, same as rustc's); the "
            "hand-written model of src/glyph/mod.rs (tied by the differential run, not by proof); per-case 6-bit "
            "fingerprints (a differing case is missed with probability 1/64; systematic deviations touch many cases); "
            "the harness's glif rendering; f64 Debug formatting / parsing round trip.",
}
COQ_TARGETS = ["Props/C20.vo", "Run/C20.vo"]
PROPS_FILES = ["C20"]
TRUSTED = ["model Model/Path.v hand-written from src/glyph/mod.rs (to_kurbo, ContourPoint::transform, From impls) and "
           "kurbo 0.11.3 src/affine.rs (Mul<Point>), src/point.rs (midpoint); tied by the bit-exact correspondence",
           "L1: IEEE binary64 +, x as evaluated by Coq's primitive floats (execution instance only; the theorems are "
           "over an abstract carrier and closed under the global context)",
           "Coq 8.16.1 kernel and vm_compute; no axioms; no extraction"]
ASSUMPTIONS = ["parser-accepted = legal is theorem C11 plus its correspondence; here acceptance by Glyph::parse_raw is "
               "additionally compared with legalb on every case",
               "x/y attribute parsing (str::parse::<f64>) is exercised (bit-exact round trip of the generated doubles), not proved"]
NAMES = ["move", "line", "offcurve", "curve", "qcurve"]
HDR = ("Require Import Norad.Run.RunBase Norad.Run.C20.\nFrom Coq Require Import Uint63.\n"
       "Open Scope string_scope.\nSet Printing Width 100000. Set Printing Depth 1000000.\n")


def chunks(s, k=1000):
    return "[" + ";".join('"%s"' % s[i:i + k] for i in range(0, len(s), k)) + "]"


def digits5(idx, n):
    d = []
    for _ in range(n):
        d.append(str(idx % 5))
        idx //= 5
    return "".join(reversed(d))


def pretty5(s):
    return [NAMES[int(c)] for c in s]


def pretty10(s):
    return [NAMES[int(c) // 2] + ("+smooth" if int(c) % 2 else "") for c in s]


def run(ctx, known, built):
    from driver import sh, coq_values, parse_term
    out = os.path.join(ctx.scratch, "c20")
    os.makedirs(out)
    rc, o = sh([ctx.harness, "c20", "--tier", ctx.tier, "--seed", str(ctx.seed), "--out", out], timeout=3000)
    if rc != 0:
        ctx.disagreements.append({"what": "harness c20 failed", "output": o[-2000:]})
        return
    summ = json.load(open(os.path.join(out, "summary.json")))
    key = summ["key"]
    maxlen = summ["maxlen"]
    files = []
    shards = {}
    SH = 6     # 5^6 suffixes per exhaustive shard
    for n in range(maxlen + 1):
        em = open(os.path.join(out, "exh_model_%d.txt" % n)).read()
        es = open(os.path.join(out, "exh_spec_%d.txt" % n)).read()
        plen = max(0, n - SH)
        w = 5 ** (n - plen)
        for pi in range(5 ** plen):
            prefix = digits5(pi, plen)
            vf = os.path.join(out, "exh_%d_%s.v" % (n, prefix or "e"))
            with open(vf, "w") as f:
                f.write(HDR)
                f.write('Eval vm_compute in diff_model_exh "%s" %d %s.\n' % (prefix, n - plen, chunks(em[pi * w:(pi + 1) * w])))
                f.write('Eval vm_compute in diff_spec_exh "%s" %d %s.\n' % (prefix, n - plen, chunks(es[pi * w:(pi + 1) * w])))
            files.append(vf)
            shards[vf] = ("exh", n, prefix)
    cases = open(os.path.join(out, "rand_cases.txt")).read().split("\n")
    if cases and cases[-1] == "":
        cases.pop()
    rm = open(os.path.join(out, "rand_model.txt")).read()
    rs = open(os.path.join(out, "rand_spec.txt")).read()
    RS = 1000
    for b in range(0, len(cases), RS):
        vf = os.path.join(out, "rand_%d.v" % b)
        with open(vf, "w") as f:
            f.write(HDR)
            f.write("Definition cs := [%s].\n" % ";".join('"%s"' % c for c in cases[b:b + RS]))
            f.write("Eval vm_compute in diff_model_rand %d%%uint63 %d%%uint63 cs %s.\n" % (key, b, chunks(rm[b:b + RS])))
            f.write("Eval vm_compute in diff_spec_rand %d%%uint63 %d%%uint63 cs %s.\n" % (key, b, chunks(rs[b:b + RS])))
        files.append(vf)
        shards[vf] = ("rand", b, None)
    tr = open(os.path.join(out, "tr.txt")).read()
    trk = open(os.path.join(out, "tr_kurbo.txt")).read()
    TS = 50000 if ctx.thorough() else 10000
    for b in range(0, len(tr), TS):
        vf = os.path.join(out, "tr_%d.v" % b)
        n = len(tr[b:b + TS])
        with open(vf, "w") as f:
            f.write(HDR)
            f.write("Eval vm_compute in diff_transform %d%%uint63 %d%%uint63 %d%%N %s.\n" % (key, b, n, chunks(tr[b:b + TS])))
            f.write("Eval vm_compute in diff_transform_kurbo %d%%uint63 %d%%uint63 %d%%N %s.\n" % (key, b, n, chunks(trk[b:b + TS])))
        files.append(vf)
        shards[vf] = ("tr", b, None)

    if not built:
        ctx.disagreements.append({"what": "Coq development does not build; correspondence not evaluated"})
        res = {}
    else:
        res = ctx.coq_eval_many(files, timeout=2400)

    def case_of(kind, n, prefix, idx):
        if kind == "exh":
            s = prefix + digits5(idx, n - len(prefix))
            return {"kind": "contour", "coords": "exh", "digits5": s, "points": pretty5(s)}
        if kind == "rand":
            s = cases[n + idx]
            return {"kind": "contour", "coords": "rand", "key": key, "index": n + idx, "digits": s, "points": pretty10(s)}
        return {"kind": "transform", "key": key, "index": n + idx}

    nshard_ok = 0
    model_diffs = []
    spec_diffs = []
    for vf, (rc, o) in sorted(res.items()):
        kind, n, prefix = shards[vf]
        if rc != 0:
            ctx.disagreements.append({"what": "correspondence shard failed to evaluate", "shard": os.path.basename(vf), "output": o[-600:]})
            continue
        vals = coq_values(o)
        if len(vals) != 2:
            ctx.disagreements.append({"what": "unparsable shard output", "shard": os.path.basename(vf), "output": o[-600:]})
            continue
        nshard_ok += 1
        for (idx, m, e) in parse_term(vals[0]):
            c = case_of(kind, n, prefix, idx)
            c.update({"model_fingerprint": m, "implementation_fingerprint": e})
            model_diffs.append(c)
        for (idx, m, e) in parse_term(vals[1]):
            c = case_of(kind, n, prefix, idx)
            c.update({"specification_fingerprint": m, "implementation_fingerprint": e})
            spec_diffs.append(c)

    def size(c):
        return (len(c.get("digits5", c.get("digits", ""))), c.get("index", 0))
    model_diffs.sort(key=size)
    spec_diffs.sort(key=size)
    for c in model_diffs[:5] + spec_diffs[:5]:
        c.update(detail(ctx, c))
    for c in model_diffs:
        if c["kind"] == "contour":
            c["what"] = "model path (Contour::new + to_kurbo vs to_path) differs"
        else:
            c["what"] = "model transform (Coq primitive floats) differs from ContourPoint::transform"
            c["demand"] = "x' = xScale*x + yxScale*y + xOffset, y' = xyScale*x + yScale*y + yOffset (IEEE, this evaluation order)"
        ctx.disagreements.append(c)
    # A contour's path that differs from spec_path may still be an outline the specification allows
    # (another on-curve start point): evaluate the property's predicate (Coq: outline_ok) on the
    # implementation's path for a sample of the differing cases, smallest first.
    cand = [c for c in spec_diffs if c["kind"] == "contour" and c["implementation_fingerprint"] not in "-!"
            and c["specification_fingerprint"] != "-"]
    step = max(1, len(cand) // 20)
    sample = cand[:40] + cand[40::step][:20]
    verdicts = judge(ctx, sample)
    for c in spec_diffs:
        if c["kind"] == "contour":
            e = c["implementation_fingerprint"]
            m = c["specification_fingerprint"]
            c["demand"] = "to_kurbo(parse(contour)) = Ok(path), path one of the outlines the specification allows (C20_path_is_outline)"
            if e == "!":
                continue      # reported by the harness oracle
            if e == "-" or m == "-":
                c["what"] = ("a legal contour was rejected by the parser" if e == "-" else
                             "the parser accepted an illegal contour") + " (accepts <-> legal is C11; C20's theorem assumes it)"
                ctx.disagreements.append(c)
                continue
            v = verdicts.get(id(c))
            if v is None:
                continue      # not sampled; its model difference is already a disagreement
            c["implementation_path_bits"] = v[1]
            if v[0]:
                c["what"] = "path differs from spec_path but is an allowed outline (different start point)"
                if not any(d is c for d in model_diffs):
                    ctx.disagreements.append(c)
            else:
                c["what"] = "path of the accepted contour is not an outline the specification allows"
                ctx.violations.append(c)
        else:
            c["what"] = "kurbo::Affine * Point after AffineTransform -> Affine -> AffineTransform -> Affine differs from the model"
            c["demand"] = "same value as ContourPoint::transform; conversions are the identity"
            ctx.violations.append(c)
    # by the theorems a model difference on a transform or on an accepted contour is a violating input as well
    for c in model_diffs:
        if c["kind"] == "transform":
            ctx.violations.append(c)
    # the harness's own oracle
    hv = json.load(open(os.path.join(out, "violations.json")))
    for v in hv[:5]:
        v.update(detail(ctx, v))
    for v in hv:
        if v.get("kind") == "contour":
            v["points"] = pretty5(v["digits5"]) if "digits5" in v else pretty10(v["digits"])
        ctx.violations.append(v)
    if summ["oracle_violations"] > len(hv):
        ctx.log.append("harness oracle: %d violations, first %d kept" % (summ["oracle_violations"], len(hv)))
    ctx.violations.sort(key=size)

    ctx.obligation("correspondence:C20 (%d shards)" % len(files), nshard_ok == len(files) and not ctx.disagreements,
                   "model and implementation differ")
    total = summ["exhaustive_sequences"] + summ["random_contours"] + summ["transforms"]
    ctx.cov.update({
        "evaluations": total,
        "distinct_nontrivial": summ["exhaustive_accepted"] + summ["random_accepted"] + summ["transforms_not_small_integer"],
        "rule": "contours: every sequence over {move,line,offcurve,curve,qcurve} of length <= %d (pairwise distinct "
                "points and midpoints, exact arithmetic), each converted twice (Contour::new and Glyph::parse_raw) and "
                "compared with model and specification in Coq; %d random contours of length 1..200 with coordinates "
                "from small integers, moderate and arbitrary finite doubles. Non-trivial contour = accepted by the "
                "parser (the path is compared with spec_path). transforms: %d transform x point pairs derived from "
                "the seed; non-trivial = not restricted to small integers (rounding, overflow, subnormals occur; %d "
                "gave a non-finite result)." % (maxlen, summ["random_contours"], summ["transforms"], summ["transforms_nonfinite_result"]),
        "exhaustive": True,
        "exhaustive_scope": "all point-type sequences of length <= %d" % maxlen,
        "input_distribution": summ,
        "traces_validated_against_impl": total,
    })
    ctx.samples += [{"contour": pretty10(cases[i]), "implementation_fingerprint": rs[i]} for i in (1, 2, 3) if i < len(cases)]


def contour_term(c):
    if c.get("coords") == "exh":
        return ('(with_coords_exh 0%%uint63 (of_digits5 "%s"))' % c["digits5"], "contour exh %s" % c["digits5"])
    return ('(rand_contour %d%%uint63 %d%%uint63 (of_digits "%s"))' % (c["key"], c["index"], c["digits"]),
            "contour rand %d %d %s" % (c["key"], c["index"], c["digits"]))


def judge(ctx, sample):
    """{id(case): (allowed outline?, implementation path bits)} via the harness replay and Coq's outline_ok"""
    from driver import sh, coq_values
    if not sample:
        return {}
    vf = os.path.join(ctx.scratch, "judge.v")
    keep = []
    with open(vf, "w") as f:
        f.write(HDR)
        for i, c in enumerate(sample):
            term, line = contour_term(c)
            rp = os.path.join(ctx.scratch, "judge_%d.txt" % i)
            open(rp, "w").write(line + "\n")
            rc, o = sh([ctx.harness, "c20", "--replay", rp, "--out", ctx.scratch], timeout=120)
            bits = [ln[len("parsed_bits: "):] for ln in o.split("\n") if ln.startswith("parsed_bits: ")]
            if not bits:
                continue
            code, els = json.loads(bits[0])
            g = "(%d, [%s])%%Z" % (code, ";".join("(%d, [%s])" % (t, ";".join(str(b) for b in fs)) for t, fs in els))
            f.write("Eval vm_compute in outline_ok %s %s.\n" % (term, g))
            keep.append((c, bits[0]))
    rc, o = ctx.coqc(vf, timeout=600)
    vals = coq_values(o) if rc == 0 else []
    res = {}
    if len(vals) != len(keep):
        ctx.disagreements.append({"what": "judging the differing paths failed", "output": o[-600:]})
        return res
    for (c, b), v in zip(keep, vals):
        res[id(c)] = (v.strip() == "true", b)
    return res


def detail(ctx, c):
    """readable model / specification / implementation results for one case"""
    from driver import sh, coq_values
    d = {}
    tag = "%s_%s" % (c.get("kind"), c.get("digits5", c.get("index", "")))
    vf = os.path.join(ctx.scratch, "detail_%s.v" % tag)
    rp = os.path.join(ctx.scratch, "detail_%s.txt" % tag)
    if c.get("kind") == "contour":
        if c.get("coords") == "exh":
            term = 'dump_contour (with_coords_exh 0%%uint63 (of_digits5 "%s"))' % c["digits5"]
            line = "contour exh %s" % c["digits5"]
        else:
            term = 'dump_contour (rand_contour %d%%uint63 %d%%uint63 (of_digits "%s"))' % (c["key"], c["index"], c["digits"])
            line = "contour rand %d %d %s" % (c["key"], c["index"], c["digits"])
        names = "(legal, model to_path, spec_path) as (code, [(tag, [f64 bits])])"
    else:
        term = "dump_transform %d%%uint63 %d%%uint63" % (c["key"], c["index"])
        line = "transform %d %d" % (c["key"], c["index"])
        names = "([inputs bits], model transform bits, model kurbo bits)"
    open(vf, "w").write(HDR + "Eval vm_compute in %s.\n" % term)
    rc, o = ctx.coqc(vf, timeout=300)
    vals = coq_values(o) if rc == 0 else []
    d["coq " + names] = " ".join(vals[0].split()) if vals else o[-300:]
    open(rp, "w").write(line + "\n")
    rc, o = sh([ctx.harness, "c20", "--replay", rp, "--out", ctx.scratch], timeout=120)
    d["implementation"] = o.strip().split("\n")
    d["replay_line"] = line
    return d


def replay(ctx, path):
    from driver import sh
    d = json.load(open(path))
    c = d.get("input")
    if c is None and d.get("disagreeing_cases"):
        c = d["disagreeing_cases"][0]
    if not c or "kind" not in c:
        print("replay file names no input (kind=%s): %s" % (d.get("kind"), json.dumps(d)[:500]))
        return 1
    if c["kind"] == "contour" and c.get("coords") == "exh":
        line = "contour exh %s" % c["digits5"]
    elif c["kind"] == "contour":
        line = "contour rand %d %d %s" % (c["key"], c["index"], c["digits"])
    else:
        line = "transform %d %d" % (c["key"], c["index"])
    tmp = os.path.join(ctx.scratch, "replay.txt")
    open(tmp, "w").write(line + "\n")
    rc, o = sh([ctx.harness, "c20", "--replay", tmp, "--out", ctx.scratch])
    print("input:", line)
    print(o)
    if c.get("demand"):
        print("demand:", c["demand"])
    return 0
