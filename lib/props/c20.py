"""C20 — contour-to-path and transform conversions follow the glif drawing rules."""
import json
import os

META = {
    "level": "proof",
    "design_ref": "DESIGN.md section 8, C20; section 7 (generic arithmetic + primitive-float instance)",
    "technique": "Coq proof (to_path = spec_path for ALL legal contours, over an abstract point type; transform "
                 "formula / kurbo expression tree / round trip over any (F,+,x)) + bit-exact model/implementation "
                 "correspondence with Coq primitive floats",
    "text": "Kernel-checked theorems over the Gallina model of Contour::to_kurbo: for every legal (= parser-accepted, "
            "C11) contour and arbitrary coordinates the conversion succeeds and returns exactly the outline the glif "
            "drawing rules define (start point, one segment per on-curve point of the kind its preceding off-curves "
            "call for, implied on-curve points, closure, off-curve-only contours), visits the on-curve points in "
            "order, returns to its start when closed and loses no point; ContourPoint::transform is the stated "
            "formula, the same expression tree as kurbo's Affine * Point, and AffineTransform <-> kurbo::Affine is "
            "the identity both ways. The model is tied to the code on every run: every type sequence up to length "
            "7 (quick) / 9 (thorough) and random longer contours with arbitrary finite doubles go through "
            "Contour::new + to_kurbo, through Glyph::parse_raw + to_kurbo and through the model and the "
            "specification evaluated with Coq's primitive floats; 10^6 / 10^7 random transform x point pairs are "
            "compared bit-exactly among ContourPoint::transform, kurbo::Affine * Point and the Coq model. Both sides "
            "derive the inputs from the run's key; results are compared as 63-bit fingerprints of the f64 bit "
            "patterns folded per block; differing blocks are opened case by case and the implementation's path is "
            "judged in Coq against every outline the specification allows (any on-curve start point).",
    "note": "Trusted: Coq kernel + VM incl. primitive float/int evaluation (hardware binary64, same as rustc's); the "
            "hand-written model of src/glyph/mod.rs (tied by the differential run, not by proof); the fingerprint "
            "function (63 bits per case, collision probability negligible); the harness's glif rendering; f64 "
            "Debug formatting / parsing round trip.",
}
COQ_TARGETS = ["Props/C20.vo", "Run/C20.vo"]
PROPS_FILES = ["C20"]
TRUSTED = ["model Model/Path.v hand-written from src/glyph/mod.rs (to_kurbo, ContourPoint::transform, From impls) and "
           "kurbo 0.11.3 src/affine.rs (Mul<Point>), src/point.rs (midpoint); tied by the bit-exact correspondence",
           "L1: IEEE binary64 +, x as evaluated by Coq's primitive floats (execution instance only; the theorems are "
           "over an abstract carrier and closed under the global context)",
           "Coq 8.16.1 kernel and vm_compute; no axioms; no extraction"]
ASSUMPTIONS = ["parser-accepted = legal is theorem C11 plus its correspondence; here acceptance by Glyph::parse_raw is "
               "additionally compared with legalb on every case",
               "x/y attribute parsing (str::parse::<f64>) is exercised (bit-exact round trip of the generated doubles), not proved"]
NAMES = ["move", "line", "offcurve", "curve", "qcurve"]
HDR = ("Require Import Norad.Run.RunBase Norad.Run.C20.\nFrom Coq Require Import Uint63.\n"
       "Open Scope string_scope.\nOpen Scope uint63_scope.\nSet Printing Width 100000. Set Printing Depth 1000000.\n")


def digits5(idx, n):
    d = []
    for _ in range(n):
        d.append(str(idx % 5))
        idx //= 5
    return "".join(reversed(d))


def pretty5(s):
    return [NAMES[int(c)] for c in s]


def pretty10(s):
    return [NAMES[int(c) // 2] + ("+smooth" if int(c) % 2 else "") for c in s]


def ints(path):
    return [int(x) for x in open(path).read().split()]


def coq_ints(text):
    return [int(x) for x in text.replace("[", " ").replace("]", " ").replace(";", " ").replace("%uint63", "").split()]


MAX_BLOCKS = 12     # differing blocks looked into per kind


def run(ctx, known, built):
    from driver import sh, coq_values
    out = os.path.join(ctx.scratch, "c20")
    os.makedirs(out)
    rc, o = sh([ctx.harness, "c20", "--tier", ctx.tier, "--seed", str(ctx.seed), "--out", out], timeout=3000)
    if rc != 0:
        ctx.disagreements.append({"what": "harness c20 failed", "output": o[-2000:]})
        return
    summ = json.load(open(os.path.join(out, "summary.json")))
    key = summ["key"]
    maxlen = summ["maxlen"]
    BE, BR, BT = summ["block_exh"], summ["block_rand"], summ["block_tr"]

    # committed regression inputs first, compared in full
    corpus = []
    cpath = os.path.join(os.path.dirname(os.path.dirname(os.path.dirname(os.path.abspath(__file__)))), "corpus", "C20", "shapes.txt")
    for ln in open(cpath).read().split("\n"):
        ln = ln.split("#")[0].strip()
        if ln:
            corpus.append({"kind": "contour", "coords": "exh", "digits5": ln, "points": pretty5(ln), "from": "corpus/C20/shapes.txt"})
    if built:
        cv = judge(ctx, corpus)
        for c in corpus:
            v = cv.get(id(c))
            if v is None or not v[0]:
                c["what"] = ("corpus contour: the path is not an outline the specification allows" if v else
                             "corpus contour: not accepted / not converted")
                c["demand"] = "accepted, converted, path one of valid_outlines"
                if v:
                    c["implementation_path_bits"] = v[1]
                c.update(detail(ctx, c))
                ctx.violations.append(c)
        ctx.obligation("corpus:C20 (%d contours, full comparison)" % len(corpus),
                       all(cv.get(id(c), (False,))[0] for c in corpus), "a corpus contour fails")

    # shards: (kind, n, base, count, block size, model function, spec function, expected model sums, expected spec sums)
    shards = []
    ES = 5 ** 6
    for n in range(maxlen + 1):
        em = ints(os.path.join(out, "exh_model_%d.txt" % n))
        es = ints(os.path.join(out, "exh_spec_%d.txt" % n))
        total = 5 ** n
        for b in range(0, total, ES):
            cnt = min(ES, total - b)
            k0, k1 = b // BE, (b + cnt + BE - 1) // BE
            shards.append(("exh", n, b, cnt, BE, "(exh_model %d%%nat)" % n, "(exh_spec %d%%nat)" % n, em[k0:k1], es[k0:k1]))
    rm = ints(os.path.join(out, "rand_model.txt"))
    rs = ints(os.path.join(out, "rand_spec.txt"))
    RS = 5000 if ctx.thorough() else 2500
    for b in range(0, summ["random_contours"], RS):
        cnt = min(RS, summ["random_contours"] - b)
        shards.append(("rand", None, b, cnt, BR, "(rand_model %d)" % key, "(rand_spec %d)" % key,
                       rm[b // BR:(b + cnt + BR - 1) // BR], rs[b // BR:(b + cnt + BR - 1) // BR]))
    segsum = json.load(open(os.path.join(out, "seg_summary.json")))
    sm = ints(os.path.join(out, "seg_model.txt"))
    ss = ints(os.path.join(out, "seg_spec.txt"))
    SS = 1500 if ctx.thorough() else 400
    for b in range(0, segsum["contours"], SS):
        cnt = min(SS, segsum["contours"] - b)
        shards.append(("seg", None, b, cnt, BR, "(seg_model %d)" % key, "(seg_spec %d)" % key,
                       sm[b // BR:(b + cnt + BR - 1) // BR], ss[b // BR:(b + cnt + BR - 1) // BR]))
    tr = ints(os.path.join(out, "tr.txt"))
    trk = ints(os.path.join(out, "tr_kurbo.txt"))
    TS = 250000 if ctx.thorough() else 62500
    for b in range(0, summ["transforms"], TS):
        cnt = min(TS, summ["transforms"] - b)
        shards.append(("tr", None, b, cnt, BT, "(tr_h %d)" % key, "(trk_h %d)" % key,
                       tr[b // BT:(b + cnt + BT - 1) // BT], trk[b // BT:(b + cnt + BT - 1) // BT]))
    files = []
    for i, sh_ in enumerate(shards):
        kind, n, b, cnt, bs, fm, fs, _, _ = sh_
        vf = os.path.join(out, "shard_%d.v" % i)
        with open(vf, "w") as f:
            f.write(HDR)
            f.write("Eval vm_compute in block_sums %s %d %d%%N %d%%N.\n" % (fm, b, cnt, bs))
            f.write("Eval vm_compute in block_sums %s %d %d%%N %d%%N.\n" % (fs, b, cnt, bs))
        files.append(vf)
    if not built:
        ctx.disagreements.append({"what": "Coq development does not build; correspondence not evaluated"})
        res = {}
    else:
        res = ctx.coq_eval_many(files, timeout=2400)

    nshard_ok = 0
    bad_blocks = []     # (shard, block base, count, model differs, spec differs)
    for i, vf in enumerate(files):
        if vf not in res:
            continue
        rc, o = res[vf]
        kind, n, b, cnt, bs, fm, fs, xm, xs = shards[i]
        if rc != 0:
            ctx.disagreements.append({"what": "correspondence shard failed to evaluate", "shard": "%s n=%s base=%d" % (kind, n, b), "output": o[-600:]})
            continue
        vals = coq_values(o)
        if len(vals) != 2:
            ctx.disagreements.append({"what": "unparsable shard output", "shard": "%s n=%s base=%d" % (kind, n, b), "output": o[-600:]})
            continue
        cm, cs = coq_ints(vals[0]), coq_ints(vals[1])
        if len(cm) != len(xm) or len(cs) != len(xs):
            ctx.disagreements.append({"what": "shard block count differs", "shard": "%s n=%s base=%d" % (kind, n, b),
                                      "coq": [len(cm), len(cs)], "harness": [len(xm), len(xs)]})
            continue
        nshard_ok += 1
        for k in range(len(cm)):
            dm, ds = cm[k] != xm[k], cs[k] != xs[k]
            if dm or ds:
                bad_blocks.append((shards[i], b + k * bs, min(bs, b + cnt - (b + k * bs)), dm, ds))

    # look into differing blocks: per-case fingerprints from both sides
    model_diffs = []
    spec_diffs = []
    looked = {}
    for (shd, bb, bc, dm, ds) in bad_blocks:
        kind, n = shd[0], shd[1]
        if looked.get(kind, 0) >= MAX_BLOCKS:
            continue
        looked[kind] = looked.get(kind, 0) + 1
        vf = os.path.join(out, "block_%s_%s_%d.v" % (kind, n, bb))
        open(vf, "w").write(HDR + "Eval vm_compute in case_hashes %s %d %d%%N.\nEval vm_compute in case_hashes %s %d %d%%N.\n"
                            % (shd[5], bb, bc, shd[6], bb, bc))
        rc, o = ctx.coqc(vf, timeout=600)
        vals = coq_values(o) if rc == 0 else []
        rp = os.path.join(out, "block_%s_%s_%d.txt" % (kind, n, bb))
        line = {"exh": "block exh %d %s %d %d" % (key, n, bb, bc), "rand": "block rand %d %d %d" % (key, bb, bc),
                "seg": "block seg %d %d %d" % (key, bb, bc),
                "tr": "block tr %d %d %d" % (key, bb, bc)}[kind]
        open(rp, "w").write(line + "\n")
        rc2, o2 = sh([ctx.harness, "c20", "--replay", rp, "--out", out], timeout=600)
        rows = [ln.split() for ln in o2.strip().split("\n") if ln.strip()]
        if len(vals) != 2 or rc2 != 0 or len(rows) != bc:
            ctx.disagreements.append({"what": "could not look into a differing block", "block": line, "output": (o + o2)[-600:]})
            continue
        cm, cs = coq_ints(vals[0]), coq_ints(vals[1])
        for k in range(bc):
            idx = bb + k
            if kind == "exh":
                s5 = digits5(idx, n)
                case = {"kind": "contour", "coords": "exh", "digits5": s5, "points": pretty5(s5)}
            elif kind in ("rand", "seg"):
                case = {"kind": "contour", "coords": kind, "key": key, "index": idx}
            else:
                case = {"kind": "transform", "key": key, "index": idx}
            if cm[k] != int(rows[k][0]):
                c = dict(case)
                c.update({"model_fingerprint": cm[k], "implementation_fingerprint": int(rows[k][0])})
                model_diffs.append(c)
            if cs[k] != int(rows[k][1]):
                c = dict(case)
                c.update({"specification_fingerprint": cs[k], "implementation_fingerprint": int(rows[k][1])})
                spec_diffs.append(c)
    if bad_blocks:
        ctx.disagreements.append({"what": "block fingerprints differ between model/specification (Coq) and implementation",
                                  "blocks_differing": len(bad_blocks),
                                  "blocks_looked_into": sum(looked.values()),
                                  "by_kind": {k: sum(1 for x in bad_blocks if x[0][0] == k) for k in ("exh", "rand", "seg", "tr")}})

    def size(c):
        return (len(c.get("digits5", "")) if c.get("coords") == "exh" else 100, c.get("index", 0))
    model_diffs.sort(key=size)
    spec_diffs.sort(key=size)
    for c in model_diffs[:4] + spec_diffs[:4]:
        c.update(detail(ctx, c))
    for c in model_diffs:
        if c["kind"] == "contour":
            c["what"] = "model path (Contour::new + to_kurbo vs to_path) differs"
        else:
            c["what"] = "model transform (Coq primitive floats) differs from ContourPoint::transform"
            c["demand"] = "x' = xScale*x + yxScale*y + xOffset, y' = xyScale*x + yScale*y + yOffset (IEEE, this evaluation order)"
        ctx.disagreements.append(c)
    # A contour's path that differs from spec_path may still be an outline the specification allows
    # (another on-curve start point): evaluate the property's predicate (Coq: outline_ok) on the
    # implementation's path for a sample of the differing cases, smallest first.
    cand = [c for c in spec_diffs if c["kind"] == "contour" and c["implementation_fingerprint"] not in (1, 6)
            and c["specification_fingerprint"] != 1]
    step = max(1, len(cand) // 20)
    sample = cand[:40] + cand[40::step][:20]
    verdicts = judge(ctx, sample)
    for c in spec_diffs:
        if c["kind"] == "contour":
            e = c["implementation_fingerprint"]
            m = c["specification_fingerprint"]
            c["demand"] = "to_kurbo(parse(contour)) = Ok(path), path one of the outlines the specification allows (C20_path_is_outline)"
            if e == 6:
                continue      # reported by the harness oracle
            if e == 1 or m == 1:
                c["what"] = ("a legal contour was rejected by the parser" if e == 1 else
                             "the parser accepted an illegal contour") + " (accepts <-> legal is C11; C20's theorem assumes it)"
                ctx.disagreements.append(c)
                continue
            v = verdicts.get(id(c))
            if v is None:
                continue      # not sampled; the block difference is already a disagreement
            c["implementation_path_bits"] = v[1]
            if v[0]:
                c["what"] = "path differs from spec_path but is an allowed outline (different start point)"
                ctx.disagreements.append(c)
            else:
                c["what"] = "path of the accepted contour is not an outline the specification allows"
                ctx.violations.append(c)
        else:
            c["what"] = "kurbo::Affine * Point of the converted transform, or the transform converted to kurbo and back, differs from the model"
            c["demand"] = "same value as ContourPoint::transform; conversions are the identity"
            ctx.disagreements.append(c)
            ctx.violations.append(c)
    # by the theorems a model difference on a transform is a violating input as well
    for c in model_diffs:
        if c["kind"] == "transform":
            ctx.violations.append(c)
    # the harness's own oracle
    hv = json.load(open(os.path.join(out, "violations.json")))
    for v in hv[:4]:
        v.update(detail(ctx, v))
    for v in hv:
        if "digits5" in v:
            v["points"] = pretty5(v["digits5"])
        elif "digits" in v:
            v["points"] = pretty10(v["digits"])
        ctx.violations.append(v)
    if summ["oracle_violations"] > len(hv):
        ctx.log.append("harness oracle: %d violations, first %d kept" % (summ["oracle_violations"], len(hv)))
    ctx.violations.sort(key=size)

    ctx.obligation("correspondence:C20 (%d shards)" % len(files), nshard_ok == len(files) and not ctx.disagreements,
                   "model and implementation differ")
    total = summ["exhaustive_sequences"] + summ["random_contours"] + segsum["contours"] + summ["transforms"]
    ctx.cov.update({
        "evaluations": total,
        "distinct_nontrivial": summ["exhaustive_accepted"] + summ["random_accepted"] + segsum["accepted"] + summ["transforms_not_small_integer"],
        "rule": "contours: every sequence over {move,line,offcurve,curve,qcurve} of length <= %d (pairwise distinct "
                "points and midpoints, exact arithmetic), each converted twice (Contour::new and Glyph::parse_raw) and "
                "compared with model and specification in Coq; %d random contours of length 1..200 and %d contours built "
                "from segment lists (long quadratic runs mixed with cubics, see segment_list_stream) with coordinates "
                "from small integers, moderate and arbitrary finite doubles. Non-trivial contour = accepted by the "
                "parser (the path is compared with spec_path). transforms: %d transform x point pairs derived from "
                "the seed; non-trivial = not restricted to small integers (rounding, overflow, subnormals occur; %d "
                "gave a non-finite result). Inputs are derived from the run's key by the same 63-bit integer "
                "arithmetic on both sides; results are compared through 63-bit fingerprints of the bit patterns, "
                "folded per block of %d/%d/%d cases." % (maxlen, summ["random_contours"], segsum["contours"], summ["transforms"],
                                                          summ["transforms_nonfinite_result"], BE, BR, BT),
        "exhaustive": True,
        "exhaustive_scope": "all point-type sequences of length <= %d" % maxlen,
        "input_distribution": summ,
        "segment_list_stream": dict(segsum, rule="%d legal contours built as lists of segments (line | cubic with 0/1/2 "
                                    "off-curves | qcurve after k off-curves | all off-curves), open or closed under a drawn "
                                    "rotation, up to 150 points: first every pair (qcurve run of k, then cubic-2) for k = "
                                    "0..70 in three layouts, then every triple (run k1, run k2, cubic-2) with k1+k2 in "
                                    "{15,16,31,47,63} in two layouts, then drawn lists with k from: 50%% uniform 0..40, "
                                    "30%% {14..17,30..33,63..65}, 20%% 0..3" % segsum["contours"]),
        "traces_validated_against_impl": total,
    })
    for ln in open(os.path.join(out, "rand_samples.txt")).read().strip().split("\n"):
        if ln:
            d, acc = ln.split()
            ctx.samples.append({"contour": pretty10(d), "accepted": acc == "true"})


def contour_term(c):
    if c.get("coords") == "exh":
        return ('(with_coords_exh 0 (of_digits5 "%s"))' % c["digits5"], "contour exh %s" % c["digits5"])
    if c.get("coords") == "seg":
        return ("(seg_contour %d %d)" % (c["key"], c["index"]), "contour seg %d %d" % (c["key"], c["index"]))
    return ("(rand_contour %d %d)" % (c["key"], c["index"]), "contour rand %d %d" % (c["key"], c["index"]))


def judge(ctx, sample):
    """{id(case): (allowed outline?, implementation path bits)} via the harness replay and Coq's outline_ok"""
    from driver import sh, coq_values
    if not sample:
        return {}
    vf = os.path.join(ctx.scratch, "judge.v")
    keep = []
    with open(vf, "w") as f:
        f.write(HDR)
        for i, c in enumerate(sample):
            term, line = contour_term(c)
            rp = os.path.join(ctx.scratch, "judge_%d.txt" % i)
            open(rp, "w").write(line + "\n")
            rc, o = sh([ctx.harness, "c20", "--replay", rp, "--out", ctx.scratch], timeout=120)
            bits = [ln[len("parsed_bits: "):] for ln in o.split("\n") if ln.startswith("parsed_bits: ")]
            if not bits:
                continue
            code, els = json.loads(bits[0])
            g = "(%d, [%s])%%Z" % (code, ";".join("(%d, [%s])" % (t, ";".join(str(b) for b in fs)) for t, fs in els))
            f.write("Eval vm_compute in outline_ok %s %s.\n" % (term, g))
            keep.append((c, bits[0]))
    rc, o = ctx.coqc(vf, timeout=600)
    vals = coq_values(o) if rc == 0 else []
    res = {}
    if len(vals) != len(keep):
        ctx.disagreements.append({"what": "judging the differing paths failed", "output": o[-600:]})
        return res
    for (c, b), v in zip(keep, vals):
        res[id(c)] = (v.strip() == "true", b)
    return res


def detail(ctx, c):
    """readable model / specification / implementation results for one case"""
    from driver import sh, coq_values
    d = {}
    tag = "%s_%s" % (c.get("kind"), c.get("digits5", c.get("index", "")))
    vf = os.path.join(ctx.scratch, "detail_%s.v" % tag)
    rp = os.path.join(ctx.scratch, "detail_%s.txt" % tag)
    if c.get("kind") == "contour":
        t, line = contour_term(c)
        term = "dump_contour " + t
        names = "(legal, model to_path, spec_path) as (code, [(tag, [f64 bits])])"
    else:
        term = "dump_transform %d %d" % (c["key"], c["index"])
        line = "transform %d %d" % (c["key"], c["index"])
        names = "([inputs bits], model transform bits, model kurbo bits)"
    open(vf, "w").write(HDR + "Eval vm_compute in %s.\n" % term)
    rc, o = ctx.coqc(vf, timeout=300)
    vals = coq_values(o) if rc == 0 else []
    d["coq " + names] = " ".join(vals[0].split()) if vals else o[-300:]
    open(rp, "w").write(line + "\n")
    rc, o = sh([ctx.harness, "c20", "--replay", rp, "--out", ctx.scratch], timeout=120)
    d["implementation"] = o.strip().split("\n")
    d["replay_line"] = line
    return d


def replay(ctx, path):
    from driver import sh
    d = json.load(open(path))
    c = d.get("input")
    if c is None and d.get("disagreeing_cases"):
        c = d["disagreeing_cases"][0]
    if not c or "kind" not in c:
        print("replay file names no input (kind=%s): %s" % (d.get("kind"), json.dumps(d)[:500]))
        return 1
    if c["kind"] == "contour" and c.get("coords") == "exh":
        line = "contour exh %s" % c["digits5"]
    elif c["kind"] == "contour":
        line = "contour %s %d %d" % (c.get("coords", "rand"), c["key"], c["index"])
    else:
        line = "transform %d %d" % (c["key"], c["index"])
    tmp = os.path.join(ctx.scratch, "replay.txt")
    open(tmp, "w").write(line + "\n")
    rc, o = sh([ctx.harness, "c20", "--replay", tmp, "--out", ctx.scratch])
    print("input:", line)
    print(o)
    if c.get("demand"):
        print("demand:", c["demand"])
    return 0
