"""C15 — kerning groups are validated, and legacy kerning is upconverted faithfully."""
import json
import os

META = {
    "level": "proof",
    "design_ref": "DESIGN.md section 8, C15; F21; Appendix A (Load)",
    "technique": "Coq proofs over the Gallina model of validate_groups / upconvert_kerning / make_unique_group_name "
                 "(validate <-> groups_ok for all group maps; conversion meets the declarative relation Upconverted; "
                 "loop fuel suffices) + model/implementation correspondence through Font::load of generated V1/V2/V3 "
                 "UFO directories and Font::save (exhaustive small scope + random), + independent property oracle",
    "text": "Kernel-checked theorems: validate_groups accepts a group map iff it satisfies the declarative rule "
            "(no glyph twice among first-side members, nor among second-side members; no bare prefix), for ALL maps; "
            "load/save return or write only valid groups and accept all valid ones; the conversion keeps the originals, "
            "duplicates exactly the groups the text names under fresh distinct public.kern1./2. names with identical "
            "members and adds nothing else; every pair is renamed with its value unchanged unless two kerning keys "
            "coincide after renaming (class PairCollision, refuted by witness); the unique-name loop terminates within "
            "|groups|+1 steps and returns the least free candidate. Tied to /repo on every run: every groups/kerning/"
            "glyph-set triple with <= 3 groups x <= 2 pairs over a 5-name universe (and a slice of a second universe) and "
            "random larger triples go through Font::load / Font::save and through the model; groups, kerning, error "
            "variant (with its glyph and group) are compared.",
    "note": "Trusted: Coq kernel + VM; the hand-written model Model/Groups.v (tied by the differential run, not by proof); "
            "the harness's UFO writer; plist/quick-xml parsing of the generated files; the i32 loop counter of "
            "make_unique_group_name is modelled unbounded (needs 2^31 colliding groups to matter).",
}
COQ_TARGETS = ["Props/C15.vo", "Run/C15.vo"]
PROPS_FILES = ["C15"]
TRUSTED = ["model Model/Groups.v hand-written from src/groups.rs, src/upconversion.rs, src/font.rs call sites; tied by "
           "correspondence through Font::load / Font::save",
           "Coq 8.16.1 kernel and vm_compute; no axioms; no extraction",
           "outcomes of the enumerated cases are compared through a 63-bit polynomial hash of the full dump"]
ASSUMPTIONS = ["names are valid norad Names (non-empty, no control characters) - enforced by plist deserialisation",
               "the glyph-name set handed to the conversion is the interner's content (F21); the harness computes it as "
               "contents keys + inner glif names + component bases, checked by the correspondence itself",
               "make_unique_group_name's counter is an i32 in the code, unbounded in the model"]
CLASSES = ("F21", "PairCollision")
HEADER = (b"From Coq Require Import Uint63.\nRequire Import Norad.Run.RunBase Norad.Run.C15.\nOpen Scope string_scope. Open Scope N_scope.\n"
          b"Set Printing Width 100000. Set Printing Depth 1000000.\n")


def _lit(n):
    return b'"' + n.replace(b'"', b'""') + b'"'


def _corpus_dir():
    import driver
    return os.path.join(driver.VERIF, "corpus", "C15")


def run(ctx, known, built):
    from driver import sh, coq_values, parse_term, REPO
    out = os.path.join(ctx.scratch, "c15")
    os.makedirs(out)
    base = [ctx.harness, "c15", "--tier", ctx.tier, "--seed", str(ctx.seed), "--out", out, "--corpus", _corpus_dir(), "--repo", REPO]
    rc, o = sh(base, timeout=3000)
    if rc != 0:
        ctx.disagreements.append({"what": "harness c15 failed", "output": o[-2000:]})
        return
    summ = json.load(open(os.path.join(out, "summary.json")))
    names = open(os.path.join(out, "names.txt"), "rb").read().split(b"\n")[:-1]
    files = []
    # ---- enumerated cases: (global index, universe, enumeration index, hash)
    exh = [tuple(int(x) for x in ln.split()) for ln in open(os.path.join(out, "exh.txt")).read().split("\n") if ln]
    mvs = summ["exhaustive_member_variants"]
    glob_of = {}
    runs = []
    CH = 3000
    for u in sorted({e[1] for e in exh}):
        es = [e for e in exh if e[1] == u]
        for (gi, _, j, _) in es:
            glob_of[(u, j)] = gi
        for b0 in range(0, len(es), CH):
            ch = es[b0:b0 + CH]
            stride = ch[1][2] - ch[0][2] if len(ch) > 1 else 1
            if any(ch[i + 1][2] - ch[i][2] != stride for i in range(len(ch) - 1)):
                ctx.disagreements.append({"what": "enumeration indices of the harness are not equidistant"})
            runs.append((u, ch[0][2], stride, [e[3] for e in ch]))
    shard_info = {}
    for n, (u, first, stride, hs) in enumerate(runs):
        vf = os.path.join(out, "exh_%d.v" % n)
        with open(vf, "wb") as f:
            f.write(HEADER)
            f.write(b"Eval vm_compute in exh_mism %d %d %d %d [%s]%%uint63.\n"
                    % (u, mvs, first, stride, b";".join(b"%d" % h for h in hs)))
        files.append(vf)
        shard_info[vf] = ("exh", u)
    # ---- structured cases (corpus, random): full dumps
    lines = open(os.path.join(out, "cases.txt"), "rb").read().split(b"\n")[:-1]
    RS = 400
    for bi in range(0, len(lines), RS):
        vf = os.path.join(out, "cases_%d.v" % bi)
        with open(vf, "wb") as f:
            f.write(HEADER)
            f.write(b"Definition ts : list string := [" + b";".join(_lit(n) for n in names) + b"].\n")
            f.write(b"Definition cs : list (N * (case * etm)) := [\n" + b";\n".join(lines[bi:bi + RS]) + b"].\n")
            f.write(b"Eval vm_compute in mism ts cs.\n")
        files.append(vf)
        shard_info[vf] = ("cases", None)
    if not built:
        ctx.disagreements.append({"what": "Coq development does not build; correspondence not evaluated"})
        res = {}
    else:
        res = ctx.coq_eval_many(files, timeout=1500)
    bad_idx = []     # (global index, model outcome)
    nshard_ok = 0
    for vf, (rc, o) in sorted(res.items()):
        if rc != 0:
            ctx.disagreements.append({"what": "correspondence shard failed to evaluate", "shard": os.path.basename(vf), "output": o[-800:]})
            continue
        vals = coq_values(o)
        if len(vals) != 1:
            ctx.disagreements.append({"what": "unparsable shard output", "shard": os.path.basename(vf), "output": o[-800:]})
            continue
        nshard_ok += 1
        try:
            mm = parse_term(vals[0])
        except Exception:
            mm = [(-1, vals[0][:2000])]
        kind, u = shard_info[vf]
        for item in mm:
            idx, model = item[0], item[1]
            if kind == "exh":
                idx = glob_of.get((u, idx), -1)
            bad_idx.append((idx, model))
    # details of the disagreeing cases (bounded)
    bad_idx.sort(key=lambda t: t[0])
    if bad_idx:
        want = [str(i) for i, _ in bad_idx[:40] if i >= 0]
        rc, o = sh(base + ["--case-json"] + want, timeout=600)
        cases = {}
        for ln in o.split("\n"):
            try:
                d = json.loads(ln)
                cases[d["index"]] = d
            except Exception:
                pass
        for i, model in bad_idx[:40]:
            d = cases.get(i, {})
            ctx.disagreements.append({"what": "model outcome differs from what the implementation did",
                                      "index": i, "kind": d.get("kind"), "case": d.get("case"),
                                      "model": _show(model)})
        for i, model in bad_idx[40:]:
            ctx.disagreements.append({"what": "model outcome differs from what the implementation did", "index": i})
    # ---- property oracle
    fails = json.load(open(os.path.join(out, "oracle.json")))
    listed = {k["id"] for k in known}
    seen = set()
    class_hits = {}
    for fl in fails:
        cl = fl.get("class") or ""
        if cl:
            class_hits[cl] = class_hits.get(cl, 0) + 1
        if cl and cl in listed:
            ctx.known_hits[cl] = ctx.known_hits.get(cl, 0) + 1
            continue
        key = json.dumps(fl["case"], sort_keys=True)
        if key in seen:
            continue
        seen.add(key)
        ctx.violations.append({"case": fl["case"], "what": fl["what"], "index": fl["index"], "kind": fl["kind"],
                               "class": cl or None,
                               "demand": "property text C15 (groups valid iff rule; conversion = Upconverted)"})
    ctx.violations.sort(key=lambda v: len(json.dumps(v["case"])))
    # witnesses of the listed findings must still fail (else: stale, reported in the evidence only)
    stale = []
    for k in known:
        hit = any((fl.get("class") == k["id"]) and fl["kind"] == "corpus" for fl in fails)
        if not hit:
            stale.append(k["id"])
    ctx.obligation("correspondence:C15 (%d shards, %d cases)" % (len(files), summ["cases"]),
                   nshard_ok == len(files) and not ctx.disagreements, "model and implementation differ")
    ctx.cov.update({
        "evaluations": summ["cases"],
        "distinct_nontrivial": summ["distinct_nontrivial"],
        "rule": "distinct (by content) cases whose load converts at least one group or is refused; every case = one "
                "generated UFO directory through Font::load (+ Font::save of a font carrying the groups, + save/reload of "
                "the loaded font for all random cases and 1/16 of the enumerated ones) and through the Coq model",
        "exhaustive": True,
        "exhaustive_scope": "all triples with <= 3 groups (of 5 names) x %d member patterns x <= 2 kerning pairs (of 25) x "
                            "(no glyph | one glyph named like a universe name) over universe 1 %s; every %d-th such triple "
                            "over universe 2 %s (offset = seed mod stride)"
                            % (mvs, summ["universes"][0], summ["exhaustive_stride_universe_2"], summ["universes"][1]),
        "input_distribution": summ,
        "oracle_failures_by_class": class_hits,
        "stale_witnesses": stale,
        "traces_validated_against_impl": summ["cases"],
    })
    for ln in lines[:3]:
        ctx.samples.append(ln.decode("utf-8", "replace")[:600])


def _show(t):
    """printed otm -> nested python"""
    if isinstance(t, tuple) and t and t[0] in ("OL", "ON", "OS"):
        if t[0] == "OL":
            return [_show(x) for x in t[1]] if len(t) > 1 else []
        return t[1] if len(t) > 1 else None
    if isinstance(t, list):
        return [_show(x) for x in t]
    return t


def replay(ctx, path):
    from driver import sh
    d = json.load(open(path))
    inp = d.get("input") or {}
    case = inp.get("case")
    if case is None and d.get("disagreeing_cases"):
        for dc in d["disagreeing_cases"]:
            if dc.get("case"):
                case = dc["case"]
                print("model said:", json.dumps(dc.get("model")))
                break
    if case is None and "format_version" in d:
        case = d
    if case is None:
        print("replay file names no case (kind=%s): %s" % (d.get("kind"), json.dumps(d)[:800]))
        return 1
    tmp = os.path.join(ctx.scratch, "replay_case.json")
    json.dump({"case": case}, open(tmp, "w"))
    rc, o = sh([ctx.harness, "c15", "--replay", tmp, "--out", ctx.scratch])
    print(o)
    return 0
