"""C11 — a contour is accepted exactly when its point sequence is legal."""
import json
import os

META = {
    "level": "proof",
    "design_ref": "DESIGN.md section 8, C11; Appendix B",
    "technique": "Coq proof (accepts <-> legal, by induction over all point sequences) + exhaustive model/implementation correspondence",
    "text": "Kernel-checked theorem over the Gallina model of OutlineBuilder: for ALL point sequences the "
            "builder accepts iff the positional/cyclic specification predicate `legal` holds, accepted points "
            "come back unchanged, empty contours are dropped. The model is tied to the code on every run by "
            "running Glyph::parse_raw and the model (vm_compute) on every sequence up to length 5 (quick) / 7 "
            "(thorough) plus random long sequences, comparing verdict and error kind; every sequence is rendered in canonical and permuted "
            "attribute order, inside two-contour documents, and as a format 1 glif with named points (same verdict, same points).",
    "note": "Trusted: Coq kernel + VM; the hand-written model of src/glyph/builder.rs (tied by the exhaustive "
            "differential run, not by proof); the harness's glif rendering of a sequence; quick-xml attribute parsing.",
}
COQ_TARGETS = ["Props/C11.vo", "Run/C11.vo"]
PROPS_FILES = ["C11"]
TRUSTED = ["model Model/Contour.v hand-written from src/glyph/builder.rs; tied by exhaustive correspondence through Glyph::parse_raw",
           "Coq 8.16.1 kernel and vm_compute; no axioms; no extraction"]
ASSUMPTIONS = ["point type / smooth attribute parsing by quick-xml and norad's attribute code is exercised, not proved"]
NAMES = ["move", "line", "offcurve", "curve", "qcurve"]
ERR = {"0": "accepted", "1": "UnexpectedMove", "2": "UnexpectedPointAfterOffCurve", "3": "UnexpectedSmooth",
       "4": "TooManyOffCurves", "5": "TrailingOffCurves", "6": "unreachable!() arm", "7": "accepted-but-changed",
       "8": "other error", "9": "panic", "A": "verdict depends on XML attribute order",
       "B": "verdict or returned points differ when the contour stands in a format 1 glif with named points", "?": "missing"}


def pretty(digits):
    return [NAMES[int(d) // 2] + ("+smooth" if int(d) % 2 else "") for d in digits]


def chunks(s, k=1000):
    return "[" + ";".join('"%s"' % s[i:i + k] for i in range(0, len(s), k)) + "]"


def nth_seq(idx, n):
    return str(idx).zfill(n) if n else ""


def run(ctx, known, built):
    out = os.path.join(ctx.scratch, "c11")
    os.makedirs(out)
    from driver import sh, coq_values, parse_term
    rc, o = sh([ctx.harness, "c11", "--tier", ctx.tier, "--seed", str(ctx.seed), "--out", out], timeout=3000)
    if rc != 0:
        ctx.disagreements.append({"what": "harness c11 failed", "output": o[-2000:]})
        return
    summ = json.load(open(os.path.join(out, "summary.json")))
    maxlen = summ["maxlen"]
    files = []
    shards = {}   # file -> (kind, n, prefix, base_index)
    SH = 4        # enumerate 10^4 suffixes per shard
    for n in range(maxlen + 1):
        exp = open(os.path.join(out, "exh_%d.txt" % n)).read()
        plen = max(0, n - SH)
        for pi in range(10 ** plen):
            prefix = nth_seq(pi, plen)
            sub = exp[pi * 10 ** (n - plen):(pi + 1) * 10 ** (n - plen)]
            leg = "".join("1" if c == "0" else "0" for c in sub)
            vf = os.path.join(out, "exh_%d_%s.v" % (n, prefix or "e"))
            with open(vf, "w") as f:
                f.write("Require Import Norad.Run.RunBase Norad.Run.C11.\nOpen Scope string_scope.\n"
                        "Set Printing Width 100000. Set Printing Depth 1000000.\n")
                f.write('Eval vm_compute in diff_verdicts_from "%s" %d %s.\n' % (prefix, n - plen, chunks(sub)))
                f.write('Eval vm_compute in diff_legal_from "%s" %d %s.\n' % (prefix, n - plen, chunks(leg)))
            files.append(vf)
            shards[vf] = ("exh", n, prefix)
    cases = open(os.path.join(out, "rand_cases.txt")).read().split("\n")
    if cases and cases[-1] == "":
        cases.pop()
    rexp = open(os.path.join(out, "rand_expected.txt")).read()
    ctxp = os.path.join(out, "rand_context.txt")
    contexts = open(ctxp).read().split("\n") if os.path.exists(ctxp) else []
    multi = int(open(os.path.join(out, "multi_count.txt")).read()) if os.path.exists(os.path.join(out, "multi_count.txt")) else 0

    def context_of(i):
        return contexts[i] if i < len(contexts) and contexts[i] else None
    RS = 1000
    for b in range(0, len(cases), RS):
        cs = cases[b:b + RS]
        ex = rexp[b:b + RS]
        leg = "".join("1" if c == "0" else "0" for c in ex)
        vf = os.path.join(out, "rand_%d.v" % b)
        with open(vf, "w") as f:
            f.write("Require Import Norad.Run.RunBase Norad.Run.C11.\nOpen Scope string_scope.\n"
                    "Set Printing Width 100000. Set Printing Depth 1000000.\n")
            lst = "[" + ";".join('"%s"' % c for c in cs) + "]"
            f.write("Definition cs := %s.\n" % lst)
            f.write("Eval vm_compute in diff_cases_l cs %s.\n" % chunks(ex))
            f.write("Eval vm_compute in diff_cases_legal_l cs %s.\n" % chunks(leg))
        files.append(vf)
        shards[vf] = ("rand", b, None)
    if not built:
        ctx.disagreements.append({"what": "Coq development does not build; correspondence not evaluated"})
        res = {}
    else:
        res = ctx.coq_eval_many(files, timeout=1200)
    nshard_ok = 0
    for vf, (rc, o) in sorted(res.items()):
        kind, n, prefix = shards[vf]
        if rc != 0:
            ctx.disagreements.append({"what": "correspondence shard failed to evaluate", "shard": os.path.basename(vf), "output": o[-600:]})
            continue
        vals = coq_values(o)
        if len(vals) != 2:
            ctx.disagreements.append({"what": "unparsable shard output", "shard": os.path.basename(vf), "output": o[-600:]})
            continue
        dv = parse_term(vals[0])
        dl = parse_term(vals[1])
        nshard_ok += 1

        def seq_of(idx):
            if kind == "exh":
                return prefix + nth_seq(idx, n - len(prefix))
            return cases[n + idx]

        def ctx_of(idx):
            return context_of(n + idx) if kind == "rand" else None
        for (idx, m, e) in dv:
            s = seq_of(idx)
            ctx.disagreements.append({"what": "model verdict differs from implementation", "sequence": s,
                                      "points": pretty(s), "model": ERR.get(m, m), "implementation": ERR.get(e, e),
                                      "document": ctx_of(idx) or "single contour"})
        for (idx, m, e) in dl:
            # by C11_accepts_iff_legal + legalb_decides: the implementation accepts iff e == '1'
            s = seq_of(idx)
            ctx.violations.append({"sequence": s, "points": pretty(s),
                                   "legal_by_specification": m == "1", "implementation_accepted": e == "1",
                                   "demand": "accepted iff legal", "document": ctx_of(idx) or "single contour"})
    # verdict 7 / 9 are violations by themselves (points changed, panic)
    for n in range(maxlen + 1):
        exp = open(os.path.join(out, "exh_%d.txt" % n)).read()
        for idx, c in enumerate(exp):
            if c in "79AB":
                s = nth_seq(idx, n)
                ctx.violations.append({"sequence": s, "points": pretty(s), "implementation": ERR[c]})
    for idx, c in enumerate(rexp):
        if c in "79AB":
            ctx.violations.append({"sequence": cases[idx], "points": pretty(cases[idx]), "implementation": ERR[c],
                                   "document": context_of(idx) or "single contour"})
    # de-duplicate violations by sequence, shortest first
    seen = set()
    uniq = []
    for v in sorted(ctx.violations, key=lambda v: (len(v["sequence"]), v["sequence"])):
        if (v["sequence"], v.get("document")) not in seen:
            seen.add((v["sequence"], v.get("document")))
            uniq.append(v)
    ctx.violations[:] = uniq
    ctx.obligation("correspondence:C11 (%d shards)" % len(files), nshard_ok == len(files) and not ctx.disagreements,
                   "model and implementation differ")
    total = summ["exhaustive_sequences"] + summ["random_sequences"] + multi
    ctx.cov.update({
        "evaluations": total,
        "distinct_nontrivial": summ["exhaustive_accepted"] + summ["random_accepted"],
        "rule": "every sequence over {move,line,offcurve,curve,qcurve}x{smooth,plain} of length <= %d through "
                "Glyph::parse_raw and through the Coq model (distinct by construction), plus %d random sequences "
                "of length 6..300 (90%% from a mostly-legal walk), plus %d two-contour documents (every sequence of length <= 3/4 as the second "
                "contour after 8 legal first contours x 4 separators: the verdict must be that of the sequence alone). Non-trivial = accepted by the implementation "
                "(reaches end_path and exercises the wrap-around logic)." % (maxlen, summ["random_sequences"], multi),
        "exhaustive": True,
        "exhaustive_scope": "all sequences of length <= %d" % maxlen,
        "input_distribution": summ,
        "traces_validated_against_impl": total,
    })
    ctx.samples += [{"sequence": pretty(cases[i]), "implementation": ERR.get(rexp[i], rexp[i])} for i in (0, 1, 2) if i < len(cases)]


def replay(ctx, path):
    from driver import sh
    d = json.load(open(path))
    seq = d.get("input", {}).get("sequence")
    if seq is None and d.get("disagreeing_cases"):
        seq = d["disagreeing_cases"][0].get("sequence")
    if seq is None:
        print("replay file names no sequence (kind=%s): %s" % (d.get("kind"), json.dumps(d)[:500]))
        return 1
    tmp = os.path.join(ctx.scratch, "replay.txt")
    doc = (d.get("input") or {}).get("document") or ""
    import re
    m = re.match(r"after contour (\d*) \(#\d+\), separator (\d)", doc)
    open(tmp, "w").write(seq + "\n" + ("%s %s\n" % (m.group(1), m.group(2)) if m else ""))
    if m:
        print("document: first contour", pretty(m.group(1)), "separator", m.group(2))
    rc, o = sh([ctx.harness, "c11", "--replay", tmp, "--out", ctx.scratch])
    print("sequence:", pretty(seq))
    for ln in o.split():
        print("implementation:", ERR.get(ln, ln))
    return 0
