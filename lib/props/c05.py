"""C05 — files are UFO 3 as an independent implementation reads and writes it."""
import collections
import json
import os
import random
import shutil

META = {
    "level": "proof",
    "design_ref": "DESIGN.md section 8, C05; Appendix A Save / Load",
    "technique": "Coq proof over a font-level model of Font::save_impl / Font::load_impl and a specification-side "
                 "writer / reader over the same abstract file tree + differential runs against the implementation and "
                 "an independent Python reader / writer (expat)",
    "text": "Kernel-checked theorems, for ALL fonts, write options and conforming-writer choices: norad's writer is the "
            "specification writer making legal choices (C05_norad_writes_spec), the specification reader inverts every "
            "conforming writer and therefore finds the saved values in what norad wrote (C05_spec_read_spec_write, "
            "C05_independent_reader_finds_saved_values), norad loads what any conforming writer produced with the default "
            "layer first and the others in file order (C05_norad_reads_spec, C05_layer_order), both readers agree on every "
            "format-3 tree (C05_readers_agree); file and key names of the source = names of the specification (anchor). "
            "The model is tied to the code on every run: model tree = saved tree (file set, layercontents order, contents, "
            "dictionary keys, object libs, feature bytes) and model load = Font::load on trees written by the independent "
            "writer; the property itself is evaluated with lib/ufoio.py in both directions on every generated font.",
    "note": "The theorems are parametric in the per-part codecs and their round-trip laws (sig_ok: to be discharged by "
            "C02/C12 glif, C13/C14 font info and numbers, C15 groups/kerning, plist/XML layer hypotheses); an instance "
            "of the laws is exhibited (toy_ok). Bytes <-> values (quick-xml, plist crate) are exercised by the "
            "independent reader on every case, not proved.",
}
COQ_TARGETS = ["Props/C05.vo", "Run/C05.vo"]
PROPS_FILES = ["C05"]
TRUSTED = [
    "model Model/FontRT.v hand-written from src/font.rs, src/layer.rs, src/fontinfo.rs (object libs); tied by the "
    "correspondence run (save: tree; load: loaded font skeleton) and by the file-name anchors",
    "lib/ufoio.py: independent reader/writer on Python's expat (written from the UFO 3 specification)",
    "laws sig_ok of the per-part codecs: hypotheses of every theorem, instance toy_ok; discharged per part by C02, C12, "
    "C13, C14, C15 and the L1 plist/XML hypotheses (DESIGN section 3)",
    "Coq 8.16.1 kernel and vm_compute; no axioms; no extraction",
]
ASSUMPTIONS = ["per-part codec laws (sig_ok S) are hypotheses, validated here only through the whole-font oracle",
               "byte-level rendering / escaping by quick-xml and the plist crate is exercised (expat, independent reader), not proved"]

KNOWN_WRITER = {  # class id -> (generator switch, which directions fail)
    "glyph_lib_linebreak": "glyph_lib_linebreaks", "note_blanks": "note_blanks",
    "note_cr": "cr_in_note", "attr_whitespace": "attr_ws",
}


# generator switches of repaired / harmless classes: part of the main stream (tiny and near-integer
# numbers, sub-normal advances, minor version with a foreign creator, CR in plist strings, empty contours)
MAIN_GEN = ["f13_meta", "cr_in_plist", "empty_contours", "f2_numbers", "subnormal_advance"]


def anchors(ctx):
    import anchors_font
    import driver
    return anchors_font.gallina(anchors_font.extract(driver.REPO), "C05")


def _load(p):
    with open(p, encoding="utf-8") as f:
        return json.load(f)


def _run_stream(ctx, fc, ufoio, tag, seed, count, gen, style_classes, known_ids, stats, corr, witness_font=None,
                fixed_style=None, rng_seed=None, fonts_file=None):
    """one stream of generated fonts through both directions.  gen: generator classes switched on;
    style_classes: writer classes switched on.  Failures are classified; outside the expected
    classes they are violations."""
    from driver import sh
    a_dir = os.path.join(ctx.scratch, "a_" + tag)
    cmd = [ctx.harness, "c05", "--out", a_dir, "--seed", str(seed), "--count", str(count)]
    if gen:
        cmd += ["--gen", ",".join(gen)]
    if witness_font:
        cmd += ["--font", witness_font]
        count = 1
    if fonts_file:
        cmd += ["--fonts", fonts_file]
    rc, o = sh(cmd, timeout=3000)
    if rc != 0:
        ctx.disagreements.append({"what": "harness c05 failed", "stream": tag, "output": o[-1500:]})
        return
    b_dir = os.path.join(ctx.scratch, "b_" + tag)
    os.makedirs(b_dir)
    fonts, styles = {}, {}
    for k in range(count):
        case = "case_%d" % k
        font = _load(os.path.join(a_dir, case, "font.json"))
        fonts[case] = font
        rs = rng_seed if rng_seed is not None else seed * 1000003 + k
        rng = random.Random(rs)
        style = ufoio.random_style(rng, **{c: True for c in style_classes})
        if fixed_style is not None:
            style = dict(fixed_style)
        style["__rng_seed__"] = rs
        styles[case] = style
        wd = os.path.join(b_dir, case)
        os.makedirs(wd)
        try:
            ufoio.write_ufo(font, os.path.join(wd, "w.ufo"), rng, style)
        except Exception as e:   # the independent writer must be able to express every valid font
            ctx.disagreements.append({"what": "independent writer failed", "stream": tag, "case": case, "error": repr(e),
                                      "font": font})
    rc, o = sh([ctx.harness, "c05", "--load", b_dir], timeout=3000)
    if rc != 0:
        ctx.disagreements.append({"what": "harness c05 --load failed", "stream": tag, "output": o[-1500:]})
        return

    def report(case, direction, diffs, extra=None):
        """classify the differences of one case in one direction"""
        font = fonts[case]
        outside = []
        for path, got, want in diffs:
            c = fc.classify_diff(font, path, got, want)
            if c is None:
                outside.append((path, got, want))
            else:
                stats["class_hits"][c] += 1
                if c in known_ids:
                    ctx.known_hits[c] = ctx.known_hits.get(c, 0) + 1
                else:
                    outside.append((path, got, want))
        if outside:
            v = {"direction": direction, "stream": tag, "seed": seed, "case": case,
                 "differences": [{"path": p, "got": fc.short(g), "want": fc.short(w)} for p, g, w in outside[:6]],
                 "font": font, "demand": "the values found equal the values of the font"}
            if extra:
                v.update(extra)
            ctx.violations.append(v)

    for case, font in fonts.items():
        cd = os.path.join(a_dir, case)
        wd = os.path.join(b_dir, case)
        stats["cases"] += 1
        # ---------------- norad writes, the independent reader reads
        errs = [e for e in ("build_error.txt", "save_error.txt", "load_error.txt") if os.path.exists(os.path.join(cd, e))]
        if errs:
            ctx.violations.append({"direction": "norad-writes", "stream": tag, "seed": seed, "case": case, "font": font,
                                   "error": errs[0] + ": " + open(os.path.join(cd, errs[0])).read()[:400],
                                   "demand": "a valid font is built, saved and loaded"})
            continue
        nufo = os.path.join(cd, "n.ufo")
        bad = fc.wellformed_errors(nufo)
        if bad:
            ctx.violations.append({"direction": "norad-writes", "stream": tag, "seed": seed, "case": case, "font": font,
                                   "not_wellformed": bad[:3], "demand": "every written file is well-formed XML"})
            continue
        # no two glyphs of a layer share a glif file, no two layers a directory (compared ignoring case)
        try:
            shared = []
            lcs = ufoio.read_plist_file(os.path.join(nufo, "layercontents.plist"), "layercontents.plist")["v"]
            dirs = [e["v"][1]["v"] for e in lcs]
            if len({d.lower() for d in dirs}) != len(dirs):
                shared.append(["layercontents.plist", dirs])
            for d in dirs:
                cp = ufoio.read_plist_file(os.path.join(nufo, d, "contents.plist"), "contents.plist")["v"]
                files = [v["v"] for v in cp.values()]
                if len({f.lower() for f in files}) != len(files):
                    shared.append([d + "/contents.plist", sorted(files)[:12]])
            if shared:
                ctx.violations.append({"direction": "norad-writes", "stream": tag, "seed": seed, "case": case, "font": font,
                                       "shared_files": shared,
                                       "demand": "every glyph of a layer has its own glif file, every layer its own directory"})
                continue
        except (ufoio.UfoError, OSError, KeyError, IndexError, TypeError):
            pass        # reported by the independent reader below
        try:
            r = ufoio.read_ufo(nufo)
        except (ufoio.UfoError, OSError) as e:
            ctx.violations.append({"direction": "norad-writes", "stream": tag, "seed": seed, "case": case, "font": font,
                                   "independent_reader_rejects": str(e)[:400],
                                   "demand": "an independent reader of the specification reads what norad wrote"})
            r = None
        if r is not None:
            d, obs = fc.equal(r, font)
            for k2, n in obs.items():
                stats["observations"][k2] += n
            report(case, "norad-writes/independent-reader-reads", d)
            stats["writer_checks"] += 1
        # ---------------- the independent writer writes, norad reads
        wufo = os.path.join(wd, "w.ufo")
        if not os.path.isdir(wufo):
            continue
        surface = [c for c in fc.SURFACE_CLASSES if styles[case].get(c)]
        try:
            rb = ufoio.read_ufo(wufo)
            d1, _ = fc.equal(rb, font, strip="both", tol=0.0, ignore_creator=False)
            if d1 and not surface:
                ctx.disagreements.append({"what": "independent writer and reader are not inverse (tooling)", "case": case,
                                          "stream": tag, "differences": [(p, fc.short(x), fc.short(y)) for p, x, y in d1[:4]]})
        except (ufoio.UfoError, OSError) as e:
            if not surface:
                ctx.disagreements.append({"what": "independent reader rejects the independent writer's output (tooling)",
                                          "case": case, "stream": tag, "error": str(e)[:300]})
        loaded = None
        if os.path.exists(os.path.join(wd, "loaded.json")):
            loaded = _load(os.path.join(wd, "loaded.json"))
            d, obs = fc.equal(loaded, font, ignore_creator=False)
            for k2, n in obs.items():
                stats["observations"][k2] += n
            if surface and d:
                # a legal surface form norad mis-reads (e.g. CDATA note dropped): class = the surface classes switched on
                for c in surface:
                    stats["class_hits"][c] += 1
                if all(c in known_ids for c in surface):
                    for c in surface:
                        ctx.known_hits[c] = ctx.known_hits.get(c, 0) + 1
                else:
                    report(case, "independent-writer-writes/norad-reads", d, {"style": styles[case]})
            else:
                report(case, "independent-writer-writes/norad-reads", d, {"style": styles[case]})
            # layer order, explicitly: default layer first, the others in the order of layercontents.plist
            try:
                lc = fc.read_tree(wufo)["lcontents"][1]
                want = [n for n, dd in lc if dd == "glyphs"] + [n for n, dd in lc if dd != "glyphs"]
                got = [l["name"] for l in loaded["layers"]]
                stats["layer_order_checks"] += 1
                if [dd for _, dd in lc].index("glyphs") not in (0, len(lc) - 1):
                    stats["default_layer_in_the_middle"] += 1
                if got != want:
                    ctx.violations.append({"direction": "independent-writer-writes/norad-reads", "stream": tag, "seed": seed,
                                           "case": case, "font": font, "style": styles[case],
                                           "layercontents": lc, "loaded_layer_order": got,
                                           "demand": "default layer first, the other layers in their file order"})
            except Exception as e:
                ctx.disagreements.append({"what": "cannot read layercontents.plist of the independent writer's tree",
                                          "case": case, "error": repr(e)})
            stats["reader_checks"] += 1
        else:
            err = open(os.path.join(wd, "load_error.txt")).read() if os.path.exists(os.path.join(wd, "load_error.txt")) else "?"
            if surface:
                for c in surface:
                    stats["class_hits"][c] += 1
                if all(c in known_ids for c in surface):
                    for c in surface:
                        ctx.known_hits[c] = ctx.known_hits.get(c, 0) + 1
                    continue
            ctx.violations.append({"direction": "independent-writer-writes/norad-reads", "stream": tag, "seed": seed,
                                   "case": case, "font": font, "style": styles[case], "norad_load_error": err[:500],
                                   "demand": "norad loads what a conforming writer produced"})
        # ---------------- correspondence with the Coq model (main stream only)
        if corr is not None:
            try:
                built = _load(os.path.join(cd, "built.json"))
                tn = fc.read_tree(nufo)
                corr["save"].append((case, fc.font_term(font, built), fc.e_ok(fc.e_tree(tn))))
                if r is not None:
                    corr["spec_read"].append((case, fc.tree_term(nufo), fc.e_ok(fc.e_font(fc.font_obs(r)))))
                if loaded is not None and not surface:
                    corr["load"].append((case, fc.tree_term(wufo), fc.e_ok(fc.e_font(fc.font_obs(loaded)))))
            except Exception as e:
                ctx.disagreements.append({"what": "cannot build the correspondence case", "case": case, "error": repr(e)})
    corr_dirs = (a_dir, b_dir)
    return fonts, corr_dirs


def run(ctx, known, built):
    import fontrt_corr as fc
    import ufoio
    known_ids = {k["id"] for k in known}
    stats = {"cases": 0, "writer_checks": 0, "reader_checks": 0, "layer_order_checks": 0, "default_layer_in_the_middle": 0,
             "class_hits": collections.Counter(), "observations": collections.Counter()}
    thorough = ctx.thorough()
    n_main = 6000 if thorough else 360
    n_class = 150 if thorough else 14
    corr = {"save": [], "load": [], "spec_read": []}
    # corpus first: witnesses of the known classes (must still fail inside their class)
    cdir = os.path.join(os.path.dirname(os.path.dirname(os.path.dirname(os.path.abspath(__file__)))), "corpus", "C05")
    stale = []
    if os.path.isdir(cdir):
        for fn in sorted(os.listdir(cdir)):
            if not fn.endswith(".json"):
                continue
            w = _load(os.path.join(cdir, fn))
            before = dict(ctx.known_hits), sum(stats["class_hits"].values())
            fpath = os.path.join(ctx.scratch, "witness_" + fn)
            json.dump(w["font"], open(fpath, "w"))
            _run_stream(ctx, fc, ufoio, "w_" + fn[:-5], ctx.seed, 1, [], [c for c in w.get("style_classes", [])],
                        known_ids, stats, None, witness_font=fpath, fixed_style=w.get("style"), rng_seed=w.get("rng_seed", 1))
            if sum(stats["class_hits"].values()) == before[1] and not str(w.get("class", "")).startswith("regression"):
                stale.append(fn)
    ctx.note("witnesses done")
    # main stream: valid fonts outside every known class (f13_meta / cr_in_plist are repaired or harmless)
    main = _run_stream(ctx, fc, ufoio, "main", ctx.seed, n_main, MAIN_GEN, [], known_ids, stats, corr)
    ctx.note("main stream done")
    # main-stream fonts with groups of 2..5 layer / glyph names that collapse to one directory / file stem
    # (illegal characters, case + underscore, trailing period or space; stems with and without upper-case
    # letters): both directions again -- the independent reader must find every glyph with its own data
    from props import c01 as c01mod
    hr = random.Random(ctx.seed * 131 + 3)
    base = [main[0][k] for k in sorted(main[0], key=lambda c: int(c.split("_")[1]))][:(1200 if thorough else 60)] if main else []
    cf = c01mod.history_fonts(base, hr, long_names=False)   # (long names: C01 / C07)
    if cf:
        ffile = os.path.join(ctx.scratch, "collisions.json")
        json.dump(cf, open(ffile, "w"))
        _run_stream(ctx, fc, ufoio, "collisions", ctx.seed, len(cf), [], [], known_ids, stats, corr, fonts_file=ffile)
    ctx.note("name collisions done")
    # the known classes, one stream each
    for cid, sw in sorted(KNOWN_WRITER.items()):
        _run_stream(ctx, fc, ufoio, "g_" + sw, ctx.seed + 17, n_class, [sw] + MAIN_GEN, [], known_ids, stats, None)
    for c in fc.SURFACE_CLASSES:
        _run_stream(ctx, fc, ufoio, "s_" + c, ctx.seed + 29, max(4, n_class // 2), MAIN_GEN, [c], known_ids, stats, None)
    ctx.note("class streams done")
    # ---------------- correspondence: model (Coq) vs implementation
    nd = 0
    if not built:
        ctx.disagreements.append({"what": "Coq development does not build; correspondence not evaluated"})
    else:
        for name, fn in (("save", "c_save"), ("load", "c_load"), ("spec_read", "c_spec_read")):
            items = corr[name]
            res = fc.eval_checks(ctx, name, fn, [(t, e) for _, t, e in items], shard=max(8, len(items) // 16 + 1))
            bad = [(items[i][0], r) for i, r in enumerate(res) if r is not True]
            nd += len(bad)
            for case, r in bad[:10]:
                # second pass: print the model's value for the report
                idx = [c for c, _, _ in items].index(case)
                jfn = {"c_save": "j_save", "c_load": "j_load", "c_spec_read": "j_spec_read"}[fn]
                mv = fc.eval_cases(ctx, name + "_dbg_" + case, jfn, [items[idx][1]])[0]
                ctx.disagreements.append({"what": "model and implementation differ (%s)" % name, "case": case, "seed": ctx.seed,
                                          "coq_check": r if r is not False else "false",
                                          "model_value": fc.short(mv, 3000), "implementation_value": items[idx][2][:3000]})
            ctx.obligation("correspondence:C05 %s (%d cases)" % (name, len(items)), not bad and len(items) > 0,
                           "%d of %d cases differ" % (len(bad), len(items)))
    ctx.note("correspondence done")
    for x in ctx.disagreements[:3]:
        ctx.note("disagreement: " + json.dumps(x, ensure_ascii=False, default=str)[:2500])
    total = stats["writer_checks"] + stats["reader_checks"]
    ctx.cov.update({
        "evaluations": total,
        "distinct_nontrivial": stats["cases"],
        "rule": "every generated font (distinct by construction of the seeded generator) goes through both directions; "
                "non-trivial = all of them (each has at least layers, metainfo and randomised optional parts).",
        "exhaustive": False,
        "traces_validated_against_impl": sum(len(v) for v in corr.values()),
        "input_distribution": {"main_stream_fonts": n_main, "per_known_class": n_class,
                               "layer_order_checks": stats["layer_order_checks"],
                               "default_layer_neither_first_nor_last": stats["default_layer_in_the_middle"],
                               "class_hits": dict(stats["class_hits"]), "observations": dict(stats["observations"]),
                               "stale_witnesses": stale},
        "correspondence_cases": {k: len(v) for k, v in corr.items()}, "correspondence_disagreements": nd,
    })
    ctx.samples += [{"stream": "main", "case": c, "check": "c_save"} for c, _, _ in corr["save"][:2]]
    # de-duplicate violations: smallest font first
    ctx.violations.sort(key=lambda v: len(json.dumps(v.get("font", ""))))


def replay(ctx, path):
    import fontrt_corr as fc
    import ufoio
    d = _load(path)
    v = d.get("input") or {}
    font = v.get("font")
    if font is None:
        print("replay file has no font (kind=%s): %s" % (d.get("kind"), json.dumps(d)[:800]))
        return 1
    fpath = os.path.join(ctx.scratch, "replay_font.json")
    json.dump(font, open(fpath, "w"))
    stats = {"cases": 0, "writer_checks": 0, "reader_checks": 0, "layer_order_checks": 0, "default_layer_in_the_middle": 0,
             "class_hits": collections.Counter(), "observations": collections.Counter()}
    st = v.get("style")
    sc = [c for c in fc.SURFACE_CLASSES if (st or {}).get(c)]
    _run_stream(ctx, fc, ufoio, "replay", d.get("seed", 1), 1, [], sc, set(), stats, None, witness_font=fpath,
                fixed_style=st, rng_seed=(st or {}).get("__rng_seed__"))
    print("violations on replay:", len(ctx.violations))
    for x in ctx.violations[:3]:
        x = dict(x)
        x.pop("font", None)
        print(json.dumps(x, indent=1, ensure_ascii=False)[:2000])
    return 0
