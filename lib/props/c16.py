"""C16 — data and image stores keep their invariants and their bytes."""
import glob
import json
import os
import re

META = {
    "level": "proof",
    "design_ref": "DESIGN.md section 8, C16; Appendix A 'Stores'",
    "technique": "Coq proof (invariant by induction over all operation histories from the empty and from a lazily "
                 "loaded store; accepts <-> legal; lazy-read and save theorems over an abstract file system) + "
                 "anchors regenerated from the source + exhaustive and structured model/implementation correspondence",
    "text": "Kernel-checked theorems over a Gallina model of Store<Data>/Store<Image> (keys as texts compared through "
            "Path::components(), lazy cells, validate_entry as coded) and of the store part of Font::save: for ALL "
            "histories of insert/remove/get/clear/iter/contains with arbitrary keys, contents and disk states, from the "
            "empty store and from any listing of a well-formed tree, keys stay non-empty, relative, plain, prefix-free in "
            "both directions (images: one component, PNG signature); insert accepts exactly the legal entries and a "
            "rejected insert changes nothing; a lazy read returns the bytes on disk at first access and is stable; "
            "save refuses before any effect if an entry is in error, otherwise writes every entry verbatim under "
            "data/ and images/ and nothing else there. The model is tied to the code on every run by anchors "
            "(signature bytes, directory names, order of checks, force-before-wipe) and by running every history "
            "up to length 4 (data) / 3 (images) over a 12-key alphabet plus thousands of lazily loaded fonts with "
            "changing disks through the real crate and the model.",
    "note": "Trusted: Coq kernel + VM; the hand-written model (tied by correspondence, not by proof); std::path "
            "(components, PathBuf::push) and the file system (abstracted as Store.afs / Store.disk; names the OS "
            "cannot hold — NUL byte, longer than NAME_MAX — are outside the model and only probed).",
}
COQ_TARGETS = ["Props/C16.vo", "Run/C16.vo"]
PROPS_FILES = ["C16"]
TRUSTED = ["model Model/Store.v hand-written from src/datastore.rs, src/font.rs (store part of save_impl / load), "
           "src/glyph/mod.rs (Image::new incl. the UTF-8 check of 2bd9911); tied by anchors and by the exhaustive + structured correspondence",
           "Coq 8.16.1 kernel and vm_compute; no axioms; no extraction",
           "lib/props/c16.py anchor extraction (regular expressions over the three source files)"]
ASSUMPTIONS = ["std::path::Path::components / PathBuf::push behave as modelled (exercised on every key spelling of the runs)",
               "the file system behaves like the abstract one: a directory tree has distinct plain names (wf_disk); "
               "create_dir_all/write fail only on file/directory clashes",
               "OS-level name limits are outside the model: a key component containing a NUL byte or longer than "
               "NAME_MAX is accepted by insert and makes Font::save fail after the target was wiped (probed on every "
               "run, reported under coverage.os_level_probe, not judged)",
               "which of several error entries Font::save names, and which cells it forces before refusing, depends on "
               "HashMap order; only the refusal and the untouched disk are compared"]

ERR = {0: "Ok", 1: "DirUnderFile", 2: "EmptyPath", 3: "NotPlainFileOrDir", 4: "PathIsAbsolute",
       5: "InvalidPathComponent", 6: "NotPlainFile", 7: "Subdir", 8: "InvalidImage", 9: "Io", 10: "PathNotUnicode"}
CODE = {v: k for k, v in ERR.items()}
KEYS = ["a", "a/b", "a/b/c", "b", "a/", "./a", "a//b", "..", "../x", "/a", "", "A"]


# ------------------------------------------------------------------------------------ anchors
def _fn_body(src, header_re, start=0):
    m = re.compile(header_re).search(src, start)
    if not m:
        raise RuntimeError("anchor: cannot find %s" % header_re)
    i = src.index("{", m.end() - 1) if src[m.end() - 1] != "{" else m.end() - 1
    depth = 0
    j = i
    while j < len(src):
        if src[j] == "{":
            depth += 1
        elif src[j] == "}":
            depth -= 1
            if depth == 0:
                return src[i:j + 1], i
        j += 1
    raise RuntimeError("anchor: unbalanced body for %s" % header_re)


def _strip_rust_comments(s):
    return re.sub(r"//[^\n]*", "", s)


def _nlist(xs):
    return "[" + ";".join(str(x) for x in xs) + "]"


def anchors(ctx):
    import driver
    repo = driver.REPO
    ds = open(os.path.join(repo, "src", "datastore.rs")).read()
    ft = open(os.path.join(repo, "src", "font.rs")).read()
    gm = open(os.path.join(repo, "src", "glyph", "mod.rs")).read()
    # the two validate_entry bodies
    idata = ds.index("impl DataType for Data")
    iimg = ds.index("impl DataType for Image")
    vd, _ = _fn_body(ds, r"fn validate_entry\s*\(", idata)
    vi, _ = _fn_body(ds, r"fn validate_entry\s*\(", iimg)
    if ds.index(vd) > iimg:
        raise RuntimeError("anchor: Data::validate_entry not found before impl DataType for Image")

    def errs(body):
        body = _strip_rust_comments(body)
        out = []
        for m in re.finditer(r"Err\(\s*StoreError::(\w+)", body):
            if m.group(1) not in CODE:
                raise RuntimeError("anchor: unknown StoreError variant %s" % m.group(1))
            out.append(CODE[m.group(1)])
        return out
    m = re.search(r"starts_with\(\s*&\[([^\]]*)\]", _strip_rust_comments(vi))
    if not m:
        raise RuntimeError("anchor: PNG signature literal not found in Image::validate_entry")
    sig = [int(re.sub(r"u8$", "", x.strip())) for x in m.group(1).split(",") if x.strip()]

    def static(name):
        mm = re.search(r"static\s+%s\s*:\s*&str\s*=\s*\"([^\"]*)\"" % name, ft)
        if not mm:
            raise RuntimeError("anchor: static %s not found" % name)
        return [ord(c) for c in mm.group(1)]
    # Image::new of glyph/mod.rs
    iim = gm.index("impl Image")
    gnew, _ = _fn_body(gm, r"pub fn new\s*\(", iim)
    # order of effects in save_impl
    sv, _ = _fn_body(ft, r"fn save_impl\s*\(")
    sv = _strip_rust_comments(sv)
    marks = [r"self\.data\.iter\(\)\.chain\(self\.images\.iter\(\)\)", r"FontWriteError::InvalidStoreEntry",
             r"fs::remove_dir_all\(path\)", r"fs::create_dir\(path\)",
             r"for \(data_path, contents\) in self\.data\.iter\(\)", r"fs::create_dir_all\(destination_parent\)",
             r"fs::write\(&destination, &\*data\)",
             r"fs::create_dir\(&images_dir\)", r"for \(image_path, contents\) in self\.images\.iter\(\)"]
    pos = []
    for mk in marks:
        mm = re.search(mk, sv)
        if not mm:
            raise RuntimeError("anchor: save_impl no longer contains %s" % mk)
        pos.append(mm.start())
    rank = [sorted(pos).index(p) for p in pos]
    # insert stores the key rebuilt from its components, after validation
    ins, _ = _fn_body(ds, r"pub fn insert\s*\(")
    ins = _strip_rust_comments(ins)
    ipos = [ins.find("validate_entry("), ins.find("path.components().collect()"), ins.find("self.items.insert(path")]
    rebuilt = 1 if (-1 not in ipos and ipos == sorted(ipos)) else 0
    # get loads with the caller's path, only when NotLoaded
    gt, _ = _fn_body(ds, r"pub fn get\s*\(")
    gt = _strip_rust_comments(gt)
    lazy = 1 if re.search(r"if matches!\(\*cell\.borrow\(\), Item::NotLoaded\)\s*\{\s*\*cell\.borrow_mut\(\)\s*=\s*"
                          r"Self::load_item\(&self\.impl_type, &self\.ufo_root, path, &self\.items\)", gt) else 0
    return ("Require Import Norad.Model.Base.\nOpen Scope N_scope.\n"
            "Definition png_sig : list N := %s.\n"
            "Definition data_dir : list N := %s.\nDefinition images_dir : list N := %s.\n"
            "Definition data_checks : list N := %s.\nDefinition image_checks : list N := %s.\n"
            "Definition glyph_image_checks : list N := %s.\n"
            "Definition save_order : list N := %s.\n"
            "Definition insert_stores_rebuilt_key : N := %d.\n"
            "Definition get_loads_once_with_callers_path : N := %d.\n"
            % (_nlist(sig), _nlist(static("DATA_DIR")), _nlist(static("IMAGES_DIR")), _nlist(errs(vd)),
               _nlist(errs(vi)), _nlist(errs(gnew)), _nlist(rank), rebuilt, lazy))


# ------------------------------------------------------------------------------------ helpers
def chunks(s, k=1000):
    return "[" + ";".join('"%s"' % s[i:i + k] for i in range(0, len(s), k)) + "]"


def subtree_size(n, rem):
    return sum(n ** i for i in range(rem + 1))


def decode(n, rem, j):
    """operation indices of the j-th history (pre-order) below a prefix, branching n, depth rem"""
    out = []
    while j > 0:
        j -= 1
        s = subtree_size(n, rem - 1)
        out.append(j // s)
        j %= s
        rem -= 1
    return out


def describe(kind, ops):
    res = []
    for i in ops:
        if kind == 0:
            res.append("insert `%s`" % KEYS[i] if i < 12 else ("remove `%s`" % KEYS[i - 12] if i < 24 else "clear"))
        else:
            res.append("insert `%s` %s" % (KEYS[i // 3], ["png", "non-png", "empty"][i % 3]) if i < 36
                       else ("remove `%s`" % KEYS[i - 36] if i < 48 else "clear"))
    return res


def dec3(s):
    return (ord(s[0]) - 48) * 4096 + (ord(s[1]) - 48) * 64 + (ord(s[2]) - 48)


def show_digest(kind, d):
    r, st = divmod(d, 8000)
    canon = ["a", "a/b", "a/b/c", "b", "A"] if kind == 0 else ["a", "b", "A"]
    if st >= 100000:
        return {"result": ERR.get(r, r), "state": "contains a key or content outside the canonical list"}
    keys = {}
    for i, k in enumerate(canon):
        v = (st // 6 ** i) % 6
        if v:
            keys[k] = "content of operation %d" % (v - 1)
    return {"result": ERR.get(r, r), "state": keys}


HEADER = ("Require Import Norad.Run.RunBase Norad.Run.C16 Norad.Model.Store.\nOpen Scope N_scope.\n"
          "Open Scope string_scope.\nSet Printing Width 100000. Set Printing Depth 10000000.\n")


def run(ctx, known, built):
    from driver import sh, coq_values, parse_term, VERIF
    out = os.path.join(ctx.scratch, "c16")
    os.makedirs(out)
    corpus = sorted(glob.glob(os.path.join(VERIF, "corpus", "C16", "*.json")))
    import time
    # string literals of norad's sources that could be file names: extra entries for the name pools
    import driver
    lits = set()
    for root, _, fs in os.walk(os.path.join(driver.REPO, "src")):
        for f in fs:
            if f.endswith(".rs"):
                for m in re.finditer(r'"((?:[^"\\\n]|\\.){1,40})"', open(os.path.join(root, f), errors="replace").read()):
                    t = m.group(1)
                    if "\\" not in t and "/" not in t and t not in (".", "..") and all(32 <= ord(c) < 127 for c in t):
                        lits.add(t)
    open(os.path.join(out, "names.txt"), "w").write("\n".join(sorted(lits)) + "\n")
    t0 = time.time()
    rc, o = sh([ctx.harness, "c16", "--tier", ctx.tier, "--seed", str(ctx.seed), "--out", out] + corpus, timeout=3000)
    ctx.timings["harness_run"] = round(time.time() - t0, 1)
    if rc != 0:
        ctx.disagreements.append({"what": "harness c16 failed", "output": o[-2000:]})
        return
    summ = json.load(open(os.path.join(out, "summary.json")))
    # ---- the property's own clauses on the implementation
    for f in sorted(summ.pop("failures"), key=lambda f: len(f.get("ops", []))):
        ctx.violations.append(f)
    files = []
    meta = {}
    # ---- part A: exhaustive shards
    nfiles = 48 if not ctx.thorough() else 160
    for kind, name, n in ((0, "data", 25), (1, "image", 49)):
        lines = [l for l in open(os.path.join(out, "exh_%s.txt" % name)).read().split("\n") if l]
        shards = []
        for l in lines:
            pre, rem, dig = l.split(" ")
            shards.append(([int(x) for x in pre.split(",")] if pre else [], int(rem), dig))
        per = max(1, (len(shards) + nfiles - 1) // nfiles)
        for b in range(0, len(shards), per):
            grp = shards[b:b + per]
            vf = os.path.join(out, "exh_%s_%d.v" % (name, b))
            with open(vf, "w") as f:
                f.write(HEADER)
                f.write("Eval vm_compute in diff_shards %s [%s].\n" % (
                    "KData" if kind == 0 else "KImage",
                    ";".join("(%s, %d%%nat, %s)" % ("[" + ";".join(map(str, p)) + "]", r, chunks(d)) for p, r, d in grp)))
            files.append(vf)
            meta[vf] = ("exh", kind, n, grp)
    # ---- part B: world cases
    wl = [l for l in open(os.path.join(out, "world_cases.txt")).read().split("\n") if l]
    wj = [l for l in open(os.path.join(out, "world_cases.jsonl")).read().split("\n") if l]
    per = 250
    for b in range(0, len(wl), per):
        vf = os.path.join(out, "world_%d.v" % b)
        with open(vf, "w") as f:
            f.write(HEADER.replace("Open Scope string_scope.\n", ""))
            f.write("Definition cases : list (wcase * tm) := [\n" + ";\n".join(wl[b:b + per]) + "].\n")
            f.write("Eval vm_compute in mismatches run_case cases.\n")
        files.append(vf)
        meta[vf] = ("world", b)
    gl = open(os.path.join(out, "glyph_image.txt")).read().strip()
    vf = os.path.join(out, "glyph_image.v")
    with open(vf, "w") as f:
        f.write(HEADER.replace("Open Scope string_scope.\n", ""))
        f.write("Eval vm_compute in mismatches run_glyph_image [%s].\n" % gl)
    files.append(vf)
    meta[vf] = ("glyph",)
    if not built:
        ctx.disagreements.append({"what": "Coq development does not build; correspondence not evaluated"})
        res = {}
    else:
        t1 = time.time()
        res = ctx.coq_eval_many(files, timeout=2400)
        ctx.timings["model_evaluation"] = round(time.time() - t1, 1)
    ok_shards = 0
    ndis = [0]

    def disagree(d):
        ndis[0] += 1
        if len(ctx.disagreements) < 200:
            ctx.disagreements.append(d)
    for vf, (rc, o) in sorted(res.items()):
        m = meta[vf]
        if rc != 0:
            ctx.disagreements.append({"what": "correspondence shard failed to evaluate", "shard": os.path.basename(vf),
                                      "output": o[-800:]})
            continue
        vals = coq_values(o)
        if len(vals) != 1:
            ctx.disagreements.append({"what": "unparsable shard output", "shard": os.path.basename(vf), "output": o[-800:]})
            continue
        v = parse_term(vals[0])
        ok_shards += 1
        if m[0] == "exh":
            _, kind, n, grp = m
            for (pre, rem, dig), diffs in zip(grp, v):
                seen = set()
                for (ci, mc, ec) in diffs:
                    j = ci // 3
                    if j in seen:
                        continue
                    seen.add(j)
                    ops = pre + decode(n, rem, j)
                    # the model's digest is not printed in full (only differing characters); re-derive what we can
                    disagree({
                        "what": "model and implementation differ on a history over the empty store",
                        "part": "exhaustive", "kind": kind, "ops": ops, "history": describe(kind, ops),
                        "implementation": show_digest(kind, dec3(dig[3 * j:3 * j + 3])) if 3 * j + 3 <= len(dig) else "missing"})
        elif m[0] == "world":
            for (idx, mt) in v:
                c = json.loads(wj[m[1] + idx])
                c["what"] = "model and implementation differ on a loaded-font history"
                c["case_index"] = m[1] + idx
                c["model_observations"] = repr(mt)[:3000]
                c["implementation_observations"] = wl[m[1] + idx].rsplit("|}, ", 1)[-1][:3000]
                disagree(c)
        else:
            for (idx, mt) in v:
                ctx.disagreements.append({"what": "glyph::Image::new differs from the model", "model": repr(mt), "case": gl[:600]})
    ctx.obligation("correspondence:C16 (%d shards)" % len(files), ok_shards == len(files) and not ctx.disagreements,
                   "model and implementation differ")
    ea, eb = summ["exhaustive_data"], summ["exhaustive_image"]
    total = ea["histories"] + eb["histories"] + summ["world_cases"]
    ctx.cov.update({
        "evaluations": total,
        "distinct_nontrivial": ea["accepted_last_op"] + eb["accepted_last_op"] + summ["world_stats"].get("lazy_first_reads", 0)
        + summ["world_stats"].get("save_ok", 0) + summ["world_stats"].get("save_refused", 0),
        "rule": "Part A: every history of length <= %d (data store, 25 operations: insert/remove of 12 key spellings, clear) "
                "and <= %d (image store, 49 operations: 12 spellings x {PNG, non-PNG, empty}, remove, clear) on an empty "
                "store, compared on the result of the last operation and on the whole store through iter() (key text and "
                "content); distinct by construction. Part B: %d fonts loaded from generated data/ and images/ trees (files, "
                "nested and empty directories, symlinks, image sub-directories, absent directories), %d operations "
                "(insert/remove/get/clear/iter/contains_key with respelled keys, the trees rewritten between operations), "
                "ending in Font::save (fresh target with stale content, or in place) and a snapshot; every operation's result, "
                "the key list after it, and the written tree are compared with the model. Non-trivial = histories whose last "
                "operation was accepted (A) + first lazy reads + saves (B)."
                % (ea["depth"], eb["depth"], summ["world_cases"], summ["world_operations"]),
        "exhaustive": True,
        "exhaustive_scope": "all histories of length <= %d (data) / <= %d (images) over the 12-key alphabet on an empty store"
                            % (ea["depth"], eb["depth"]),
        "input_distribution": summ,
        "os_level_probe": summ.get("os_level_probe"),
        "traces_validated_against_impl": total,
        "disagreeing_cases_total": ndis[0],
    })
    ctx.disagreements.sort(key=lambda d: len(d.get("ops", [])) if isinstance(d, dict) else 0)
    for l in wj[:3]:
        c = json.loads(l)
        ctx.samples.append({"data_tree": c["dd"], "images_tree": c["di"], "operations": len(c["ops"])})


def replay(ctx, path):
    from driver import sh
    d = json.load(open(path))
    inp = d.get("input")
    if inp is None and d.get("disagreeing_cases"):
        inp = d["disagreeing_cases"][0]
    if not isinstance(inp, dict) or "ops" not in inp:
        print("replay file names no history (kind=%s): %s" % (d.get("kind"), json.dumps(d)[:800]))
        return 1
    tmp = os.path.join(ctx.scratch, "replay.json")
    json.dump(inp, open(tmp, "w"))
    if inp.get("what"):
        print("reported:", inp["what"])
    rc, o = sh([ctx.harness, "c16", "--replay", tmp, "--out", ctx.scratch])
    print(o)
    return 0
