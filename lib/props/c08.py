"""C08 — save validates before it destroys; saving in place keeps lazy data."""
import collections
import json
import os

META = {
    "level": "proof",
    "design_ref": "DESIGN.md section 8, C08; section 7 Fs.v; Appendix A 'Save'",
    "technique": "Coq proof over an abstract file system (std++ gmap) of the step-list model of Font::save_impl "
                 "+ effect-order anchor regenerated from the source + model/implementation correspondence on "
                 "sandbox snapshots",
    "text": "Kernel-checked theorems about the model of Font::save_impl / Layer::save_with_options: for EVERY font "
            "of each of the five refusal kinds, EVERY target path and EVERY prior file system the save returns the "
            "matching error and the file system unchanged (also when a not-yet-loaded store entry turns out to be "
            "unreadable); any save that mutates anything has passed all checks; a successful save over the directory "
            "the stores were opened on keeps every data and image file, whatever was accessed before and whatever "
            "else was edited. The model IS the interpretation of a step list that is compared on every run with the "
            "effect-order skeleton regenerated from font.rs/layer.rs/glyph/mod.rs (checks, store forcing, "
            "remove_dir_all/create_dir/write calls, guards, error variants, in source order), and its behaviour is "
            "compared with the real Font::save on generated scenarios (outcome variant + complete sandbox snapshot).",
    "note": "Trusted: Coq kernel + VM; the abstraction of a real Font to font_abs done by the harness (emptiness of "
            "parts, layer/glif paths, store cell states); std::fs behaving like the abstract file system (no "
            "symlinks, permissions, I/O faults); file contents are opaque tokens (FNV hash of the bytes).",
}
COQ_TARGETS = ["Props/C08.vo", "Run/SaveRun.vo"]
PROPS_FILES = ["C08"]
TRUSTED = [
    "model Model/Save.v hand-written from src/font.rs (save_impl), src/layer.rs (save_with_options), "
    "src/datastore.rs (cell forcing); tied by the effect-order anchor and the snapshot correspondence",
    "abstract file system Model/Fs.v: std::fs is assumed to behave like it (validated by the snapshots of every case)",
    "harness abstraction of a real Font (harness/src/save_common.rs) and the recipe-side flags groups_ok / info_valid",
    "Coq 8.16.1 kernel and vm_compute; no axioms; no extraction",
]
ASSUMPTIONS = [
    "crash or I/O failure in the middle of the write phase is outside the property",
    "validate_groups / FontInfo::validate verdicts enter the model as booleans (their logic is C15 / C13)",
]
REFUSALS = ["Downgrade", "PreexistingObjLibs", "InvalidGroups", "InvalidFontInfo", "InvalidStoreEntry"]


def anchors(ctx):
    import anchors_save
    import driver
    return anchors_save.gen_file(anchors_save.save_skeletons(driver.REPO))


def run(ctx, known, built):
    from driver import sh
    import save_common
    out = os.path.join(ctx.scratch, "c08")
    os.makedirs(out)
    rc, o = sh([ctx.harness, "c08", "--tier", ctx.tier, "--seed", str(ctx.seed), "--out", out], timeout=3000)
    if rc != 0:
        ctx.disagreements.append({"what": "harness c08 failed", "output": o[-2000:]})
        return
    lines = open(os.path.join(out, "cases.txt")).read().split("\n")
    if lines and lines[-1] == "":
        lines.pop()
    rows = [json.loads(l) for l in open(os.path.join(out, "oracle.jsonl")) if l.strip()]
    mism, nshards, okshards = save_common.eval_cases(ctx, out, lines, built, "c08")
    for (i, outcome, tree) in mism:
        r = rows[i]
        ctx.disagreements.append({
            "what": "model of Font::save differs from the implementation (outcome or resulting tree)",
            "seed": ctx.seed, "index": r["i"], "scenario": r,
            "model_outcome": save_common.fmt_outcome(outcome),
            "implementation_outcome": r["obs"],
            "model_tree": sorted(save_common.tree_paths(tree).items())[:200],
        })
    for r in rows:
        if not r["oracle_ok"]:
            ctx.violations.append({
                "seed": ctx.seed, "index": r["i"], "scenario": r, "failed": r["why"],
                "demand": "a refused save (five kinds) leaves the target byte-for-byte untouched and reports the "
                          "matching error; a successful in-place save keeps every data/image file",
            })
    ctx.obligation("correspondence:C08 (%d shards)" % nshards, okshards == nshards and not ctx.disagreements,
                   "model and implementation differ")
    kinds = collections.Counter((r["expected_refusal"] or "none", r["prior"]) for r in rows)
    nontrivial = set()
    for r in rows:
        if r["expected_refusal"] or (r["in_place"] and r["obs"] == "Saved") or r["obs"] not in ("Saved",):
            nontrivial.add((r["expected_refusal"], r["prior"], r["in_place"], r["obs"], r["loaded"], r["preserved"], r["kind"]))
    ctx.cov.update({
        "evaluations": len(rows),
        "distinct_nontrivial": len(nontrivial),
        "rule": "one evaluation = one generated scenario (font recipe or loaded+edited UFO, target with prior "
                "contents) run through Font::save and through the Coq model, compared on outcome variant and the "
                "full sandbox snapshot. Non-trivial = a refusal is expected, or an in-place save succeeded, or the "
                "save failed late; distinct by (refusal, prior target kind, in place, outcome, loaded, files preserved).",
        "exhaustive": False,
        "input_distribution": {
            "refusal_x_prior": {"%s/%s" % k: v for k, v in sorted(kinds.items())},
            "outcomes": dict(collections.Counter(r["obs"].split(" ")[0].strip("(") for r in rows)),
            "in_place_saved": sum(1 for r in rows if r["in_place"] and r["obs"] == "Saved"),
            "history_saves": sum(1 for r in rows if r.get("history")),
            "history_refused_then_saved_in_place": len({r["i"] for r in rows if r.get("history") and r["in_place"] and r["obs"] == "Saved"}
                                                       & {r["i"] for r in rows if r.get("history") and r["expected_refusal"]}),
            "store_files_checked_preserved": sum(r["preserved"] for r in rows),
            "refused_cases": sum(1 for r in rows if r["expected_refusal"]),
        },
        "traces_validated_against_impl": len(rows),
    })
    for r in rows[:3]:
        ctx.samples.append({k: r[k] for k in ("i", "kind", "prior", "in_place", "expected_refusal", "obs", "preserved", "notes")})


def replay(ctx, path):
    from driver import sh
    d = json.load(open(path))
    case = d.get("input") or (d.get("disagreeing_cases") or [{}])[0]
    if "index" not in case:
        print("replay file names no scenario (kind=%s): %s" % (d.get("kind"), json.dumps(d)[:800]))
        return 1
    tmp = os.path.join(ctx.scratch, "replay.txt")
    hist = " h" if (case.get("scenario") or {}).get("history") else ""
    open(tmp, "w").write("%d %d%s\n" % (case.get("seed", d.get("seed", 1)), case["index"], hist))
    rc, o = sh([ctx.harness, "c08", "--replay", tmp, "--out", os.path.join(ctx.scratch, "r")])
    print(o)
    return 0
