"""C09 — a saved tree depends only on the font and stays inside the target."""
import collections
import json
import os

META = {
    "level": "proof",
    "design_ref": "DESIGN.md section 8, C09; section 7 Fs.v; Appendix A 'Save'; finding F8 (fixed in 59e280a, 8d15b4b)",
    "technique": "Coq proof over an abstract file system of the step-list model of Font::save_impl (a successful "
                 "save = wipe + the font's entry list, inserted in writing order) + refutation witness for the full "
                 "statement + effect-order anchor + snapshot correspondence and oracle",
    "text": "Kernel-checked: for every font whose layer directories and glif file names are single plain path "
            "components - which every font returned by the load model is (C09_loaded_fonts_safe; finding F8 was "
            "repaired in 59e280a/8d15b4b) and so is every font built or modified through the container API "
            "(C09_safe_when_built, C09_safe_when_loaded_and_modified, from C06/C07) -, every target and every prior file system: nothing outside the target changes, whatever the outcome (C09_frame); after a successful save "
            "the file system at and below the target is `place t (tree_of f)`, a function of the font alone "
            "(C09_tree_function, C09_same_as_fresh); each optional file / directory is in that tree exactly when its "
            "part is non-empty (C09_optional_*). The former F8 witness (glif path ../../outside.glif) is kept as a "
            "regression input that the loader must refuse. Model tied to the source by the effect-order anchor "
            "and by running Font::save and the model on the same scenarios (built, loaded+edited and crafted UFOs x "
            "prior target contents), comparing outcome and the complete sandbox snapshot.",
    "note": "Trusted: Coq kernel + VM; harness abstraction of a real Font; std::fs behaving like Model/Fs.v (no "
            "symlinks / permissions / I/O faults); file contents are opaque tokens, byte identity with a fresh-path "
            "save is checked by the oracle on the implementation, not proved.",
}
COQ_TARGETS = ["Props/C09.vo", "Run/SaveRun.vo"]
PROPS_FILES = ["C09"]
TRUSTED = [
    "model Model/Save.v hand-written from src/font.rs (save_impl) and src/layer.rs (save_with_options); tied by the "
    "effect-order anchor and the snapshot correspondence",
    "abstract file system Model/Fs.v (std::fs assumed to behave like it; validated by the snapshots of every case)",
    "harness abstraction of a real Font (harness/src/save_common.rs)",
    "Coq 8.16.1 kernel and vm_compute; no axioms; no extraction",
]
# crafted variants of harness/src/c09.rs whose contents.plist / layercontents.plist entries are not
# plain names, distinct without regard to case: refused at load since 59e280a, 8d15b4b, 83f6c18, f6784f0
MUST_BE_REJECTED = {0, 1, 2, 3, 6, 7, 8, 9, 10, 12, 13}

ASSUMPTIONS = [
    "well-formed prior file system (every entry's parent is a directory) for C09_tree_function",
    "C09_safe_when_built / C09_frame_built / C09_tree_function_built: for fonts built through the API the path "
    "hypothesis is discharged from C06_reachable_plain (container model Model/Layer.v) through the abstraction "
    "rel_of = Path::components of Model/Store.v; store keys are plain lists under C16's invariant "
    "(C09_store_keys_plain)",
]


def anchors(ctx):
    import anchors_save
    import driver
    return anchors_save.gen_file(anchors_save.save_skeletons(driver.REPO))


def run(ctx, known, built):
    from driver import sh
    import save_common
    out = os.path.join(ctx.scratch, "c09")
    os.makedirs(out)
    rc, o = sh([ctx.harness, "c09", "--tier", ctx.tier, "--seed", str(ctx.seed), "--out", out], timeout=3000)
    if rc != 0:
        ctx.disagreements.append({"what": "harness c09 failed", "output": o[-2000:]})
        return
    lines = open(os.path.join(out, "cases.txt")).read().split("\n")
    if lines and lines[-1] == "":
        lines.pop()
    rows = [json.loads(l) for l in open(os.path.join(out, "oracle.jsonl")) if l.strip()]
    classes = {}
    mism, nshards, okshards = save_common.eval_cases(ctx, out, lines, built, "c09", classes)
    for (i, outcome, tree) in mism:
        r = rows[i]
        ctx.disagreements.append({
            "what": "model of Font::save differs from the implementation (outcome or resulting tree)",
            "seed": ctx.seed, "index": i, "scenario": r,
            "model_outcome": save_common.fmt_outcome(outcome), "implementation_outcome": r["obs"],
            "model_tree": sorted(save_common.tree_paths(tree).items())[:200],
        })
    # every font that reaches save has plain layer directories and glif names (theorem
    # C09_loaded_fonts_safe + C07): checked on the abstraction (Coq) and on the real font (harness)
    for i, b in classes.items():
        if b or rows[i]["class_f8"]:
            ctx.violations.append({"seed": ctx.seed, "index": i, "scenario": rows[i],
                                   "failed": ["a font with a layer directory or glif path that is not a single plain "
                                              "component reached Font::save (model: %s, harness: %s)" % (b, rows[i]["class_f8"])],
                                   "demand": "paths joined onto the target are plain names (F8 stays fixed)"})
    known_ids = {k["id"] for k in known}
    for r in rows:
        fails = []
        if r["fail_tree"]:
            fails += r["fail_tree"]
        if r["fail_frame"]:
            fails += r["fail_frame"]
        if r["fail_glyphs"]:
            # a layer stored in `data`: the data store holds the layer's old contents.plist as an entry and
            # writes it back over the new one (same class as the optional-directory failure)
            if r["class_reserved"] and "F8-reserved" in known_ids:
                ctx.known_hits["F8-reserved"] = ctx.known_hits.get("F8-reserved", 0) + 1
            else:
                fails += r["fail_glyphs"]
        # regression inputs: crafted UFOs with unchecked paths must be refused at load
        if r["kind"] == 2 and r["variant"] in MUST_BE_REJECTED and r["crafted_loaded"]:
            fails.append("crafted UFO variant %d (%s) loads again" % (r["variant"], "; ".join(r["notes"])))
        if r["fail_opt"]:
            if r["class_reserved"] and "F8-reserved" in known_ids:
                ctx.known_hits["F8-reserved"] = ctx.known_hits.get("F8-reserved", 0) + 1
            else:
                fails += r["fail_opt"]
        if fails:
            ctx.violations.append({
                "seed": ctx.seed, "index": r["i"], "scenario": r, "failed": fails,
                "demand": "after a successful save the target equals a save of the same font to a fresh path, "
                          "optional files exist iff their part is non-empty, nothing outside the target changes, every glyph has a "
                          "glif file of its own and the saved tree loads back to the same glyphs",
            })
    ctx.obligation("correspondence:C09 (%d shards)" % nshards, okshards == nshards and not ctx.disagreements,
                   "model and implementation differ")
    nontrivial = set()
    for r in rows:
        if r["obs"] == "Saved" and (r["prior"] not in ("Absent",) or r["in_place"] or r["kind"] == 2):
            nontrivial.add((r["kind"], r["variant"], r["prior"], r["in_place"], r["files"], r["class_f8"], r["class_reserved"]))
    ctx.cov.update({
        "evaluations": len(rows),
        "distinct_nontrivial": len(nontrivial),
        "rule": "one evaluation = one scenario (font built by recipe / loaded and edited / loaded from a crafted "
                "UFO; target absent, empty, another UFO, a larger UFO, a plain file, nested junk, or the source "
                "itself) through Font::save and the Coq model, compared on outcome and full sandbox snapshot, plus "
                "the oracle checks; every 7th index also runs a cross-font history in the same thread (a save of another "
                "font that must fail - Uid in a glyph lib, objectLibs keys, invalid info, bad store entry - then this "
                "font saved to a fresh path and over an existing target), the reference save always running in a "
                "thread of its own. Non-trivial = the save succeeded over existing contents, in place, or from "
                "a crafted UFO; distinct by (kind, crafted variant, prior, in place, number of entries written, classes).",
        "exhaustive": False,
        "input_distribution": {
            "kinds": dict(collections.Counter({0: "built", 1: "loaded+edited", 2: "crafted", 3: "cross-font history"}.get(r["kind"], "other") for r in rows)),
            "priors": dict(collections.Counter(r["prior"] for r in rows)),
            "outcomes": dict(collections.Counter(r["obs"].split(" ")[0].strip("(") for r in rows)),
            "crafted_variants": dict(collections.Counter(str(r["variant"]) for r in rows if r["kind"] == 2)),
            "in_place": sum(1 for r in rows if r["in_place"]),
            "crafted_rejected_at_load": sum(1 for r in rows if r["kind"] == 2 and not r["crafted_loaded"]),
            "class_reserved_cases": sum(1 for r in rows if r["class_reserved"]),
        },
        "traces_validated_against_impl": len(rows),
    })
    for r in rows[:3]:
        ctx.samples.append({k: r[k] for k in ("i", "kind", "variant", "prior", "in_place", "obs", "class_f8", "notes")})


def replay(ctx, path):
    from driver import sh
    tmp = os.path.join(ctx.scratch, "replay.txt")
    if path.endswith(".txt"):          # corpus witness
        open(tmp, "w").write(open(path).read())
    else:
        d = json.load(open(path))
        case = d.get("input") or (d.get("disagreeing_cases") or [{}])[0]
        if "index" not in case:
            print("replay file names no scenario (kind=%s): %s" % (d.get("kind"), json.dumps(d)[:800]))
            return 1
        if (case.get("scenario") or {}).get("variant", 0) >= 100:      # a cross-font history
            open(tmp, "w").write("%d %d x\n" % (case.get("seed", d.get("seed", 1)), case["index"]))
        elif case["index"] == 0:
            open(tmp, "w").write("variant 0\n")
        else:
            open(tmp, "w").write("%d %d\n" % (case.get("seed", d.get("seed", 1)), case["index"]))
    rc, o = sh([ctx.harness, "c09", "--replay", tmp, "--out", os.path.join(ctx.scratch, "r")])
    print(o)
    return 0
