"""C10 — loading and saving are deterministic."""
import json
import os

META = {
    "level": "proof",
    "design_ref": "DESIGN.md section 8, C10; section 4.1 (hashed-collection inventory); F12 (fixed: a0f3bc1, abb0fdd)",
    "technique": "Coq proofs of order-independence (membership-only sets, canonical sorted maps, commuting store "
                 "writes) + anchor: inventory of every HashMap/HashSet and every iteration over one, regenerated from "
                 "the source and matched against a catalogue of discharging theorems + repeated loads/saves in-process "
                 "and in child processes compared with each other and with the model",
    "text": "After the fixes the upconversion models take no iteration order: their results are functions of the inputs "
            "by construction. Kernel-checked theorems cover what remains hashed in norad: sets that are only queried give "
            "the same answers for any representation (glyph-name set of the conversion, the seen-sets of the validator, "
            "the old->new tables); a BTreeMap built from the same entries in any order is the same sequence (so groups, "
            "kerning, contents and the UFO 1 feature text are produced in one order); the store-writing loops of "
            "Font::save leave the same tree for every permutation of pairwise distinct, prefix-free keys. The anchor ties "
            "the set of hashed collections and iterations in /repo/src to the catalogue (a new one breaks it). Every run "
            "loads each generated legacy UFO (colliding group names, 2-6 feature blocks, mostly without order list) and "
            "every fixture UFO 16x in-process and in 4 child processes, saves three times: loads equal, trees "
            "byte-identical, first load equal to the model.",
    "note": "Trusted: Coq kernel + VM; the models Model/Groups.v, Model/StoreWrite.v (hand-written; the first tied by "
            "correspondence here and in C15); the regex/bracket-matching inventory extractor lib/anchors_c10.py; that "
            "std's RandomState differs between HashMap instances and processes (the space of hash orders is sampled by "
            "repetition, not enumerated).",
}
COQ_TARGETS = ["Props/C10.vo", "Run/C10.vo", "Model/HashSites.vo"]
PROPS_FILES = ["C10"]
TRUSTED = ["models Model/Groups.v (upconversion, feature text) and Model/StoreWrite.v (store-writing loop) hand-written from "
           "src/upconversion.rs, src/font.rs",
           "lib/anchors_c10.py (inventory extraction by regex and bracket matching, no Rust parser)",
           "Coq 8.16.1 kernel and vm_compute; no axioms; no extraction"]
ASSUMPTIONS = ["the iteration orders HashMap/HashSet can produce are sampled by repetition (fresh RandomState per instance and "
               "per process), not enumerated; the theorems quantify over all permutations",
               "which of several failing store entries Font::save reports (InvalidStoreEntry path) may depend on hash "
               "order; no tree is written in that case - outside the statement",
               "Store::iter / Store::keys hand the HashMap's order to the caller (catalogued as 'exposed')"]
HEADER = (b"Require Import Norad.Run.RunBase Norad.Run.C15 Norad.Run.C10.\nOpen Scope string_scope. Open Scope N_scope.\n"
          b"Set Printing Width 100000. Set Printing Depth 1000000.\n")


def _lit(n):
    return b'"' + n.replace(b'"', b'""') + b'"'


def anchors(ctx):
    import driver
    import re
    import anchors_c10
    inv = anchors_c10.inventory(driver.REPO)
    # diagnostic: which sites are new / gone relative to the committed catalogue
    cat_src = open(os.path.join(driver.COQ, "Model", "HashSites.v"), encoding="utf-8").read()
    cat = [m.group(1).replace('""', '"') for m in re.finditer(r'^\s*\("((?:[^"]|"")*)",\s*$', cat_src, re.M)]
    new = [s for s in inv if s not in cat]
    gone = [s for s in cat if s not in inv]
    ctx.c10_inventory = {"sites": len(inv), "iteration_sites": sum(1 for s in inv if "|iter|" in s),
                         "new_sites": new, "vanished_sites": gone}
    if new or gone:
        ctx.note("hashed-collection inventory differs from the catalogue: new %r gone %r" % (new, gone))
        ctx.anchor_failures.append("hashed-collection inventory differs from coq/Model/HashSites.v: new sites %r; "
                                   "vanished sites %r" % (new, gone))
    return anchors_c10.generate(driver.REPO)


def run(ctx, known, built):
    from driver import sh, coq_values, parse_term, REPO
    out = os.path.join(ctx.scratch, "c10")
    os.makedirs(out)
    base = [ctx.harness, "c10", "--tier", ctx.tier, "--seed", str(ctx.seed), "--out", out, "--repo", REPO]
    rc, o = sh(base, timeout=3000)
    if rc != 0:
        ctx.disagreements.append({"what": "harness c10 failed", "output": o[-2000:]})
        return
    summ = json.load(open(os.path.join(out, "summary.json")))
    names = [n.encode("utf-8") for n in json.load(open(os.path.join(out, "names.json"), encoding="utf-8"))]
    lines = open(os.path.join(out, "cases.txt"), "rb").read().split(b"\n")[:-1]
    files = []
    RS = 60
    for bi in range(0, len(lines), RS):
        vf = os.path.join(out, "cases_%d.v" % bi)
        with open(vf, "wb") as f:
            f.write(HEADER)
            f.write(b"Definition ts : list string := [" + b";".join(_lit(n) for n in names) + b"].\n")
            f.write(b"Definition cs : list (N * (case * fcase * etm * scase * scase)) := [\n" + b";\n".join(lines[bi:bi + RS]) + b"].\n")
            f.write(b"Eval vm_compute in mism10 ts cs.\n")
        files.append(vf)
    slines = open(os.path.join(out, "store_cases.txt"), "rb").read().split(b"\n")[:-1]
    store_files = set()
    for bi in range(0, len(slines), 200):
        vf = os.path.join(out, "store_%d.v" % bi)
        with open(vf, "wb") as f:
            f.write(HEADER)
            f.write(b"Definition ts : list string := [" + b";".join(_lit(n) for n in names) + b"].\n")
            f.write(b"Definition cs : list (N * (scase * scase)) := [\n" + b";\n".join(slines[bi:bi + 200]) + b"].\n")
            f.write(b"Eval vm_compute in store_mism ts cs.\n")
        files.append(vf)
        store_files.add(vf)
    if not built:
        ctx.disagreements.append({"what": "Coq development does not build; correspondence not evaluated"})
        res = {}
    else:
        res = ctx.coq_eval_many(files, timeout=1500)
    nshard_ok = 0
    fails = json.load(open(os.path.join(out, "oracle.json")))
    for vf, (rc, o) in sorted(res.items()):
        if rc != 0:
            ctx.disagreements.append({"what": "correspondence shard failed to evaluate", "shard": os.path.basename(vf), "output": o[-800:]})
            continue
        vals = coq_values(o)
        if len(vals) != 1:
            ctx.disagreements.append({"what": "unparsable shard output", "shard": os.path.basename(vf), "output": o[-800:]})
            continue
        nshard_ok += 1
        try:
            mm = parse_term(vals[0])
        except Exception:
            mm = [(-1, vals[0][:2000])]
        if vf in store_files:
            for idx in mm:
                line = next((ln for ln in slines if ln.startswith(b"(%d, " % idx)), b"")
                ctx.disagreements.append({"what": "the tree saved for a font built by store calls differs from the model of the "
                                                  "writing loop", "index": idx, "case_term": line.decode("utf-8", "replace")[:1500]})
            continue
        for item in mm:
            idx = item[0]
            line = next((ln for ln in lines if ln.startswith(b"(%d, " % idx)), b"")
            ctx.disagreements.append({"what": "model (sorted-order result) differs from the first load of the implementation",
                                      "index": idx, "model": repr(item[1])[:1500],
                                      "case_term": line.decode("utf-8", "replace")[:1500]})
    # the determinism oracle: any difference between two runs on the same input is a violation
    seen = set()
    for fl in fails:
        key = fl.get("ufo")
        if key in seen:
            continue
        seen.add(key)
        ctx.violations.append({"ufo": fl["ufo"], "what": fl["what"], "case": fl.get("case"), "fixture": fl.get("fixture"),
                               "store_calls": fl.get("store_calls"), "alias_pair": fl.get("alias_pair"),
                               "all_differences": [x["what"] for x in fails if x.get("ufo") == key][:10],
                               "demand": "repeated loads equal, saved trees byte-identical (C10)"})
    ctx.obligation("correspondence:C10 (%d shards, %d UFOs compared with the model)" % (len(files), summ["compared_with_model"]),
                   nshard_ok == len(files) and not ctx.disagreements, "model and implementation differ")
    runs = summ["in_process_loads_per_ufo"] + summ["child_processes_per_ufo"]
    ctx.cov.update({
        "evaluations": summ["ufos"] * runs + summ["built_fonts"] * summ["instances_per_built_font"],
        "distinct_nontrivial": summ["converted_groups"] + summ["without_order_list"],
        "rule": "evaluations = UFOs x (in-process loads + child-process loads) + built fonts x instances (each font built by the "
                "same data/image insert calls incl. every alias spelling of each key, saved to its own directory); non-trivial = UFOs whose load converts "
                "kerning groups (new names made, collisions resolved) plus UFOs with feature blocks and no order list",
        "exhaustive": False,
        "input_distribution": summ,
        "hashed_collection_inventory": getattr(ctx, "c10_inventory", {}),
        "traces_validated_against_impl": summ["compared_with_model"],
    })
    ctx.samples += [ln.decode("utf-8", "replace")[:400] for ln in lines[-2:]]


def replay(ctx, path):
    from driver import sh, REPO
    d = json.load(open(path))
    inp = d.get("input") or {}
    tmp = os.path.join(ctx.scratch, "replay10.json")
    if inp.get("store_calls"):
        json.dump({"store_calls": inp["store_calls"]}, open(tmp, "w"))
    elif inp.get("fixture"):
        json.dump({"fixture": inp["fixture"]}, open(tmp, "w"))
    elif inp.get("case"):
        json.dump({"case": inp["case"]}, open(tmp, "w"))
    else:
        print("replay file names no UFO (kind=%s): %s" % (d.get("kind"), json.dumps(d)[:1500]))
        return 1
    rc, o = sh([ctx.harness, "c10", "--replay", tmp, "--out", ctx.scratch, "--repo", REPO])
    print(o)
    return 0
