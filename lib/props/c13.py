"""C13 — font info is accepted exactly when it satisfies the specification's rules."""
import json
import os
import re

META = {
    "level": "proof",
    "design_ref": "DESIGN.md section 8, C13; Appendix A 'Font info'",
    "technique": "Coq proof (validate/save/load accept <-> declarative specification fi_spec, for all font infos) "
                 "+ anchors extracted from validate()'s source text + boundary-exhaustive model/implementation "
                 "correspondence at the three entry points",
    "text": "Kernel-checked theorems over the Gallina model of FontInfo::validate and its three entry points "
            "(validate, Font::save, Font::load of a format-3 fontinfo.plist; the format-2 and format-1 loaders are "
            "run as well): for ALL font infos the model accepts iff the "
            "declarative specification fi_spec holds (date shape and field ranges, gasp order, identifier "
            "uniqueness, angle range incl. NaN/inf, selection bits, family class, list lengths/parity, WOFF "
            "non-emptiness); a loaded or saved info always satisfies it; a refused save is always refused by "
            "validate() (never late in the serialiser: finding F9 is gone); the typed deserialisers are characterised. "
            "The model is tied to the code on every run by constants and rule order extracted from validate()'s "
            "source and by running implementation and model on a boundary-exhaustive case set at all three entry "
            "points, comparing verdict, error kind (with its payload) and the resulting info.",
    "note": "Trusted: Coq kernel + VM; the hand-written model Model/FontInfo.v (tied by anchors + correspondence, "
            "not by proof); the harness's own fontinfo.plist writer and untyped reader (plist crate Value); "
            "serde/plist glue is exercised, not proved. Identifier/name syntax and fields without cross-field "
            "rules are outside the record.",
}
COQ_TARGETS = ["Props/C13.vo", "Run/C13.vo"]
PROPS_FILES = ["C13"]
TRUSTED = ["model Model/FontInfo.v hand-written from src/fontinfo.rs (validate, typed deserialisers), src/guideline.rs, "
           "src/font.rs; tied by anchors (constants, rule order, error kinds) and by the correspondence run",
           "Coq 8.16.1 kernel and vm_compute; no axioms; no extraction",
           "lib/props/c13.py anchor extraction (regular expressions over validate()'s source text)"]
ASSUMPTIONS = ["the plist crate reads the harness-written fontinfo.plist text as written (strings untrimmed, "
               "integers/reals exact); exercised on every case, not proved",
               "fields of FontInfo outside the modelled record do not influence validate() (checked syntactically by "
               "the anchor: validate() reads exactly the modelled fields)"]

CODES = {1: "model differs from implementation at FontInfo::validate",
         2: "model differs from implementation at Font::save",
         3: "model differs from implementation at Font::load",
         4: "model differs from implementation at Font::load of a format-2 UFO",
         5: "model differs from implementation at Font::load of a format-1 UFO (lib.plist hint data)",
         16: "Font::load (format 2) verdict differs from the specification",
         17: "Font::load (format 1 lib data) verdict differs from the specification",
         18: "the font loaded from format 2 holds an info that violates the specification",
         19: "the font loaded from format 1 holds an info that violates the specification",
         20: "an entry point PANICKED on this font info (neither accepted nor refused; also a C03 violation)",
         11: "FontInfo::validate verdict differs from the specification",
         12: "Font::save verdict differs from the specification",
         13: "Font::load verdict differs from the specification",
         14: "the saved fontinfo.plist holds an info that violates the specification",
         15: "the loaded font holds an info that violates the specification"}

HEADER = ("Require Import Norad.Run.RunBase Norad.Model.FontInfo Norad.Run.C13.\n"
          "Open Scope Z_scope. Open Scope string_scope. Open Scope list_scope.\n"
          "Set Printing Width 100000. Set Printing Depth 1000000.\n")


def _shard_file(path, lines):
    with open(path, "w") as f:
        f.write(HEADER)
        f.write("Definition cs : list case := [\n")
        f.write(";\n".join(lines))
        f.write("\n].\nEval vm_compute in check_all 0 cs.\nEval vm_compute in tally cs.\n")


# ---------------------------------------------------------------------------------------- anchors
def _fn_body(src, header_re):
    m = re.search(header_re, src)
    if not m:
        raise ValueError("cannot find %s" % header_re)
    i = src.index("{", m.end() - 1)
    depth = 0
    for j in range(i, len(src)):
        if src[j] == "{":
            depth += 1
        elif src[j] == "}":
            depth -= 1
            if depth == 0:
                return src[i + 1:j]
    raise ValueError("unbalanced braces after %s" % header_re)


def _strip_rust_comments(s):
    return re.sub(r"//[^\n]*", "", s)


def _coq_str(s):
    return '"%s"' % s.replace('"', '""')


def _coq_list(xs):
    return "[" + "; ".join(xs) + "]"


def extract_anchors(repo):
    """read validate() and Os2FamilyClass::is_valid from the source text; returns a dict"""
    src = open(os.path.join(repo, "src", "fontinfo.rs")).read()
    body = _strip_rust_comments(_fn_body(src, r"pub fn validate\(&self\)\s*->\s*Result<\(\),\s*FontInfoErrorKind>\s*\{"))
    a = {}
    # rule order: top-level `if let Some(..) = &self.<field>` blocks, with the error kinds each returns
    blocks = []
    pos = 0
    for m in re.finditer(r"if let Some\((\w+)\) = &self\.(\w+) \{", body):
        blocks.append((m.group(2), m.start()))
    if not blocks:
        raise ValueError("no `if let Some(..) = &self.field` blocks in validate()")
    rules = []
    for k, (field, start) in enumerate(blocks):
        end = blocks[k + 1][1] if k + 1 < len(blocks) else len(body)
        chunk = body[start:end]
        kinds = re.findall(r"return Err\(\s*FontInfoErrorKind::(\w+)", chunk)
        # consecutive repetitions of the same kind within the date rule collapse (three early returns + `?`)
        if field == "open_type_head_created":
            kinds = sorted(set(kinds), key=kinds.index)
            qs = set(re.findall(r"map_err\(\|_\| FontInfoErrorKind::(\w+)\)\?", chunk))
            if qs - set(kinds):
                raise ValueError("date rule: `?` returns kinds %r not among %r" % (qs, kinds))
        rules.append((field, kinds, chunk))
    a["rules"] = [(f, k) for f, k, _ in rules]
    # every `self.<field>` read by validate() must be one of the rule fields (nothing else influences it)
    reads = set(re.findall(r"self\.(\w+)", body))
    extra = reads - set(f for f, _, _ in rules)
    if extra:
        raise ValueError("validate() reads fields outside the modelled rules: %r" % sorted(extra))
    tail = body[blocks[-1][1]:]
    if not re.search(r"\}\s*Ok\(\(\)\)\s*$", tail):
        raise ValueError("validate() does not end in Ok(())")
    by = {f: c for f, _, c in rules}
    # --- date
    d = by["open_type_head_created"]
    m = re.search(r"const DATE_LENGTH: usize = (\d+);", d)
    a["date_length"] = int(m.group(1))
    if not re.search(r"if v\.len\(\) != DATE_LENGTH \{", d):
        raise ValueError("date: length test not found")
    m = re.search(r"if !v\.chars\(\)\.all\(\|b\| b\.is_ascii_digit\(\)((?: \|\| b == '.')*)\) \{", d)
    if not m:
        raise ValueError("date: character-set test not found")
    a["date_chars"] = [ord(c) for c in re.findall(r"b == '(.)'", m.group(1))]
    m = re.search(r"if !\((.*?)\)\s*\{\s*return Err", d, re.S)
    if not m:
        raise ValueError("date: the conjunction was not found")
    conj = " ".join(m.group(1).split())
    parts = [p.strip() for p in conj.split("&&")]
    steps = []
    for p in parts:
        p = re.sub(r"\s*\.map_err\(\|_\| FontInfoErrorKind::\w+\)\?,?", "", p)
        p = " ".join(p.split())
        mm = re.match(r"^v\[(\d+)\.\.(\d+)\]\.parse::<(u\d+)>\(\)\.is_ok\(\)$", p)
        if mm:
            steps.append(("any", int(mm.group(1)), int(mm.group(2)), mm.group(3), 0, 0))
            continue
        mm = re.match(r'^&v\[(\d+)\.\.(\d+)\] == "(.)"$', p)
        if mm:
            steps.append(("sep", int(mm.group(1)), int(mm.group(2)), "", ord(mm.group(3)), 0))
            continue
        mm = re.match(r"^\((\d+)\.\.=(\d+)\)\.contains\( ?&v\[(\d+)\.\.(\d+)\] \.parse::<(u\d+)>\(\) ?\)$", p)
        if mm:
            steps.append(("range", int(mm.group(3)), int(mm.group(4)), mm.group(5), int(mm.group(1)), int(mm.group(2))))
            continue
        mm = re.match(r"^v\[(\d+)\.\.(\d+)\] \.parse::<(u\d+)>\(\) < (\d+)$", p)
        if mm:
            steps.append(("below", int(mm.group(1)), int(mm.group(2)), mm.group(3), 0, int(mm.group(4))))
            continue
        raise ValueError("date: unrecognised conjunct %r" % p)
    a["date_steps"] = steps
    # --- gasp
    g = by["open_type_gasp_range_records"]
    if not (re.search(r"if v\.len\(\) > 1 \{", g) and re.search(r"if last > current \{", g)
            and re.search(r"map\(\|g\| g\.range_max_ppem\)", g)):
        raise ValueError("gasp: loop shape not recognised")
    a["gasp"] = ("len>1", "last>current")
    # --- guidelines
    g = by["guidelines"]
    m = re.search(r"if !\(([-\d.]+)\.\.=([-\d.]+)\)\.contains\(&degrees\) \{", g)
    if not m:
        raise ValueError("guidelines: angle test not found")
    a["angle_range"] = (float(m.group(1)), float(m.group(2)))
    if not re.search(r"if !identifiers\.insert\(id\.clone\(\)\) \{", g):
        raise ValueError("guidelines: identifier test not found")
    if g.index("contains(&degrees)") > g.index("identifiers.insert"):
        raise ValueError("guidelines: angle test no longer precedes the identifier test")
    # --- selection
    s = by["open_type_os2_selection"]
    m = re.search(r"if ((?:v\.contains\(&\d+\)(?: \|\| )?)+) \{", s)
    if not m:
        raise ValueError("selection: test not found")
    a["bad_bits"] = [int(x) for x in re.findall(r"contains\(&(\d+)\)", m.group(1))]
    # --- family class
    if not re.search(r"if !v\.is_valid\(\) \{", by["open_type_os2_family_class"]):
        raise ValueError("family class: test not found")
    iv = _strip_rust_comments(_fn_body(src, r"fn is_valid\(&self\)\s*->\s*bool\s*\{"))
    m = re.match(r"^\s*\((\d+)\.\.=(\d+)\)\.contains\(&self\.class_id\) && \((\d+)\.\.=(\d+)\)\.contains\(&self\.subclass_id\)\s*$", iv)
    if not m:
        raise ValueError("Os2FamilyClass::is_valid not recognised: %r" % iv)
    a["class_ranges"] = [int(x) for x in m.groups()]
    # --- lists
    lists = []
    for f in ("postscript_blue_values", "postscript_other_blues", "postscript_family_blues",
              "postscript_family_other_blues", "postscript_stem_snap_h", "postscript_stem_snap_v"):
        c = by[f]
        m = re.search(r"if v\.len\(\) > (\d+) \{", c)
        mm = re.search(r"max_len: (\d+),", c)
        mn = re.search(r'"(postscript\w+)"', c)
        if not (m and mm and mn):
            raise ValueError("list rule %s not recognised" % f)
        pairs = bool(re.search(r"if v\.len\(\) % 2 != 0 \{", c))
        if pairs and c.index("v.len() >") > c.index("v.len() % 2"):
            raise ValueError("list rule %s: length test no longer precedes the parity test" % f)
        if set(re.findall(r'"(postscript\w+)"', c)) != {mn.group(1)}:
            raise ValueError("list rule %s names several fields" % f)
        lists.append((mn.group(1), int(m.group(1)), int(mm.group(1)), pairs))
    a["lists"] = lists
    # --- woff: messages in source order, and the emptiness tests
    w = []
    for f in ("woff_metadata_extensions", "woff_metadata_credits", "woff_metadata_copyright",
              "woff_metadata_description", "woff_metadata_trademark"):
        c = by[f]
        msgs = re.findall(r'EmptyWoffAttribute\(\s*"([^"]*)"', c)
        tests = re.findall(r"if ([\w.() |]*is_empty\(\)[\w.() |]*) \{", c)
        w.append((f, msgs, [" ".join(t.split()) for t in tests]))
    a["woff"] = w
    return a


def anchors(ctx):
    from driver import REPO
    a = extract_anchors(REPO)
    L = ["From Coq Require Import String List ZArith.", "Import ListNotations.", "Open Scope string_scope.",
         "Open Scope Z_scope."]
    L.append("Definition a_rules : list (string * list string) := %s." % _coq_list(
        "(%s, %s)" % (_coq_str(f), _coq_list([_coq_str(k) for k in ks])) for f, ks in a["rules"]))
    L.append("Definition a_date_length : Z := %d." % a["date_length"])
    L.append("Definition a_date_chars : list Z := %s." % _coq_list(str(c) for c in a["date_chars"]))
    # (kind, from, to, parse type, lo-or-separator, hi-or-limit)
    L.append("Definition a_date_steps : list (string * Z * Z * string * Z * Z) := %s." % _coq_list(
        "(%s, %d, %d, %s, %d, %d)" % (_coq_str(k), f, t, _coq_str(ty), x, y) for k, f, t, ty, x, y in a["date_steps"]))
    lo, hi = a["angle_range"]
    if lo != int(lo) or hi != int(hi):
        raise ValueError("angle bounds are not integers: %r" % (a["angle_range"],))
    L.append("Definition a_angle_range : Z * Z := (%d, %d)." % (int(lo), int(hi)))
    L.append("Definition a_bad_bits : list Z := %s." % _coq_list(str(b) for b in a["bad_bits"]))
    L.append("Definition a_class_ranges : list Z := %s." % _coq_list(str(b) for b in a["class_ranges"]))
    L.append("Definition a_lists : list (string * Z * Z * bool) := %s." % _coq_list(
        "(%s, %d, %d, %s)" % (_coq_str(n), x, y, "true" if p else "false") for n, x, y, p in a["lists"]))
    L.append("Definition a_woff : list (string * list string * list string) := %s." % _coq_list(
        "(%s, %s, %s)" % (_coq_str(f), _coq_list(_coq_str(m) for m in ms), _coq_list(_coq_str(t) for t in ts))
        for f, ms, ts in a["woff"]))
    return "\n".join(L) + "\n"


# ---------------------------------------------------------------------------------------- run
def run(ctx, known, built):
    from driver import sh, coq_values, parse_term
    out = os.path.join(ctx.scratch, "c13")
    os.makedirs(out)
    from driver import VERIF
    rc, o = sh([ctx.harness, "c13", "--tier", ctx.tier, "--seed", str(ctx.seed), "--out", out,
                "corpus=" + os.path.join(VERIF, "corpus", "C13")], timeout=3000)
    if rc != 0:
        ctx.disagreements.append({"what": "harness c13 failed", "output": o[-2000:]})
        return
    summ = json.load(open(os.path.join(out, "summary.json")))
    meta = [json.loads(l) for l in open(os.path.join(out, "cases.jsonl"))]
    files = {}
    for k in range(summ["shards"]):
        lines = [l for l in open(os.path.join(out, "cases_%d.txt" % k)).read().split("\n") if l]
        vf = os.path.join(out, "shard_%d.v" % k)
        _shard_file(vf, lines)
        files[vf] = k
    if not built:
        ctx.disagreements.append({"what": "Coq development does not build; correspondence not evaluated"})
        res = {}
    else:
        res = ctx.coq_eval_many(list(files), timeout=1500)
    ok_shards = 0
    spec_ok = spec_bad = not_repr = 0
    for vf, (rc, o) in sorted(res.items(), key=lambda kv: files[kv[0]]):
        k = files[vf]
        if rc != 0:
            ctx.disagreements.append({"what": "correspondence shard failed to evaluate", "shard": k, "output": o[-800:]})
            continue
        vals = coq_values(o)
        if len(vals) != 2:
            ctx.disagreements.append({"what": "unparsable shard output", "shard": k, "output": o[-800:]})
            continue
        bad = parse_term(vals[0])
        t = parse_term(vals[1])
        spec_ok += t[0]
        spec_bad += t[1]
        not_repr += t[2]
        ok_shards += 1
        for (idx, codes) in bad:
            m = meta[k * summ["shard_size"] + idx]
            entry = {"label": m["label"], "case": m["case"], "implementation": {"validate": m["validate"],
                     "save": m["save"], "load": m["load"], "load_format2": m["load_format2"],
                     "load_format1_lib": m["load_format1_lib"]}, "failed": [CODES.get(c, str(c)) for c in codes]}
            if any(c < 10 for c in codes):
                ctx.disagreements.append(dict(entry, what="model and implementation differ"))
            if any(c >= 10 for c in codes):
                # by C13_validate_iff_spec / C13_save_iff_spec / C13_load_iff_spec + C13_specb_decides the
                # implementation's verdict must equal fi_specb: this input violates the property itself
                ctx.violations.append(dict(entry, demand="accepted at every entry point iff the font info satisfies "
                                                         "the specification's rules; a loaded/saved info satisfies them"))
    def size(v):
        c = v["case"]
        return (sum(1 for x in c.values() if x not in (None, [], False)) + sum(1 for x in c["lists"] if x is not None)
                + sum(1 for x in c["wsimple"] if x is not None), len(json.dumps(c)))
    # corpus witnesses first, then the smallest case
    ctx.violations.sort(key=lambda v: (not v["label"].startswith("corpus "),) + size(v))
    ctx.disagreements.sort(key=lambda v: ((not v["label"].startswith("corpus "),) + size(v)) if "case" in v else (False, 0, 0))
    ctx.obligation("correspondence:C13 (%d shards)" % len(files), ok_shards == len(files) and not ctx.disagreements,
                   "model and implementation differ")
    total = summ["cases"]
    ctx.cov.update({
        "evaluations": total + 2 * summ["with_in_memory_value"] + summ["through_format2_loader"] + summ["through_format1_lib_loader"],
        "distinct_nontrivial": len({json.dumps(m["case"], sort_keys=True) for m in meta
                                    if any(v not in (None, [], False) and v != [None] * 6 and v != [None] * 4
                                           for v in m["case"].values())}),
        "rule": "cases = rule-relevant contents of a fontinfo.plist; each is run through FontInfo::validate and Font::save "
                "(when the Rust types admit an in-memory value), through Font::load of a harness-written format-3 file, "
                "through the format-2 loader (when only format-2 fields are used) and the format-1 lib.plist hint-data "
                "loader (when only the PostScript lists are used), and through the Coq model; verdict, error kind with payload, and the resulting info (validated / read back "
                "from the written file as an untyped plist / loaded) are compared. Boundary-exhaustive part: every list "
                "length 0..16 for the six PostScript lists; three valid dates x 19 positions x 14 bytes, multi-byte "
                "characters (numeric and not, 2/3/4 UTF-8 bytes) at every position both byte-length-preserving (19 bytes, "
                "char boundaries inside the slices) and char-count-preserving, every date field at and around its bounds and their products, length variations; all 256 "
                "subsets of selection bits 0..7; class ids 0..17 x 0..17; all gasp lists of length <= 4 over three ppem "
                "values; 17 angles incl. -eps, +-0, 360, 360+ulp, NaN, inf; all guideline sequences of length <= 3 over a "
                "7-letter alphabet mixing bad angles and duplicate identifiers; WOFF structures with each list/record "
                "empty in turn and all 324 presence combinations; typed-deserialiser boundaries; every ordered pair of "
                "violated rules. Non-trivial = every case except the empty info (each sets at least one rule-relevant field).",
        "exhaustive": True,
        "exhaustive_scope": "the boundary sets listed under rule (%d cases); plus %d random combinations"
                            % (summ["boundary_exhaustive_cases"], summ["random_cases"]),
        "input_distribution": {"cases": total, "boundary_exhaustive": summ["boundary_exhaustive_cases"],
                               "random": summ["random_cases"], "satisfy_fi_spec": spec_ok, "violate_fi_spec": spec_bad,
                               "no_in_memory_value(load only)": not_repr,
                               "also_through_format2_loader": summ["through_format2_loader"],
                               "also_through_format1_lib_loader": summ["through_format1_lib_loader"],
                               "outcomes(validate kind / load class)": summ["outcome_histogram"]},
        "traces_validated_against_impl": total + 2 * summ["with_in_memory_value"] + summ["through_format2_loader"]
                                         + summ["through_format1_lib_loader"],
    })
    for i in (1, 40, 700, len(meta) - 1):
        if i < len(meta):
            m = meta[i]
            ctx.samples.append({"label": m["label"], "validate": m["validate"], "save": m["save"], "load": m["load"]})


def replay(ctx, path):
    from driver import sh
    d = json.load(open(path))
    case = d.get("input", {}).get("case")
    if case is None and d.get("disagreeing_cases"):
        for c in d["disagreeing_cases"]:
            if "case" in c:
                case = c["case"]
                print("replaying the first disagreeing case:", c.get("label"), c.get("failed"))
                break
    if case is None:
        print("replay file names no case (kind=%s): %s" % (d.get("kind"), json.dumps(d)[:800]))
        return 1
    tmp = os.path.join(ctx.scratch, "replay.json")
    json.dump({"case": case}, open(tmp, "w"))
    rc, o = sh([ctx.harness, "c13", "--replay", tmp, "--out", os.path.join(ctx.scratch, "r")])
    gal = [l for l in o.split("\n") if l.startswith("GALLINA ")]
    print("\n".join(l for l in o.split("\n") if not l.startswith("GALLINA ")))
    if gal:
        vf = os.path.join(ctx.scratch, "replay_case.v")
        _shard_file(vf, [gal[0][len("GALLINA "):]])
        rc2, o2 = ctx.coqc(vf)
        from driver import coq_values, parse_term
        if rc2 == 0:
            bad = parse_term(coq_values(o2)[0])
            if bad:
                print("model/specification verdict:", [CODES.get(c, c) for c in bad[0][1]])
            else:
                print("model/specification verdict: implementation agrees with model and specification on this input")
        else:
            print("model evaluation failed:", o2[-500:])
    return 0
