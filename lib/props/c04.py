"""C04 — load, save, load again: foreign and legacy input is normalised without loss."""
import collections
import json
import os
import random
import re
import shutil

META = {
    "level": "proof",
    "design_ref": "DESIGN.md section 8, C04; Appendix A Save / Load",
    "technique": "Coq proof over the font-level model of Font::load_impl / Font::save_impl (a loaded font is a valid font; "
                 "valid fonts round-trip) + differential run on bytes written by others: fixtures of format 1/2/3, trees "
                 "rendered by an independent writer with random legal syntax, generated legacy trees, mutated trees",
    "text": "Kernel-checked theorems: every font norad loads from a format-3 tree is a valid font (C04_load_yields_valid: "
            "norad's own part — public.objectLibs always consumed, default layer first and unique, distinct layer names, "
            "directories and glif file names (checked by load since 83f6c18 / afd801a), object libs only on identified "
            "guidelines — proved; the per-part closedness, e.g. parse_glif yields valid glyphs, is a hypothesis "
            "sig_closed), and therefore every loaded font is saved and loaded again as an equal font for every write "
            "option (C04_fixed_point, full strength), whatever the input format the loaded font and the written metainfo "
            "say format 3 (C04_legacy_becomes_v3, C04_output_is_v3). On every run dump(load(x)) is compared with "
            "dump(load(save(load(x)))) for all inputs, and for format-3 inputs the model's load / save / load (or its "
            "refusal: duplicate layer name / directory, reserved name, glif file used twice) is compared with the "
            "implementation's.  The `_real` / `_all_files` theorems instantiate the parts with the real glif reader, the "
            "real font-info reader and tree-level readers of all seven plist files; where a real reader is not closed "
            "(lib, kerning, layerinfo: non-finite reals, colours beyond three decimals, -0.0) closedness is asked of the "
            "input tree only (C04_fixed_point_at_tree, C04_fixed_point_real_all_files).  On every run each plist file of "
            "every format-3 input norad loaded is read by the model's file reader and compared with what norad loaded.",
    "note": "Format 1/2 conversion (C14, C15) is abstract in the model; the legacy inputs are covered by the oracle only. "
            "That every written glif says format 2 is a fact of the glif encoder (C02); it is observed on every output.",
}
COQ_TARGETS = ["Props/C04.vo", "Run/C04.vo", "Run/FontFiles.vo"]
PROPS_FILES = ["C04"]
TRUSTED = [
    "model Model/FontRT.v hand-written from src/font.rs, src/layer.rs, src/fontinfo.rs; tied by the correspondence run "
    "(load of the input, saved tree, load of the saved tree) on every format-3 input",
    "laws sig_ok and sig_closed of the per-part codecs: hypotheses, instances toy_ok / toy_closed; proved for the real "
    "instance all_files except closedness of the lib / kerning / layerinfo readers (hypothesis files_in_domain on the input)",
    "models Model/FontRealPlist.v, Model/FontRealFiles.v (plist file readers); tied by the reader-direction file-codec "
    "correspondence (lib/fontfiles_corr.py, Run/FontFiles.v)",
    "lib/ufoio.py (independent writer for the generated inputs, equal() for the comparison)",
    "Coq 8.16.1 kernel and vm_compute; no axioms; no extraction",
]
ASSUMPTIONS = ["per-part closedness (the reader yields values the writer represents) is a hypothesis of C04_load_yields_valid",
               "format 1/2 conversions are abstract functions of the model"]


def _load(p):
    with open(p, encoding="utf-8") as f:
        return json.load(f)


# ------------------------------------------------------------------------------------------------
# legacy trees (format 1 / 2), kept simple

PLIST_HEAD = ('<?xml version="1.0" encoding="UTF-8"?>\n<!DOCTYPE plist PUBLIC "-//Apple//DTD PLIST 1.0//EN" '
              '"http://www.apple.com/DTDs/PropertyList-1.0.dtd">\n<plist version="1.0">\n')


def _pl(v, ind=0):
    t = "\t" * ind
    if isinstance(v, dict):
        if not v:
            return t + "<dict/>\n"
        return t + "<dict>\n" + "".join("%s\t<key>%s</key>\n%s" % (t, _esc(k), _pl(x, ind + 1)) for k, x in v.items()) + t + "</dict>\n"
    if isinstance(v, list):
        if not v:
            return t + "<array/>\n"
        return t + "<array>\n" + "".join(_pl(x, ind + 1) for x in v) + t + "</array>\n"
    if isinstance(v, bool):
        return t + ("<true/>\n" if v else "<false/>\n")
    if isinstance(v, int):
        return t + "<integer>%d</integer>\n" % v
    if isinstance(v, float):
        return t + "<real>%r</real>\n" % v
    return t + "<string>%s</string>\n" % _esc(v)


def _esc(s):
    return s.replace("&", "&amp;").replace("<", "&lt;").replace(">", "&gt;")


def plist_doc(v):
    return (PLIST_HEAD + _pl(v) + "</plist>\n").encode("utf-8")


def legacy_glif_lib(rng):
    """<lib> of a format-1 glif: none, ordinary keys, or -- left by a down-converting tool -- the key
    public.objectLibs next to them: a dictionary with identifiers no object of the glyph has, an empty
    dictionary, or a value that is no dictionary (which the loader must refuse)"""
    r = rng.random()
    if r < 0.5:
        return ""
    entries = [("k", "<string>v</string>")]
    if r >= 0.72:
        ol = rng.choice([
            "<dict>\n        <key>%s</key>\n        <dict>\n          <key>com.example.x</key>\n          <integer>%d</integer>\n        </dict>\n      </dict>"
            % (rng.choice(["id1", "anchor-7", "B0B0"]), rng.randint(0, 9)),
            "<dict>\n        <key>p1</key>\n        <dict/>\n        <key>p2</key>\n        <dict>\n          <key>a</key>\n          <string>b</string>\n        </dict>\n      </dict>",
            "<dict/>", "<dict/>",
            "<string>not a dictionary</string>", "<array/>", "<integer>3</integer>"])
        entries.append(("public.objectLibs", ol))
        if rng.random() < 0.5:
            entries.reverse()
        if rng.random() < 0.3:
            entries = [e for e in entries if e[0] != "k"]
    body = "".join("      <key>%s</key>\n      %s\n" % e for e in entries)
    return "  <lib>\n    <dict>\n%s    </dict>\n  </lib>\n" % body


def gen_legacy(rng, version, path):
    os.makedirs(os.path.join(path, "glyphs"))

    def put(rel, data):
        with open(os.path.join(path, *rel.split("/")), "wb") as f:
            f.write(data)
    put("metainfo.plist", plist_doc({"creator": rng.choice(["org.robofab.ufoLib", "com.example"]), "formatVersion": version}))
    num = lambda: rng.choice([rng.randint(-2000, 2000), rng.randint(0, 4000) / 2.0, float(rng.randint(0, 1000))])  # noqa: E731
    if version == 1:
        info = {"familyName": rng.choice(["Fam", "A & B", "été"]), "styleName": "Regular",
                "unitsPerEm": rng.choice([1000, 2048, 1000.0, 512.5]), "ascender": num(), "descender": -abs(num()),
                "fontStyle": rng.choice([0, 1, 32, 33, 64]), "msCharSet": rng.choice([0, 1, 2, 77, 128, 186, 255]),
                "year": rng.randint(1990, 2030), "widthName": rng.choice(["Medium (normal)", "Condensed", "Ultra-expanded"]),
                "weightValue": rng.choice([-1, 100, 400, 900]), "xHeight": num()}
    else:
        info = {"familyName": rng.choice(["Fam", "A & B", "été"]), "styleName": "Bold",
                "unitsPerEm": rng.choice([1000, 2048, 1000.0, 512.5]), "ascender": num(), "descender": -abs(num()),
                "openTypeOS2WeightClass": rng.choice([100, 400, 900]), "openTypeHheaAscender": rng.choice([750, 750.5, 749.5, -10.5]),
                "openTypeOS2WinAscent": rng.choice([10, 10.5, -3, -2.5]), "postscriptBlueValues": [0, 10, 500, 510.5],
                "openTypeHeadLowestRecPPEM": rng.choice([8, 8.5, -9]), "versionMinor": rng.choice([0, 5])}
    for k in rng.sample(sorted(info), rng.randint(0, 3)):
        del info[k]
    if rng.random() < 0.9:
        put("fontinfo.plist", plist_doc(info))
    names = ["A", "B", "a.alt", "C_D"][: rng.randint(1, 4)]
    if rng.random() < 0.8:
        groups = {}
        if rng.random() < 0.8:
            groups["@MMK_L_A"] = ["A"]
        if rng.random() < 0.8:
            groups["@MMK_R_B"] = ["B"] if "B" in names else []
        if rng.random() < 0.5:
            groups["plain"] = list(names)
        if rng.random() < 0.3:
            groups["A"] = ["a.alt"]     # a group named like a glyph
        put("groups.plist", plist_doc(groups))
        if rng.random() < 0.8:
            kern = {}
            if "@MMK_L_A" in groups:
                kern["@MMK_L_A"] = {"B": rng.choice([-10, 5.5]), "@MMK_R_B": -20} if "@MMK_R_B" in groups else {"B": 7}
            kern["A"] = {"B": rng.choice([1, 1.5, -3])}
            put("kerning.plist", plist_doc(kern))
    lib = {}
    if rng.random() < 0.6:
        lib["com.example.key"] = rng.choice(["v", 1, [1, 2], {"a": "b"}])
    if version == 1 and rng.random() < 0.7:
        lib["org.robofab.opentype.classes"] = "@c = [A B];\n"
        lib["org.robofab.opentype.features"] = {"liga": "feature liga { sub A B by A; } liga;\n", "kern": "feature kern { pos A B 1; } kern;\n"}
        if rng.random() < 0.5:
            lib["org.robofab.opentype.featureorder"] = ["liga", "kern"]
        if rng.random() < 0.5:
            lib["org.robofab.postScriptHintData"] = {"blueFuzz": 1, "blueValues": [[0, 10], [500, 510]], "hStems": [80, 90], "forceBold": False}
    if lib or rng.random() < 0.3:
        put("lib.plist", plist_doc(lib))
    if version == 2 and rng.random() < 0.6:
        put("features.fea", rng.choice([b"feature liga { sub A B by A; } liga;\n", b"# x\r\nlanguagesystem DFLT dflt;\r\n"]))
    contents = {}
    for n in names:
        fn = "".join(c + "_" if c.isupper() else c for c in n) + ".glif"
        contents[n] = fn
        # real contours and implicit-anchor contours (a single named move point) in any order: the
        # format-1 upgrade turns the latter into anchors and must not leave an empty contour behind
        cs = []
        for _ in range(rng.choice([0, 1, 1, 2, 3])):
            cs.append('    <contour>\n      <point x="0" y="0" type="line"/>\n      <point x="%d" y="10.5" type="line"/>\n'
                      '      <point x="5" y="5"/>\n      <point x="7" y="%d" type="qcurve" smooth="yes"/>\n    </contour>\n'
                      % (rng.randint(-50, 500), rng.randint(0, 700)))
        for _ in range(rng.choice([0, 0, 1, 1, 2])):
            cs.append('    <contour>\n      <point x="10" y="%d" type="move" name="%s"/>\n    </contour>\n'
                      % (rng.randint(0, 800), rng.choice(["top", "bottom", "_top"])))
        rng.shuffle(cs)
        pts = "".join(cs)
        if rng.random() < 0.3 and n != "A":
            pts += '    <component base="A" xOffset="%d"/>\n' % rng.randint(-5, 5)
        glif = ('<?xml version="1.0" encoding="UTF-8"?>\n<glyph name="%s" format="1">\n  <advance width="%s"/>\n%s  <outline>\n%s  </outline>\n%s</glyph>\n'
                % (n, rng.choice(["500", "512.5", "0"]),
                   '  <unicode hex="%04X"/>\n' % ord(n[0]) if rng.random() < 0.7 else "", pts,
                   legacy_glif_lib(rng)))
        put("glyphs/" + fn, glif.encode("utf-8"))
    put("glyphs/contents.plist", plist_doc(contents))


# ------------------------------------------------------------------------------------------------
# mutations of a format-3 tree (most of them keep it loadable)

def _files(ufo, suffix):
    out = []
    for root, _, fs in os.walk(ufo):
        for f in fs:
            if f.endswith(suffix):
                out.append(os.path.join(root, f))
    return sorted(out)


def mutate(rng, ufo):
    """apply one random mutation in place; returns its name"""
    kind = rng.choice(["drop_optional", "drop_layerinfo", "comment_plist", "decl", "crlf_plist", "move_default",
                       "orphan_object_libs", "meta_minor", "bom", "extra_file", "glif_attr_order", "truncate_features",
                       "dup_layer_entry", "empty_groups", "glif_formatminor", "objlibs_unknown_id",
                       "dup_layer_name", "reserved_name", "dup_glif_file", "case_dup_layer_dir", "case_dup_glif",
                       "v1_glif_objectlibs"])

    def rd(p):
        with open(p, "rb") as f:
            return f.read()

    def wr(p, b):
        with open(p, "wb") as f:
            f.write(b)
    P = lambda *a: os.path.join(ufo, *a)  # noqa: E731
    if kind == "v1_glif_objectlibs":
        # a format-1 glif (inside a format-3 UFO) whose lib holds public.objectLibs
        c = _files(ufo, ".glif")
        if c:
            p = rng.choice(c)
            m = re.search(br'<glyph\s[^>]*?name\s*=\s*("[^"]*"|\'[^\']*\')', rd(p))
            if m and b"&" not in m.group(1):
                lib = ""
                while "public.objectLibs" not in lib:
                    lib = legacy_glif_lib(rng)
                wr(p, (b'<?xml version="1.0" encoding="UTF-8"?>\n<glyph name=' + m.group(1) + b' format="1">\n  <advance width="500"/>\n'
                       b'  <outline>\n    <contour>\n      <point x="0" y="0" type="line"/>\n      <point x="5" y="7" type="line"/>\n'
                       b'    </contour>\n  </outline>\n' + lib.encode("utf-8") + b'</glyph>\n'))
    elif kind == "drop_optional":
        c = [n for n in ("lib.plist", "fontinfo.plist", "groups.plist", "kerning.plist", "features.fea") if os.path.exists(P(n))]
        if c:
            os.remove(P(rng.choice(c)))
    elif kind == "drop_layerinfo":
        c = _files(ufo, "layerinfo.plist")
        if c:
            os.remove(rng.choice(c))
    elif kind == "comment_plist":
        c = _files(ufo, ".plist")
        p = rng.choice(c)
        b = rd(p)
        i = b.find(b"<plist")
        if i >= 0:
            wr(p, b[:i] + b"<!-- mutated -->\n" + b[i:] + b"\n<!-- tail -->\n")
    elif kind == "decl":
        c = _files(ufo, ".plist") + _files(ufo, ".glif")
        p = rng.choice(c)
        b = rd(p)
        b2 = re.sub(br"^\xef?\xbb?\xbf?<\?xml[^>]*\?>\s*", rng.choice([b"", b"<?xml version='1.0' encoding='utf-8'?>\n", b'<?xml version="1.0" encoding="UTF-8" standalone="yes"?>']), b, count=1)
        wr(p, b2)
    elif kind == "crlf_plist":
        c = _files(ufo, ".plist")
        p = rng.choice(c)
        wr(p, rd(p).replace(b"\r\n", b"\n").replace(b"\n", b"\r\n"))
    elif kind == "move_default":
        p = P("layercontents.plist")
        b = rd(p).decode("utf-8")
        items = re.findall(r"<array>\s*<string>.*?</string>\s*<string>.*?</string>\s*</array>", b, re.S)
        if len(items) > 1:
            new = items[:]
            rng.shuffle(new)
            head, tail = b.split(items[0], 1)[0], b.rsplit(items[-1], 1)[1]
            wr(p, (head + "\n".join(new) + tail).encode("utf-8"))
    elif kind in ("orphan_object_libs", "objlibs_unknown_id"):
        p = P("lib.plist")
        entry = "<key>public.objectLibs</key><dict><key>no-such-id</key><dict><key>k</key><integer>1</integer></dict></dict>"
        if os.path.exists(p):
            b = rd(p).decode("utf-8")
            if "public.objectLibs" not in b and "<dict>" in b:
                wr(p, b.replace("<dict>", "<dict>" + entry, 1).encode("utf-8"))
            elif "public.objectLibs" not in b and re.search(r"<dict\s*/>", b):
                wr(p, re.sub(r"<dict\s*/>", "<dict>" + entry + "</dict>", b, count=1).encode("utf-8"))
        else:
            wr(p, (PLIST_HEAD + "<dict>" + entry + "</dict></plist>").encode("utf-8"))
        if kind == "orphan_object_libs" and os.path.exists(P("fontinfo.plist")):
            os.remove(P("fontinfo.plist"))
    elif kind == "meta_minor":
        wr(P("metainfo.plist"), plist_doc({"creator": rng.choice(["x.y", "org.linebender.norad"]), "formatVersion": 3,
                                           "formatVersionMinor": rng.randint(0, 3)}))
    elif kind == "bom":
        c = _files(ufo, ".plist") + _files(ufo, ".glif")
        p = rng.choice(c)
        b = rd(p)
        if not b.startswith(b"\xef\xbb\xbf"):
            wr(p, b"\xef\xbb\xbf" + b)
    elif kind == "extra_file":
        wr(P(rng.choice(["notes.txt", "glyphs/README", "glyphs/extra.glif.bak"])), b"not font data\n")
    elif kind == "glif_attr_order":
        c = _files(ufo, ".glif")
        if c:
            p = rng.choice(c)
            b = rd(p).decode("utf-8")
            b2 = re.sub(r'<glyph name="([^"]*)" format="2"', r'<glyph format="2" name="\1"', b, count=1)
            wr(p, b2.encode("utf-8"))
    elif kind == "glif_formatminor":
        c = _files(ufo, ".glif")
        if c:
            p = rng.choice(c)
            b = rd(p).decode("utf-8")
            wr(p, re.sub(r'format="2"', 'format="2" formatMinor="0"', b, count=1).encode("utf-8"))
    elif kind == "truncate_features":
        if os.path.exists(P("features.fea")):
            b = rd(P("features.fea"))
            wr(P("features.fea"), b[: rng.randint(0, len(b))].decode("utf-8", "ignore").encode("utf-8"))
    elif kind == "dup_layer_entry":
        p = P("layercontents.plist")
        b = rd(p).decode("utf-8")
        items = re.findall(r"<array>\s*<string>.*?</string>\s*<string>.*?</string>\s*</array>", b, re.S)
        if items:
            wr(p, b.replace(items[-1], items[-1] + "\n" + items[-1], 1).encode("utf-8"))
    elif kind == "empty_groups":
        wr(P("groups.plist"), plist_doc({}))
    elif kind in ("dup_layer_name", "reserved_name"):
        # a second layer entry: same name as an existing layer (other directory) / public.default outside glyphs
        p = P("layercontents.plist")
        b = rd(p).decode("utf-8")
        m = re.search(r"<array>\s*<string>(.*?)</string>\s*<string>(.*?)</string>\s*</array>", b, re.S)
        if m:
            name = m.group(1) if kind == "dup_layer_name" else "public.default"
            newdir = "glyphs.mutated"
            if not os.path.exists(P(newdir)):
                os.makedirs(P(newdir))
                wr(P(newdir, "contents.plist"), plist_doc({}))
            wr(p, b.replace(m.group(0), m.group(0) + "\n<array><string>%s</string><string>%s</string></array>" % (name, newdir), 1).encode("utf-8"))
    elif kind == "case_dup_layer_dir":
        # a further layer whose directory differs from an existing one only in (ASCII) case:
        # glyphs.A_ / glyphs.a_, Glyphs / glyphs
        p = P("layercontents.plist")
        b = rd(p).decode("utf-8")
        dirs = re.findall(r"<array>\s*<string>.*?</string>\s*<string>(.*?)</string>\s*</array>", b, re.S)
        cands = [d for d in dirs if d.swapcase() != d and "&" not in d and "<" not in d and not os.path.exists(P(d.swapcase()))]
        if cands:
            d = rng.choice(cands)
            v = "".join(c.swapcase() if c.isascii() else c for c in d)
            m = re.search(r"</array>\s*</plist>", b)
            if m and v != d and not os.path.exists(P(v)):
                os.makedirs(P(v))
                wr(P(v, "contents.plist"), plist_doc({}))
                wr(p, (b[:m.start()] + "<array><string>case variant layer</string><string>%s</string></array>" % v + b[m.start():]).encode("utf-8"))
    elif kind == "case_dup_glif":
        # a further glyph whose glif file name differs from an existing one only in (ASCII) case: x.glif / X.GLIF
        c = [x for x in _files(ufo, "contents.plist")]
        rng.shuffle(c)
        for p in c:
            b = rd(p).decode("utf-8")
            m = re.search(r"<key>.*?</key>\s*<string>(.*?)</string>", b, re.S)
            if m and "&" not in m.group(1) and "<" not in m.group(1):
                fn = m.group(1)
                v = "".join(ch.swapcase() if ch.isascii() else ch for ch in fn)
                src = os.path.join(os.path.dirname(p), fn)
                dst = os.path.join(os.path.dirname(p), v)
                if v != fn and os.path.exists(src) and not os.path.exists(dst):
                    shutil.copyfile(src, dst)
                    wr(p, b.replace(m.group(0), m.group(0) + "<key>zz.case.variant</key><string>%s</string>" % v, 1).encode("utf-8"))
                    break
    elif kind == "dup_glif_file":
        c = [x for x in _files(ufo, "contents.plist")]
        rng.shuffle(c)
        for p in c:
            b = rd(p).decode("utf-8")
            m = re.search(r"<key>.*?</key>\s*<string>(.*?)</string>", b, re.S)
            if m:
                wr(p, b.replace(m.group(0), m.group(0) + "<key>zz.mutated.dup</key><string>%s</string>" % m.group(1), 1).encode("utf-8"))
                break
    return kind


# ------------------------------------------------------------------------------------------------

def has_object_libs_key(first):
    return "public.objectLibs" in (first.get("lib") or {})


def check_output_format(fc, ufoio, rufo):
    """saved metainfo says formatVersion 3, every glif format="2" """
    bad = []
    try:
        md = ufoio.read_plist_file(os.path.join(rufo, "metainfo.plist"), "metainfo.plist")["v"]
        if md.get("formatVersion", {}).get("v") != 3:
            bad.append("metainfo.plist formatVersion = %r" % (md.get("formatVersion"),))
    except Exception as e:
        bad.append("metainfo.plist unreadable: %r" % (e,))
    for p in _files(rufo, ".glif"):
        with open(p, "rb") as f:
            try:
                root = ufoio.parse_xml(f.read(), p)
            except ufoio.UfoError as e:
                bad.append("%s: %s" % (os.path.relpath(p, rufo), e))
                continue
        if root.tag != "glyph" or root.attrs.get("format") != "2":
            bad.append("%s: format=%r" % (os.path.relpath(p, rufo), root.attrs.get("format")))
    return bad


def run(ctx, known, built):
    import driver
    import fontrt_corr as fc
    import ufoio
    from driver import sh
    known_ids = {k["id"] for k in known}
    thorough = ctx.thorough()
    n_written = 3000 if thorough else 200
    n_legacy = 1500 if thorough else 120
    n_mut = 4000 if thorough else 320
    rng = random.Random(ctx.seed * 7919 + 4)
    cdir = os.path.join(ctx.scratch, "cases")
    os.makedirs(cdir)
    cases = []      # (name, kind, info)

    def new_case(kind, info=None):
        name = "case_%05d" % len(cases)
        os.makedirs(os.path.join(cdir, name))
        cases.append((name, kind, info or {}))
        return os.path.join(cdir, name, "in.ufo")
    verif = os.path.dirname(os.path.dirname(os.path.dirname(os.path.abspath(__file__))))
    # 0. corpus: witnesses (trees stored as {relative path: text})
    wdir = os.path.join(verif, "corpus", "C04")
    if os.path.isdir(wdir):
        for fn in sorted(os.listdir(wdir)):
            if fn.endswith(".json"):
                w = _load(os.path.join(wdir, fn))
                dst = new_case("witness", {"file": fn, "class": w.get("class")})
                for rel, text in w["tree"].items():
                    p = os.path.join(dst, *rel.split("/"))
                    os.makedirs(os.path.dirname(p), exist_ok=True)
                    with open(p, "wb") as f:
                        f.write(text.encode("utf-8"))
    # 1. every fixture UFO of the repository (formats 1, 2, 3)
    for root, ds, _ in os.walk(os.path.join(driver.REPO, "testdata")):
        for d in sorted(ds):
            if d.endswith(".ufo"):
                dst = new_case("fixture", {"source": os.path.relpath(os.path.join(root, d), driver.REPO)})
                shutil.copytree(os.path.join(root, d), dst, symlinks=True)
        ds[:] = [d for d in ds if not d.endswith(".ufo")]
    # 2. generated fonts rendered by the independent writer with random legal syntax
    gdir = os.path.join(ctx.scratch, "gen")
    rc, o = sh([ctx.harness, "c04", "--out", gdir, "--seed", str(ctx.seed), "--count", str(n_written),
                "--gen", "f13_meta,cr_in_plist,empty_contours,note_blanks,cr_in_note,f2_numbers,subnormal_advance,attr_ws"], timeout=3000)
    if rc != 0:
        ctx.disagreements.append({"what": "harness c04 (generation) failed", "output": o[-1500:]})
        return
    bases = []
    for k in range(n_written):
        cd = os.path.join(gdir, "case_%d" % k)
        font = _load(os.path.join(cd, "font.json"))
        r2 = random.Random(ctx.seed * 1000003 + k)
        style = ufoio.random_style(r2)
        dst = new_case("written", {"gen_case": k, "style": style})
        try:
            ufoio.write_ufo(font, dst, r2, style)
        except Exception as e:
            ctx.disagreements.append({"what": "independent writer failed", "case": k, "error": repr(e)})
            continue
        bases.append(dst)
        if os.path.isdir(os.path.join(cd, "n.ufo")):
            bases.append(os.path.join(cd, "n.ufo"))
    # 3. legacy trees
    for i in range(n_legacy):
        v = 1 if i % 2 == 0 else 2
        dst = new_case("legacy", {"version": v})
        os.makedirs(dst)
        gen_legacy(rng, v, dst)
    # 4. mutated trees
    for i in range(n_mut):
        if not bases:
            break
        src = rng.choice(bases)
        dst = new_case("mutated", {})
        shutil.copytree(src, dst)
        muts = [mutate(rng, dst) for _ in range(rng.choice([1, 1, 2, 3]))]
        cases[-1][2]["mutations"] = muts
    ctx.note("%d inputs prepared" % len(cases))
    rc, o = sh([ctx.harness, "c04", "--resave", cdir], timeout=3000)
    if rc != 0:
        ctx.disagreements.append({"what": "harness c04 --resave failed", "output": o[-1500:]})
        return
    ctx.note("resave done")
    stats = collections.Counter()
    class_hits = collections.Counter()
    corr = []
    fcorr = []
    import fontfiles_corr as ffc
    for name, kind, info in cases:
        cd = os.path.join(cdir, name)
        stats["inputs"] += 1
        stats["inputs_" + kind] += 1

        def tree_text():
            t = {}
            for root, _, fs in os.walk(os.path.join(cd, "in.ufo")):
                for f in fs:
                    p = os.path.join(root, f)
                    try:
                        t[os.path.relpath(p, os.path.join(cd, "in.ufo")).replace(os.sep, "/")] = open(p, "rb").read().decode("utf-8")
                    except UnicodeDecodeError:
                        t[os.path.relpath(p, os.path.join(cd, "in.ufo")).replace(os.sep, "/")] = "<binary>"
            return t
        base = {"input": name, "kind": kind, "info": info, "seed": ctx.seed}
        if os.path.exists(os.path.join(cd, "first_error.txt")):
            stats["not_loadable"] += 1
            err = open(os.path.join(cd, "first_error.txt")).read()
            if err.startswith("PANIC"):
                ctx.disagreements.append({"what": "Font::load panicked (C03)", "input": name, "kind": kind, "info": info, "error": err[:300]})
            # the refusals norad's own load logic makes are modelled: compare the error variant
            code = None
            for pat, cd_ in (("DuplicateLayerName", 12), ("DuplicateLayerDirectory", 13), ("ReservedLayerName", 14),
                             ("DuplicateGlyphFileName", 15)):
                if pat in err:
                    code = cd_
                    stats["refused_" + pat] += 1
                    if any(mu.startswith("case_dup") for mu in (info.get("mutations") or [])):
                        stats["refused_case_variant_inputs"] += 1
            if code is not None and "crlf_plist" not in (info.get("mutations") or []):
                try:
                    t_in = fc.read_tree(os.path.join(cd, "in.ufo"))
                    if t_in["meta"] and t_in["meta"][2] == 3:
                        corr.append((name, fc.tree_term(os.path.join(cd, "in.ufo")), fc.e_l([fc.e_n(3), fc.e_n(code)])))
                        stats["refusals_compared"] += 1
                except Exception:
                    stats["not_modelled_inputs"] += 1
            continue
        first = _load(os.path.join(cd, "first.json"))
        stats["loaded"] += 1
        stats["loaded_" + kind] += 1
        in_class = None
        if os.path.exists(os.path.join(cd, "save_error.txt")):
            err = open(os.path.join(cd, "save_error.txt")).read()
            # (the former classes orphan_object_libs / duplicate_layer_entry were repaired by 1c81824 / 83f6c18)
            v = dict(base)
            v.update({"save_error": err[:400], "tree": tree_text(), "demand": "a font that was loaded can be saved"})
            ctx.violations.append(v)
        elif os.path.exists(os.path.join(cd, "second_error.txt")):
            v = dict(base)
            v.update({"second_load_error": open(os.path.join(cd, "second_error.txt")).read()[:400], "tree": tree_text(),
                      "demand": "norad loads what it saved"})
            ctx.violations.append(v)
        else:
            second = _load(os.path.join(cd, "second.json"))
            stats["fixed_point_checks"] += 1
            d, obs = fc.equal(second, first, strip="none", tol=0.0, ignore_creator=True)
            outside = []
            for path, got, want in d:
                c = fc.classify_diff(first, path, got, want)
                if c is not None:
                    class_hits[c] += 1
                if c is not None and c in known_ids:
                    ctx.known_hits[c] = ctx.known_hits.get(c, 0) + 1
                else:
                    outside.append((path, got, want))
            if outside:
                v = dict(base)
                v.update({"differences": [{"path": p, "second": fc.short(g), "first": fc.short(w)} for p, g, w in outside[:6]],
                          "tree": tree_text(),
                          "demand": "load(save(load(x))) = load(x) in all data (creator and CRLF of the feature text apart)"})
                ctx.violations.append(v)
            bad = check_output_format(fc, ufoio, os.path.join(cd, "r.ufo"))
            if bad:
                v = dict(base)
                v.update({"output_format": bad[:5], "tree": tree_text(), "demand": "what is written is format 3 with format-2 glyphs"})
                ctx.violations.append(v)
            if second["meta"].get("formatVersion") != 3 or first["meta"].get("formatVersion") != 3:
                v = dict(base)
                v.update({"format_version": [first["meta"], second["meta"]], "demand": "a loaded font says format 3"})
                ctx.violations.append(v)
        # correspondence with the model: format-3 inputs (not those whose character data got CR LF
        # line breaks: expat normalises them, quick-xml does not — class crlf_text of C05 — so the
        # driver's reading of the input would not be norad's)
        if "crlf_plist" in (info.get("mutations") or []):
            stats["not_modelled_inputs"] += 1
            continue
        try:
            t_in = fc.read_tree(os.path.join(cd, "in.ufo"))
            if t_in["meta"] and t_in["meta"][2] == 3:
                term = fc.tree_term(os.path.join(cd, "in.ufo"))
                ef = fc.e_font(fc.font_obs(first))
                if os.path.exists(os.path.join(cd, "second.json")):
                    tr = fc.read_tree(os.path.join(cd, "r.ufo"))
                    corr.append((name, term, fc.e_l([fc.e_n(0), ef, fc.e_tree(tr),
                                                     fc.e_ok(fc.e_font(fc.font_obs(_load(os.path.join(cd, "second.json")))))])))
                # the plist files of the input, read by the tree-level file codecs: what norad loaded
                try:
                    for rel, e in ffc.checks_loaded(os.path.join(cd, "in.ufo"), first,
                                                        fontinfo=(len(fcorr) % (13 if thorough else 3) == 0)):
                        fcorr.append((name + "/" + rel, e))
                except Exception as e:
                    ctx.disagreements.append({"what": "cannot build the file-codec case", "input": name, "kind": kind,
                                              "info": info, "error": repr(e)})
        except Exception:
            stats["not_modelled_inputs"] += 1
    ctx.note("oracle done")
    nd = 0
    if not built:
        ctx.disagreements.append({"what": "Coq development does not build; correspondence not evaluated"})
    else:
        res = fc.eval_checks(ctx, "resave", "c_resave", [(t, e) for _, t, e in corr], shard=max(8, len(corr) // 16 + 1))
        bad = [(i, r) for i, r in enumerate(res) if r is not True]
        nd = len(bad)
        info_of = {n: (k, i) for n, k, i in cases}
        for i, r in bad[:10]:
            mv = fc.eval_cases(ctx, "resave_dbg_%d" % i, "j_resave", [corr[i][1]])[0]
            ctx.disagreements.append({"what": "model and implementation differ (load / save / load of a format-3 input)",
                                      "input": corr[i][0], "kind": info_of[corr[i][0]][0], "info": info_of[corr[i][0]][1],
                                      "seed": ctx.seed, "coq_check": r if r is not False else "false",
                                      "model_value": fc.short(mv, 3000), "implementation_value": corr[i][2][:3000]})
        ctx.obligation("correspondence:C04 resave (%d cases)" % len(corr), not bad and len(corr) > 0,
                       "%d of %d cases differ" % (len(bad), len(corr)))
        codes = ffc.eval_codes(ctx, "files", [e for _, e in fcorr])
        fbad = [(i, c) for i, c in enumerate(codes) if c != 0]
        nd += len(fbad)
        for i, c in fbad[:10]:
            nm = fcorr[i][0].split("/")[0]
            ctx.disagreements.append({"what": "file codec model and implementation differ on an input file: " +
                                      (ffc.CODES.get(c, str(c)) if isinstance(c, int) else "evaluation failed"),
                                      "file": fcorr[i][0], "kind": info_of[nm][0], "info": info_of[nm][1], "seed": ctx.seed,
                                      "coq_check": c, "expression": fcorr[i][1][:3000]})
        ctx.obligation("correspondence:C04 plist file readers (%d input files)" % len(fcorr), not fbad and len(fcorr) > 0,
                       "%d of %d files differ" % (len(fbad), len(fcorr)))
    ctx.note("correspondence done")
    for x in ctx.disagreements[:3]:
        ctx.note("disagreement: " + json.dumps(x, ensure_ascii=False, default=str)[:2500])
    ctx.cov.update({
        "evaluations": stats["fixed_point_checks"],
        "distinct_nontrivial": stats["loaded"],
        "rule": "inputs = fixture UFOs + independently written trees + generated legacy trees + mutated trees; non-trivial = "
                "inputs that load (the others are not in the property's domain).",
        "exhaustive": False,
        "traces_validated_against_impl": len(corr),
        "input_distribution": dict(stats), "class_hits": dict(class_hits),
        "correspondence_cases": len(corr), "file_codec_cases": len(fcorr), "correspondence_disagreements": nd,
    })
    ctx.samples += [{"input": n, "kind": k} for n, k, _ in cases[:3]]
    ctx.violations.sort(key=lambda v: len(json.dumps(v.get("tree", ""))))


def replay(ctx, path):
    import fontrt_corr as fc
    from driver import sh
    d = _load(path)
    v = d.get("input") or {}
    tree = v.get("tree")
    if tree is None and d.get("disagreeing_cases"):
        print(json.dumps(d["disagreeing_cases"][0], indent=1)[:3000])
        return 0
    if tree is None:
        print("replay file has no input tree: %s" % json.dumps(d)[:800])
        return 1
    cd = os.path.join(ctx.scratch, "replay", "case_0")
    for rel, text in tree.items():
        p = os.path.join(cd, "in.ufo", *rel.split("/"))
        os.makedirs(os.path.dirname(p), exist_ok=True)
        with open(p, "wb") as f:
            f.write(text.encode("utf-8"))
    sh([ctx.harness, "c04", "--resave", os.path.dirname(cd)], timeout=600)
    for f in ("first_error.txt", "save_error.txt", "second_error.txt"):
        if os.path.exists(os.path.join(cd, f)):
            print(f, ":", open(os.path.join(cd, f)).read()[:500])
    if os.path.exists(os.path.join(cd, "second.json")):
        dd, _ = fc.equal(_load(os.path.join(cd, "second.json")), _load(os.path.join(cd, "first.json")), strip="none", tol=0.0)
        print("differences between load(save(load(x))) and load(x):", len(dd))
        for p, g, w in dd[:6]:
            print("  ", p, "second =", fc.short(g), " first =", fc.short(w))
    return 0
