"""C19 — parallel loading and saving give exactly the sequential results."""
import concurrent.futures
import json
import re
import os
import shutil
import time

META = {
    "level": "proof",
    "design_ref": "DESIGN.md section 8, C19; section 4.1 (parallel-site inventory)",
    "technique": "Coq proof over ALL schedules of a small-step model of the interning protocol and result assembly "
                 "+ parallel-site anchor + differential runs of a sequential and a rayon build of the same harness",
    "text": "PARTIAL. Kernel-checked: in the model of ParNameList::get (non-atomic read-lookup / release / "
            "write-insert on a shared set, names = (content, allocation)) and of the parallel map/collect and "
            "for_each of Layer::load_impl / save_with_options, for EVERY schedule (arbitrary list of thread ids, any "
            "number of tasks) every get returns the requested content, the interner ends as the duplicate-free union, "
            "every task completes once, the collected BTreeMap is independent of completion order, Ok iff all tasks "
            "Ok, and the loaded font / written tree equal the sequential ones (contents; Ok-or-Err). Saving is proved "
            "for pairwise distinct glif paths, which for a loaded layer follows from load_impl's file-name check "
            "(modelled; proved) and for every layer state reachable through the API from C06's invariant and C07's "
            "distinctness theorem (Props/C19api.v: C19_save_full_api, no side condition). Tied to the code by the regenerated inventory of every "
            "rayon/lock/RefCell/Arc/interner site (incl. the text of the three transliterated code regions) and by "
            "running a sequential and a rayon build on generated UFOs under RAYON_NUM_THREADS in {1,2,3,4,8,16} x "
            "repetitions, comparing full font dumps and saved-tree hashes, and both with the model's prediction.",
    "note": "Not modelled: rayon's scheduler/work stealing, OS threads, lock poisoning, memory ordering; these are "
            "only exercised by the differential runs (which observe few interleavings). File writes are modelled both "
            "as atomic and as truncate-then-write steps.",
}
COQ_TARGETS = ["Props/C19.vo", "Props/C19api.vo", "Run/C19.vo", "Model/SitesPar.vo"]
PROPS_FILES = ["C19", "C19api"]      # C19api: save half for all API-reachable layer states (imports C06/C07)
TRUSTED = [
    "model Model/Interleave.v hand-written from src/names.rs, src/layer.rs, src/glyph/parse.rs; tied by the site "
    "inventory (AnchorsOK_C19) and by the differential + model runs",
    "rayon, std::sync::RwLock, the OS scheduler and file system are NOT modelled (label: partial)",
    "lib/anchors_c19.py (regex/brace scanner) ; harness/src/c19.rs (UFO generator, dump, tree hash)",
    "Coq 8.16.1 kernel and vm_compute; no axioms; no extraction",
]
ASSUMPTIONS = [
    "cross-load histories: the model has no state that outlives a load (every Font::load starts from "
    "NameList::default(), C19_load_independent_of_history: even an arbitrary leftover interner content cannot change "
    "the loaded font); that the implementation keeps none either (per thread, per process, per pool) is tied by the "
    "history stream (2-4 loads of different fonts of one name family per process, each compared with loading that "
    "UFO alone in a fresh process) and by the inventory of thread_local!/static sites",
    "failed saves / loads are compared by Ok-or-failure; WHICH failure is reported (error identity, and panic versus "
    "Err) is compared only when the failing glif tasks of the save fail alike: by C19_save_failure_is_some_tasks / "
    "C19_save_failure_uniform a parallel try_for_each reports the failure of some failing task. The one mixed case "
    "that occurs (a panicking task from a raw-entry removal plus an erroring task in the same layer) is the known "
    "finding raw-entry-panic-vs-io-error; its class predicate is evaluated by the harness on the font state before "
    "every save (line FAILSET) and checked against the sequential build's outcome",
    "several saves in one process (thread pool and per-thread state survive): [save fails on an objectLibs key, key "
    "removed, save again], [save below a directory so deep that one long-named glif exceeds PATH_MAX: I/O error while "
    "the glifs are written, then save elsewhere], [save, save again twice elsewhere]; every successful save's tree and "
    "reloaded font must equal the sequential build's. Not modelled (the model has no state that outlives a save)",
    "API edit histories: half of the generated UFOs are edited after loading, identically in both builds, through the "
    "public container API (insert_glyph, remove_glyph, rename_glyph, get_glyph_mut, and the raw Layer::entry: or_insert "
    "of names sorting first/middle/last, and_modify, Occupied::remove) before saving; trees, post-edit state and the "
    "reloaded fonts are compared between the builds. The MODEL covers such histories only through C06's `clean` "
    "condition (C19_save_full_api: no raw Layer::entry access, C06's known class entry-raw); histories with raw entry "
    "access are covered by the differential run alone",
    "each task is a logical thread; a rayon worker running tasks back to back is a schedule that does not interleave them",
    "a glif write is one step (par_save) or two steps truncate/write (par_save2, trees compared by look-up); "
    "partial writes of the byte stream itself are not modelled",
    "contents keys are pairwise distinct (BTreeMap) - hypothesis NoDup (keys_of ts) of the load theorems",
]
THREADS = [1, 2, 3, 4, 8, 16]


def comparable(text):
    return [l for l in text.split("\n") if not l.startswith("ERRINFO")]


KNOWN_MIXED = "raw-entry-panic-vs-io-error"
FAILSET_RE = re.compile(r"^FAILSET layer=(\d+) panics=(\d+) errs=(\d+)$")
STATUS_RE = re.compile(r"^(SAVE|STEP \d+ (?:deep|again)) (ok|err|panic)$")


def canon_mixed(lines):
    """Class predicate of finding raw-entry-panic-vs-io-error, evaluated by the harness on the font state
    before every save (line FAILSET): in the first failing layer some glif task panics (a name in the
    file-name index without a glyph, reachable only through Layer::entry removal) AND another one returns
    an error. Exactly for such a save the status `panic` / `err` is replaced by one token; everything
    else stays as it is. Returns (lines, indices of the rewritten status lines)."""
    out = []
    mixed = False
    idx = []
    for l in lines:
        m = FAILSET_RE.match(l)
        if m:
            mixed = int(m.group(2)) > 0 and int(m.group(3)) > 0
        elif l.startswith("FAILSET"):
            mixed = False
        else:
            m2 = STATUS_RE.match(l)
            if m2:
                if mixed and m2.group(2) in ("err", "panic"):
                    idx.append(len(out))
                    l = m2.group(1) + " fails(panic-or-err)"
                mixed = False
        out.append(l)
    return out, idx


def failset_consistent(lines):
    """the predicted failing tasks must explain the observed status of the save (sequential build)"""
    bad = []
    cur = None
    for l in lines:
        if l.startswith("FAILSET"):
            cur = l
        else:
            m2 = STATUS_RE.match(l)
            if m2 and cur is not None:
                m = FAILSET_RE.match(cur)
                want = ({"ok"} if not m else {"panic"} if int(m.group(3)) == 0 else {"err"} if int(m.group(2)) == 0
                        else {"panic", "err"})
                if m2.group(2) not in want and "deep skipped" not in l:
                    bad.append((cur, l))
                cur = None
    return bad


def split_tree(lines):
    return [l for l in lines if not l.startswith("TREE ")], [l for l in lines if l.startswith("TREE ")]


def run_bins(ctx, sh, out, seq_bin, par_bin, reps, threads):
    """run the sequential binary once and the rayon binary under every thread count, in parallel"""
    jobs = [("seq", seq_bin, None, max(2, reps // 2))] + [("par%d" % t, par_bin, t, reps) for t in threads]

    def one(job):
        tag, b, t, r = job
        env = {"RAYON_NUM_THREADS": str(t)} if t else {}
        t0 = time.time()
        rc, o = sh([b, "c19", "run", tag, str(r), "--out", out], timeout=3000, env=env)
        return tag, rc, o, round(time.time() - t0, 1)
    res = {}
    with concurrent.futures.ThreadPoolExecutor(max_workers=len(jobs)) as ex:
        for tag, rc, o, dt in ex.map(one, jobs):
            res[tag] = (rc, o, dt)
    return res


def compare(ctx, out, known_ids, threads, ufo_ids, store_replay=True):
    """compare every rayon result with the sequential one; returns statistics"""
    st = {"ufo_runs": 0, "load_ok": 0, "load_err": 0, "save_err": 0, "rep_variation": 0, "sequential_build_not_repeatable": 0,
          "mixed_failure_class_saves": 0, "mixed_failure_class_differences": 0}
    seqdir = os.path.join(out, "res", "seq")
    found = []
    for k in ufo_ids:
        ufo = os.path.join(out, "ufos", k)
        side = json.load(open(ufo + ".json")) if os.path.exists(ufo + ".json") else {}
        sref = comparable(open(os.path.join(seqdir, k + ".txt")).read())
        if sref and sref[0] == "LOAD ok":
            st["load_ok"] += 1
            if "SAVE err" in sref:
                st["save_err"] += 1
        else:
            st["load_err"] += 1
        if side.get("expect_load") and sref[:1] != ["LOAD " + side["expect_load"]]:
            ctx.disagreements.append({"what": "regression input: load outcome differs from the recorded one (model: load_impl "
                                              "refuses a contents.plist in which two names share a file)",
                                      "ufo": k, "expected": "LOAD " + side["expect_load"], "implementation": sref[:1]})
        sref_c, sref_i = canon_mixed(sref)
        if sref_i:
            st["mixed_failure_class_saves"] += len(sref_i)
        for cur, l in failset_consistent(sref):
            ctx.disagreements.append({"what": "class predicate (failing glif tasks predicted from the font state) does not explain "
                                              "the observed status of the save", "ufo": k, "predicted": cur, "observed": l})
        sbase, stree = split_tree(sref_c)
        # the sequential build itself must be repeatable to serve as the reference; if it is not, that
        # is C10's finding (determinism), not a difference between parallel and sequential: skip, count
        if any(f.startswith(k + ".rep") for f in os.listdir(seqdir)):
            st["sequential_build_not_repeatable"] += 1
            continue
        variants = []
        for t in threads:
            d = os.path.join(out, "res", "par%d" % t)
            variants += [("par%d" % t, f) for f in sorted(os.listdir(d)) if f == k + ".txt" or f.startswith(k + ".rep")]
        for tag, f in variants:
            st["ufo_runs"] += 1
            got = comparable(open(os.path.join(out, "res", tag, f)).read())
            if got == sref:
                continue
            cg, ig = canon_mixed(got)
            if cg == sref_c and ig == sref_i:
                # differs from the sequential build only in panic-vs-err of a save inside the class
                st["mixed_failure_class_differences"] += 1
                if KNOWN_MIXED in known_ids:
                    ctx.known_hits[KNOWN_MIXED] = ctx.known_hits.get(KNOWN_MIXED, 0) + 1
                    continue
            if ".rep" in f:
                st["rep_variation"] += 1
            gbase, gtree = split_tree(cg)
            what = None
            if gbase != sbase:
                i = next((i for i in range(min(len(gbase), len(sbase))) if gbase[i] != sbase[i]), min(len(gbase), len(sbase)))
                a = sbase[i] if i < len(sbase) else "<end>"
                b = gbase[i] if i < len(gbase) else "<end>"
                c = next((j for j in range(min(len(a), len(b))) if a[j] != b[j]), min(len(a), len(b)))
                lo = max(0, c - 120)
                part = ("a later save in the same process (after a failed save / a repair / a first save)"
                        if a.startswith(("STEP", "TREE2", "RELOAD2")) else
                        "font reloaded from the saved tree" if a.lstrip().startswith(("RG", "RLAYER", "RELOAD")) else
                        "outcome / state after the API edit script" if a.startswith(("OP", "POST")) else
                        "load dump / Ok-Err status")
                what = {"part": part, "first_difference_line": i, "first_difference_column": c,
                        "sequential": a[:40] + " ... " + a[lo:c + 400], "parallel": b[:40] + " ... " + b[lo:c + 400]}
            else:
                sd = {l.split(" ", 3)[3]: l.split(" ", 3)[1:3] for l in stree if l.count(" ") >= 3}
                gd = {l.split(" ", 3)[3]: l.split(" ", 3)[1:3] for l in gtree if l.count(" ") >= 3}
                diff = sorted(p for p in set(sd) | set(gd) if sd.get(p) != gd.get(p))
                what = {"part": "saved tree", "files_differing": diff[:20],
                        "sequential": {p: sd.get(p) for p in diff[:5]}, "parallel": {p: gd.get(p) for p in diff[:5]}}
            v = {"ufo": k, "build": tag, "result_file": f, "generator": side.get("params"), "generator_seed": side.get("seed"),
                 "demand": "dump of Font::load and tree of Font::save identical to the sequential build's", **what}
            v["glyphs"] = side.get("glyphs", 10**9)
            found.append(v)
    # one entry per (UFO, part), smallest UFO first; a copy of the UFO is stored for the first three
    found.sort(key=lambda v: (v["glyphs"], v["ufo"], v["build"], v["result_file"]))
    seen = {}
    for v in found:
        key = (v["ufo"], v["part"])
        if key in seen:
            seen[key]["also_in"] = seen[key].get("also_in", []) + ["%s/%s" % (v["build"], v["result_file"])]
            continue
        seen[key] = v
        ctx.violations.append(v)
    stored = {}
    for v in ctx.violations:
        if store_replay and (v["ufo"] in stored or len(stored) < 3):
            if v["ufo"] not in stored:
                stored[v["ufo"]] = store_ufo(ctx, os.path.join(out, "ufos", v["ufo"]), v["ufo"])
            v["ufo_copy"] = stored[v["ufo"]]
    return st


def store_ufo(ctx, ufo, k):
    import driver
    d = os.path.join(driver.VERIF, "replays", "C19-ufo-%s-seed%d-%d" % (k, ctx.seed, int(time.time() * 1000) % 10**8))
    try:
        os.makedirs(os.path.dirname(d), exist_ok=True)
        if not os.path.exists(d):
            shutil.copytree(ufo, os.path.join(d, "ufos", k))
            if os.path.exists(ufo + ".json"):
                shutil.copy(ufo + ".json", os.path.join(d, "ufos", k + ".json"))
    except Exception as ex:       # a replay that cannot be stored must not hide the violation
        return "could not store: %r" % (ex,)
    return d


def histories(ctx, sh, out, seq_bin, par_bin, threads, store_replay=True):
    """Cross-load histories (hist.json): 2-4 loads (+ saves) of DIFFERENT fonts of one family (overlapping
    glyph / group names; legacy fonts with glyph-named groups, a kerning-only font without glyphs, a v3
    font) in one process, on the main thread or on one spawned thread, with the rayon pool reused. Every
    step's observation must equal the sequential build's observation of that UFO ALONE in a fresh process
    (which every build's solo run must equal, too): no state may survive a load."""
    hf = os.path.join(out, "hist.json")
    st = {"histories": 0, "history_steps_compared": 0, "solo_runs": 0}
    if not os.path.exists(hf):
        return st
    hs = json.load(open(hf))
    if not hs:
        return st
    ks = sorted({k for h in hs for k in h["steps"]})
    jobs = [("seq", seq_bin, None, ["hist", "seq"])] + [("par%d" % t, par_bin, t, ["hist", "par%d" % t]) for t in threads]
    jobs += [("seq", seq_bin, None, ["solo", "seq", k]) for k in ks] + [("par4", par_bin, 4, ["solo", "par4", k]) for k in ks]

    def one(job):
        tag, b, t, args = job
        return job, sh([b, "c19"] + args + ["--out", out], timeout=3000, env={"RAYON_NUM_THREADS": str(t)} if t else {})
    with concurrent.futures.ThreadPoolExecutor(max_workers=8) as ex:
        for job, (rc, o) in ex.map(one, jobs):
            if rc != 0:
                ctx.disagreements.append({"what": "harness c19 %s failed (rc %d)" % (" ".join(job[3]), rc), "output": o[-800:]})
    if ctx.disagreements:
        return st

    def obs(tag, name):
        return comparable(open(os.path.join(out, "res", tag, name)).read())
    found = []
    for k in ks:
        st["solo_runs"] += 2
        ref = obs("seq", "solo_%s.txt" % k)
        got = obs("par4", "solo_%s.txt" % k)
        if got != ref:
            found.append({"history": ["%s alone" % k], "step": 0, "ufo": k, "build": "par4 (fresh process)", "ref": ref, "got": got, "steps": [k]})
    for h in hs:
        st["histories"] += 1
        for tag in ["seq"] + ["par%d" % t for t in threads]:
            for i, k in enumerate(h["steps"]):
                st["history_steps_compared"] += 1
                ref = obs("seq", "solo_%s.txt" % k)
                got = obs(tag, "hist_%s_%d_%s.txt" % (h["id"], i, k))
                if got != ref:
                    found.append({"history": ["%s (%s)" % (a, b) for a, b in zip(h["steps"], h.get("members", h["steps"]))],
                                  "history_id": h["id"], "thread": h.get("thread"), "step": i, "ufo": k, "build": tag,
                                  "ref": ref, "got": got, "steps": h["steps"]})
    seen = set()
    stored = 0
    for v in sorted(found, key=lambda v: (len(v["steps"]), v["build"] != "par1", v["build"])):
        key = (tuple(v["steps"]), v["step"])
        if key in seen:
            continue
        seen.add(key)
        ref, got = v.pop("ref"), v.pop("got")
        i = next((j for j in range(min(len(ref), len(got))) if ref[j] != got[j]), min(len(ref), len(got)))
        a = ref[i] if i < len(ref) else "<end>"
        b = got[i] if i < len(got) else "<end>"
        c = next((j for j in range(min(len(a), len(b))) if a[j] != b[j]), min(len(a), len(b)))
        lo = max(0, c - 150)
        v.update({"part": "a load inside a history of several loads in one process", "first_difference_line": i,
                  "alone_in_a_fresh_process_sequential_build": a[:30] + " ... " + a[lo:c + 400],
                  "inside_the_history": b[:30] + " ... " + b[lo:c + 400],
                  "demand": "every load of a history gives what loading that UFO alone gives (and what the sequential build gives)"})
        if store_replay and stored < 2:
            v["ufo_copy"] = store_history(ctx, out, v)
            stored += 1
        ctx.violations.append(v)
    return st


def store_history(ctx, out, v):
    import driver
    d = os.path.join(driver.VERIF, "replays", "C19-history-%s-seed%d-%d" % (v.get("history_id", "solo"), ctx.seed, int(time.time() * 1000) % 10**8))
    try:
        os.makedirs(os.path.join(d, "ufos"), exist_ok=True)
        for k in set(v["steps"]):
            shutil.copytree(os.path.join(out, "ufos", k), os.path.join(d, "ufos", k))
            shutil.copy(os.path.join(out, "ufos", k + ".json"), os.path.join(d, "ufos", k + ".json"))
        json.dump([{"id": v.get("history_id", "h"), "steps": v["steps"], "thread": v.get("thread") or "main"}],
                  open(os.path.join(d, "hist.json"), "w"))
    except Exception as ex:
        return "could not store: %r" % (ex,)
    return d


def model_check(ctx, out, ufo_ids, built):
    """Coq model's prediction vs the observed dump of the sequential build (the rayon builds were
    compared with the sequential one line by line, the TM line included)"""
    from driver import coq_values, parse_term
    cases = []
    for k in ufo_ids:
        cf = os.path.join(out, "ufos", k + ".case")
        if not os.path.exists(cf):
            continue
        tm = [l[3:] for l in open(os.path.join(out, "res", "seq", k + ".txt")).read().split("\n") if l.startswith("TM ")]
        if not tm:
            continue    # a panic: already a violation through the dump comparison
        cases.append((k, open(cf).read().strip(), tm[0]))
    nshard = min(16, max(1, len(cases)))
    shards = [cases[i::nshard] for i in range(nshard)]
    files = {}
    for i, shd in enumerate(shards):
        if not shd:
            continue
        vf = os.path.join(out, "cases_%d.v" % i)
        with open(vf, "w") as f:
            f.write("Require Import Norad.Run.RunBase Norad.Run.C19.\nOpen Scope N_scope.\n"
                    "Set Printing Width 100000. Set Printing Depth 1000000.\n")
            f.write("Definition cases : list (case * tm) := [\n%s ].\n" % ";\n".join("(%s,\n %s)" % (c, e) for _, c, e in shd))
            f.write("Eval vm_compute in mismatches run_case cases.\n")
            f.write("Eval vm_compute in map (fun c => races (fst c)) cases.\n")
        files[vf] = shd
    if not built:
        ctx.disagreements.append({"what": "Coq development does not build; model not evaluated"})
        return 0, 0
    res = ctx.coq_eval_many(list(files), timeout=1200)
    ok = 0
    races = 0
    for vf, (rc, o) in sorted(res.items()):
        shd = files[vf]
        vals = coq_values(o) if rc == 0 else []
        if rc != 0 or len(vals) != 2:
            ctx.disagreements.append({"what": "model shard failed to evaluate", "shard": os.path.basename(vf), "output": o[-800:]})
            continue
        ok += 1
        races += sum(parse_term(vals[1]))
        for idx, m in parse_term(vals[0]):
            k = shd[idx][0]
            side = json.load(open(os.path.join(out, "ufos", k + ".json")))
            ctx.disagreements.append({"what": "model's predicted font differs from the implementation's (both builds agree)",
                                      "ufo": k, "generator": side.get("params"), "generator_seed": side.get("seed"),
                                      "model": str(m)[:1500], "implementation": shd[idx][2][:1500],
                                      "ufo_copy": store_ufo(ctx, os.path.join(out, "ufos", k), k)})
    ctx.obligation("correspondence:C19 model vs implementation (%d shards, %d UFOs)" % (len(files), len(cases)),
                   ok == len(files) and not any("model" in d.get("what", "") for d in ctx.disagreements),
                   "model and implementation differ")
    return len(cases), races


def run(ctx, known, built):
    import driver
    from driver import sh
    known_ids = {k["id"] for k in known}
    out = os.path.join(ctx.scratch, "c19")
    os.makedirs(out)
    par_bin = driver.build_harness(ctx, features=("rayon",), target="target-rayon")
    if par_bin is None:
        ctx.disagreements.append({"what": "the harness does not build with --features rayon against the working tree"})
        return
    rc, o = sh([par_bin, "c19", "features"], timeout=60)
    rc2, o2 = sh([ctx.harness, "c19", "features"], timeout=60)
    if "rayon=true" not in o or "rayon=false" not in o2:
        ctx.disagreements.append({"what": "the two harness builds are not (sequential, rayon)", "par": o, "seq": o2})
        return
    rc, o = sh([ctx.harness, "c19", "gen", "--tier", ctx.tier, "--seed", str(ctx.seed), "--out", out], timeout=600)
    if rc != 0:
        ctx.disagreements.append({"what": "harness c19 gen failed", "output": o[-2000:]})
        return
    # committed regression UFOs run first
    corpus = os.path.join(driver.VERIF, "corpus", "C19")
    ncorpus = 0
    if os.path.isdir(corpus):
        for f in sorted(os.listdir(corpus)):
            src = os.path.join(corpus, f)
            if os.path.isdir(src):
                shutil.copytree(src, os.path.join(out, "ufos", "c_" + f))
                if os.path.exists(src + ".json"):
                    shutil.copy(src + ".json", os.path.join(out, "ufos", "c_" + f + ".json"))
                ncorpus += 1
    reps = 25 if ctx.thorough() else 10
    t0 = time.time()
    res = run_bins(ctx, sh, out, ctx.harness, par_bin, reps, THREADS)
    ctx.timings["runs"] = round(time.time() - t0, 1)
    for tag, (rc, o, dt) in res.items():
        if rc != 0:
            ctx.disagreements.append({"what": "harness c19 run %s failed (rc %d)" % (tag, rc), "output": o[-1500:]})
    if ctx.disagreements:
        return
    ufo_ids = sorted(d for d in os.listdir(os.path.join(out, "ufos")) if os.path.isdir(os.path.join(out, "ufos", d))
                     and os.path.exists(os.path.join(out, "res", "seq", d + ".txt")))      # family fonts: history stream
    st = compare(ctx, out, known_ids, THREADS, ufo_ids)
    ctx.obligation("differential:C19 rayon build x %s threads x %d repetitions vs sequential build" % (THREADS, reps),
                   not ctx.violations, "parallel and sequential results differ")
    t0 = time.time()
    nv = len(ctx.violations)
    hst = histories(ctx, sh, out, ctx.harness, par_bin, THREADS)
    ctx.timings["histories"] = round(time.time() - t0, 1)
    ctx.obligation("differential:C19 cross-load histories (%d histories, %d steps) vs loading alone / sequential build"
                   % (hst["histories"], hst["history_steps_compared"]), len(ctx.violations) == nv,
                   "a load inside a history differs from the load of that UFO alone")
    t0 = time.time()
    ncases, races = model_check(ctx, out, ufo_ids, built)
    ctx.timings["model"] = round(time.time() - t0, 1)
    gen = json.load(open(os.path.join(out, "gen.json")))
    nruns = sum(len(json.load(open(os.path.join(out, "res", "par%d" % t, "summary.json")))["ufos"]) * reps for t in THREADS)
    ctx.cov.update({
        "evaluations": nruns + ncases,
        "distinct_nontrivial": st["load_ok"] + st["load_err"],
        "rule": "one evaluation = one Font::load + dump + Font::save + tree hash of one generated UFO by the rayon build "
                "under one RAYON_NUM_THREADS value (compared with the sequential build), plus one model evaluation per "
                "UFO small enough for Coq. Distinct non-trivial = distinct generated UFOs (each has >= 1 layer whose "
                "glyph loading/saving goes through the parallel iterator; %d load Ok, %d load Err (broken glifs, "
                "non-plain or shared glif file names), %d save Err)." % (st["load_ok"], st["load_err"], st["save_err"]),
        "exhaustive": False,
        "input_distribution": {"ufos": len(ufo_ids), "corpus_ufos": ncorpus, "threads": THREADS, "repetitions": reps,
                               "glyphs_total": sum(g["glyphs"] for g in gen),
                               "glyphs_max": max(g["glyphs"] for g in gen), **st},
        "ufos_with_api_edit_script": sum(1 for k in ufo_ids if os.path.exists(os.path.join(out, "ufos", k + ".json"))
                                         and json.load(open(os.path.join(out, "ufos", k + ".json"))).get("script")),
        "cross_load_histories": hst,
        "model_cases": ncases,
        "model_schedule_races_exercised": races,
        "traces_validated_against_impl": ncases,
        "run_times_s": {tag: dt for tag, (rc, o, dt) in res.items()},
    })
    ctx.samples += [{"ufo": g["k"], "glyphs": g["glyphs"], "layers": g["layers"], "generator": g["params"]} for g in gen[:3]]


def replay(ctx, path):
    import driver
    from driver import sh
    d = json.load(open(path))
    inp = d.get("input") or (d.get("disagreeing_cases") or [{}])[0]
    src = inp.get("ufo_copy")
    if not src or not os.path.isdir(src):
        print("replay file names no stored UFO (kind=%s): %s" % (d.get("kind"), json.dumps(d)[:600]))
        return 1
    par_bin = driver.build_harness(ctx, features=("rayon",), target="target-rayon")
    if par_bin is None or ctx.harness is None:
        print("harness does not build")
        return 1
    out = os.path.join(ctx.scratch, "c19r")
    shutil.copytree(src, out)
    if os.path.exists(os.path.join(out, "hist.json")):
        hst = histories(ctx, sh, out, ctx.harness, par_bin, THREADS, store_replay=False)
        print("history:", inp.get("history"), "thread:", inp.get("thread"), "| steps compared:", hst["history_steps_compared"])
        for v in ctx.violations[:10]:
            print("DIFFERENT:", json.dumps(v)[:1800])
        if not ctx.violations:
            print("every load of the history equals the load of that UFO alone, in both builds")
        return 1 if ctx.violations else 0
    res = run_bins(ctx, sh, out, ctx.harness, par_bin, 20, THREADS)
    ufo_ids = sorted(x for x in os.listdir(os.path.join(out, "ufos")) if os.path.isdir(os.path.join(out, "ufos", x)))
    known_ids = {k["id"] for k in driver.parse_known("C19")}
    st = compare(ctx, out, known_ids, THREADS, ufo_ids, store_replay=False)
    print("UFO:", src, "generator:", inp.get("generator"), "seed:", inp.get("generator_seed"))
    print("runs compared:", st["ufo_runs"], "| differences inside known class %s: %d" % (KNOWN_MIXED, st["mixed_failure_class_differences"]))
    for v in ctx.violations[:10]:
        print("DIFFERENT:", json.dumps(v)[:1500])
    if not ctx.violations:
        print("no difference between the rayon build and the sequential build on this UFO (%d runs)" % st["ufo_runs"])
    return 1 if ctx.violations else 0


def anchors(ctx):
    import sys
    import driver
    sys.path.insert(0, os.path.join(driver.VERIF, "lib"))
    import anchors_c19
    text, inv = anchors_c19.gen_coq(driver.REPO)
    # informational diff against the committed catalogue (the verdict comes from AnchorsOK_C19.v)
    cat = open(os.path.join(driver.COQ, "Model", "SitesPar.v")).read()
    new = [k for k, _ in inv if anchors_c19.coq_string(k) not in cat]
    if new:
        ctx.note("parallel/shared-state sites not in the catalogue:\n  " + "\n  ".join(new[:10]))
    return text
