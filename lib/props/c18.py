"""C18 — saving and loading a designspace document preserves it."""
import json
import os
import re
import sys
import xml.parsers.expat

sys.setrecursionlimit(max(sys.getrecursionlimit(), 20000))      # libs nested a few hundred deep

META = {
    "level": "proof",
    "design_ref": "DESIGN.md section 8, C18; Appendix A (Designspace); F15",
    "technique": "Coq proof (decode (encode d) = d for all well-formed documents outside the known class; encode = "
                 "specification writer up to attribute order; a conforming XML reader sees the written tree unchanged "
                 "outside an exact class) + anchors (serde vocabulary regenerated from the source) + differential "
                 "correspondence (save / independent expat re-read / load, and perturbed files through load)",
    "text": "Kernel-checked theorems over a Gallina model of the serde derives of src/designspace.rs, quick-xml's serde "
            "layer as norad uses it and the plist-in-XML glue of src/serde_xml_plist.rs: for ALL documents that are "
            "well-formed (property text + the two facts the file format cannot express) and contain no lib string or "
            "key with leading/trailing XML white space, decoding the encoded tree gives the document back; the encoded "
            "tree equals the tree of a writer transcribed from the designspace specification up to attribute order. "
            "The model is tied to the code on every run: generated documents are saved by norad, the files are parsed "
            "by Python's expat and compared with the model's tree, loaded again by norad and compared with the model's "
            "decode; perturbed files exercise the decoder's defaults and error cases; the serde renames are "
            "re-extracted from the source and compared with the model's vocabulary.",
    "note": "Trusted: Coq kernel + VM; the hand-written model (tied by correspondence, not by proof); the L1 hypotheses "
            "(float Display/parse, plist date text, base64, XML escaping) validated differentially; Python's expat as the "
            "independent reader; the harness's JSON dump of documents.",
}
COQ_TARGETS = ["Props/C18.vo", "Run/C18.vo"]
PROPS_FILES = ["C18"]
TRUSTED = [
    "model Model/Designspace.v + Model/DsXml.v hand-written from src/designspace.rs, src/serde_xml_plist.rs and quick-xml 0.37 (serde layer); tied by the correspondence run",
    "L1 (Section variables of the theorems): f32/f64 Display then str::parse is the identity and the text has no white space; plist Date to_xml_format/from_xml_format; base64 encode/decode; validated by the harness on boundary and random bit patterns and by the file comparison",
    "L1: XML rendering/escaping by quick-xml, validated by re-reading every written file with Python's expat",
    "Coq 8.16.1 kernel and vm_compute; no axioms; no extraction",
]
ASSUMPTIONS = [
    "NaN payloads/signs are identified (f32/f64 NaN prints as NaN); documents are compared with NaN equal to NaN",
    "plist dates are within the years 0000..9999 (what the plist XML form can express; outside it plist's to_xml_format panics)",
    "input trees of the decoder have unique attribute names per element (XML well-formedness)",
]
KNOWN_TRIM = "lib-edge-whitespace"
KNOWN_NORM = "xml-literal-tab-lf-cr"
KNOWN_FORB = "xml-forbidden-char"


# ----------------------------------------------------------------------------- independent reader
def read_xml(data):
    """expat -> tree ('E', name, [(k, v)...], kids) / ('T', text); None if not well-formed.
    White-space-only character data is dropped inside elements that have child elements."""
    p = xml.parsers.expat.ParserCreate()
    p.buffer_text = True
    p.ordered_attributes = True
    stack = [["E", None, [], []]]

    def start(name, attrs):
        node = ["E", name, [(attrs[i], attrs[i + 1]) for i in range(0, len(attrs), 2)], []]
        stack[-1][3].append(node)
        stack.append(node)

    def end(name):
        node = stack.pop()
        kids = node[3]
        if any(k[0] == "E" for k in kids):
            kids = [k for k in kids if k[0] == "E" or k[1].strip(" \t\r\n") != ""]
        # merge adjacent text
        merged = []
        for k in kids:
            if k[0] == "T" and merged and merged[-1][0] == "T":
                merged[-1] = ["T", merged[-1][1] + k[1]]
            else:
                merged.append(k)
        node[3] = merged

    def chars(data):
        stack[-1][3].append(["T", data])

    p.StartElementHandler = start
    p.EndElementHandler = end
    p.CharacterDataHandler = chars
    try:
        p.Parse(data, True)
    except xml.parsers.expat.ExpatError:
        return None
    roots = [k for k in stack[0][3] if k[0] == "E"]
    return roots[0] if len(roots) == 1 else None


# ----------------------------------------------------------------------------- specification writer (Python)
# Written from the fontTools designspaceLib XML reference: element names, attribute names, nesting.
# Attributes are a dict (order is insignificant in XML).
def _attrs(pairs):
    return {k: v for k, v in pairs if v is not None}


def expand_pv(v):
    """["n", [wrapper...], inner] (a chain of one-child containers, written flat by the harness) -> nested form"""
    if v[0] != "n":
        return v
    x = expand_pv(v[2])
    for w in reversed(v[1]):
        x = ["a", [x]] if w == "a" else ["m", [[w[1], x]]]
    return x


def spec_plist(v):
    v = expand_pv(v)
    t, x = v
    if t == "m":
        kids = []
        for k, val in x:
            kids.append(("key", {}, [k] if k != "" else []))
            kids.append(spec_plist(val))
        return ("dict", {}, kids)
    if t == "a":
        return ("array", {}, [spec_plist(e) for e in x])
    if t == "b":
        return ("true" if x else "false", {}, [])
    if t == "d":
        import base64
        x = base64.b64encode(bytes.fromhex(x)).decode("ascii")
    name = {"s": "string", "i": "integer", "r": "real", "d": "data", "t": "date"}[t]
    return (name, {}, [x] if x != "" else [])


def spec_lib(lib):
    return [("lib", {}, [spec_plist(["m", lib])])] if lib else []


def spec_location(loc):
    return ("location", {}, [("dimension", _attrs([("name", d["name"]), ("xvalue", d["xvalue"]),
                                                   ("uservalue", d["uservalue"]), ("yvalue", d["yvalue"])]), [])
                             for d in loc])


def spec_tree(d):
    kids = []
    if d["axes"]:
        axes = []
        for a in d["axes"]:
            at = _attrs([("name", a["name"]), ("tag", a["tag"]), ("minimum", a["minimum"]), ("maximum", a["maximum"]),
                         ("default", a["default"]), ("hidden", "true" if a["hidden"] else None),
                         ("values", None if a["values"] is None else " ".join(a["values"]))])
            maps = [("map", {"input": m[0], "output": m[1]}, []) for m in (a["map"] or [])]
            axes.append(("axis", at, maps))
        kids.append(("axes", {}, axes))
    if d["rules"]:
        rules = []
        for r in d["rules"]:
            rk = [("conditionset", {}, [("condition", _attrs([("name", c["name"]), ("minimum", c["minimum"]),
                                                              ("maximum", c["maximum"])]), []) for c in cs])
                  for cs in r["condsets"]]
            rk += [("sub", {"name": s[0], "with": s[1]}, []) for s in r["subs"]]
            rules.append(("rule", _attrs([("name", r["name"])]), rk))
        kids.append(("rules", {"processing": d["processing"]}, rules))
    if d["sources"]:
        kids.append(("sources", {}, [
            ("source", _attrs([("filename", s["filename"]), ("name", s["name"]), ("familyname", s["familyname"]),
                               ("stylename", s["stylename"]), ("layer", s["layer"])]), [spec_location(s["location"])])
            for s in d["sources"]]))
    if d["instances"]:
        kids.append(("instances", {}, [
            ("instance", _attrs([(k, s[k]) for k in ("name", "familyname", "stylename", "filename", "postscriptfontname",
                                                     "stylemapfamilyname", "stylemapstylename")]),
             [spec_location(s["location"])] + spec_lib(s["lib"]))
            for s in d["instances"]]))
    kids += spec_lib(d["lib"])
    return ("designspace", {"format": d["format"]}, kids)


def tree_matches_spec(t, s):
    """expat tree t against spec tree s, attributes as sets; returns None or a description"""
    if t[0] == "T":
        if not isinstance(s, str):
            return "text %r where the specification has an element" % t[1][:40]
        return None if t[1] == s else "text %r, expected %r" % (t[1][:60], s[:60])
    if isinstance(s, str):
        return "element <%s> where the specification has text" % t[1]
    if t[1] != s[0]:
        return "element <%s>, the specification names it <%s>" % (t[1], s[0])
    if len(set(k for k, _ in t[2])) != len(t[2]):
        return "duplicate attribute on <%s>" % t[1]
    if dict(t[2]) != s[1]:
        return "attributes of <%s>: file %r, specification %r" % (t[1], dict(t[2]), s[1])
    if len(t[3]) != len(s[2]):
        return "<%s> has %d children, the specification %d" % (t[1], len(t[3]), len(s[2]))
    for a, b in zip(t[3], s[2]):
        r = tree_matches_spec(a, b)
        if r:
            return r
    return None


# ----------------------------------------------------------------------------- hashes (mirror of Run/C18.v)
HMASK = (1 << 63) - 1
HPRIME = 1099511628211
HINIT = 14695981039346656037 & HMASK


def mix(h, n):
    return ((h ^ n) * HPRIME) & HMASK


def hash_str(h, s):
    b = s if isinstance(s, bytes) else s.encode("utf-8")
    h = mix(h, 1000)
    for x in b:
        h = ((h ^ x) * HPRIME) & HMASK
    return mix(h, 1001)


def hash_node(h, t):
    """t = ('T', text) | ('E', name, [(k, v)], kids)  (lists or tuples)"""
    if t[0] == "T":
        return hash_str(mix(h, 2000), t[1])
    h = hash_str(mix(h, 2001), t[1])
    for k, v in t[2]:
        h = hash_str(hash_str(mix(h, 2002), k), v)
    h = mix(h, 2003)
    for k in t[3]:
        h = hash_node(h, k)
    return mix(h, 2004)


def _T0(n):
    return ("E", n, [], [])


def _ds(tag, s):
    return ("E", tag, [("v", s)], [])


def _dos(tag, o):
    return ("E", tag, [], []) if o is None else ("E", tag, [("v", o)], [])


def dump_pv(v):
    v = expand_pv(v)
    t, x = v
    if t == "b":
        return _T0("bt" if x else "bf")
    if t == "d":
        return _ds("d", bytes.fromhex(x))
    if t == "a":
        return ("E", "a", [], [dump_pv(e) for e in x])
    if t == "m":
        kids = []
        for k, e in x:
            kids.append(_ds("k", k))
            kids.append(dump_pv(e))
        return ("E", "m", [], kids)
    return _ds(t, x)      # s, i, r, t


def dump_dims(l):
    return ("E", "loc", [], [("E", "dim", [], [_ds("name", d["name"]), _dos("u", d["uservalue"]), _dos("x", d["xvalue"]),
                                               _dos("y", d["yvalue"])]) for d in l])


def dump_doc(d):
    axes = [("E", "axis", [], [
        _ds("name", a["name"]), _ds("tag", a["tag"]), _ds("default", a["default"]), _T0("bt" if a["hidden"] else "bf"),
        _dos("min", a["minimum"]), _dos("max", a["maximum"]),
        _T0("novalues") if a["values"] is None else ("E", "values", [], [_ds("f", x) for x in a["values"]]),
        _T0("nomap") if a["map"] is None else ("E", "map", [], [("E", "m", [], [_ds("i", m[0]), _ds("o", m[1])]) for m in a["map"]]),
    ]) for a in d["axes"]]
    rules = [("E", "rule", [], [
        _dos("name", r["name"]),
        ("E", "css", [], [("E", "cs", [], [("E", "c", [], [_ds("name", c["name"]), _dos("min", c["minimum"]), _dos("max", c["maximum"])])
                                           for c in cs]) for cs in r["condsets"]]),
        ("E", "subs", [], [("E", "sub", [], [_ds("n", s_[0]), _ds("w", s_[1])]) for s_ in r["subs"]]),
    ]) for r in d["rules"]]
    sources = [("E", "source", [], [_dos("familyname", x["familyname"]), _dos("stylename", x["stylename"]), _dos("name", x["name"]),
                                    _ds("filename", x["filename"]), _dos("layer", x["layer"]), dump_dims(x["location"])])
               for x in d["sources"]]
    insts = [("E", "instance", [], [_dos(k, x[k]) for k in ("familyname", "stylename", "name", "filename", "postscriptfontname",
                                                            "stylemapfamilyname", "stylemapstylename")]
              + [dump_dims(x["location"]), dump_pv(["m", x["lib"]])]) for x in d["instances"]]
    return ("E", "doc", [], [_ds("format", d["format"]), ("E", "axes", [], axes), _T0(d["processing"]), ("E", "rules", [], rules),
                             ("E", "sources", [], sources), ("E", "instances", [], insts), dump_pv(["m", d["lib"]])])


def hash_doc(d):
    return hash_node(HINIT, dump_doc(d))


# ----------------------------------------------------------------------------- Gallina printing
QNAMES = set("designspace axes axis map rules rule conditionset condition sub sources source location dimension instances instance lib dict key string integer real data date array true false name tag default hidden minimum maximum values input output processing with uservalue xvalue yvalue familyname stylename filename layer postscriptfontname stylemapfamilyname stylemapstylename format unknown copy zz first last".split())


def gpacked(b):
    ints = []
    for i in range(0, len(b), 7):
        ints.append(int.from_bytes(b[i:i + 7].ljust(7, b"\0"), "big"))
    return "(u %d [%s]%%uint63)" % (len(b), ";".join(map(str, ints)))


def gs(s):
    if s in QNAMES:
        return "q_" + s
    b = s.encode("utf-8")
    if len(b) <= 3 and all(0x20 <= x <= 0x7e and x != 0x22 for x in b):
        return '"' + s + '"'
    return gpacked(b)


def gbytes_hex(h):
    b = bytes.fromhex(h)
    if len(b) <= 3 and all(0x20 <= x <= 0x7e and x != 0x22 for x in b):
        return '"' + b.decode("ascii") + '"'
    return gpacked(b)


def gopt(x, f=gs):
    return "None" if x is None else "(Some %s)" % f(x)


def glist(xs, f):
    return "[" + ";".join(f(x) for x in xs) + "]"


def gpv(v):
    v = expand_pv(v)
    t, x = v
    if t == "s":
        return "(S_ %s)" % gs(x)
    if t == "i":
        return "(I_ (%s))" % x
    if t == "r":
        return "(R_ %s)" % gs(x)
    if t == "b":
        return "(B_ %s)" % ("true" if x else "false")
    if t == "d":
        return "(D_ %s)" % gbytes_hex(x)
    if t == "t":
        return "(T_ %s)" % gs(x)
    if t == "a":
        return "(A_ %s)" % glist(x, gpv)
    if t == "m":
        return "(M_ %s)" % gdict(x)
    raise ValueError("unsupported plist value %r" % (v,))


def gdict(d):
    return glist(d, lambda kv: "(%s,%s)" % (gs(kv[0]), gpv(kv[1])))


def gdims(l):
    return glist(l, lambda d: "(Di %s %s %s %s)" % (gs(d["name"]), gopt(d["uservalue"]), gopt(d["xvalue"]), gopt(d["yvalue"])))


def gdoc(d):
    axes = glist(d["axes"], lambda a: "(Ax %s %s %s %s %s %s %s %s)" % (
        gs(a["name"]), gs(a["tag"]), gs(a["default"]), "true" if a["hidden"] else "false", gopt(a["minimum"]),
        gopt(a["maximum"]), gopt(a["values"], lambda l: glist(l, gs)),
        gopt(a["map"], lambda l: glist(l, lambda m: "(Mp %s %s)" % (gs(m[0]), gs(m[1]))))))
    rules = glist(d["rules"], lambda r: "(Ru %s %s %s)" % (
        gopt(r["name"]),
        glist(r["condsets"], lambda cs: glist(cs, lambda c: "(Co %s %s %s)" % (gs(c["name"]), gopt(c["minimum"]), gopt(c["maximum"])))),
        glist(r["subs"], lambda s: "(Su %s %s)" % (gs(s[0]), gs(s[1])))))
    sources = glist(d["sources"], lambda s: "(So %s %s %s %s %s %s)" % (
        gopt(s["familyname"]), gopt(s["stylename"]), gopt(s["name"]), gs(s["filename"]), gopt(s["layer"]), gdims(s["location"])))
    insts = glist(d["instances"], lambda s: "(In %s %s %s %s %s %s %s %s %s)" % (
        gopt(s["familyname"]), gopt(s["stylename"]), gopt(s["name"]), gopt(s["filename"]), gopt(s["postscriptfontname"]),
        gopt(s["stylemapfamilyname"]), gopt(s["stylemapstylename"]), gdims(s["location"]), gdict(s["lib"])))
    return "(Ds %s %s (Rs %s %s) %s %s %s)" % (
        gs(d["format"]), axes, "PLast" if d["processing"] == "last" else "PFirst", rules, sources, insts, gdict(d["lib"]))


def gtree(t):
    if t[0] == "T":
        return "(Text %s)" % gs(t[1])
    return "(Elem %s %s %s)" % (gs(t[1]), glist(t[2], lambda kv: "(%s,%s)" % (gs(kv[0]), gs(kv[1]))), glist(t[3], gtree))


HEADER = ("Require Import Norad.Run.RunBase Norad.Model.Designspace Norad.Run.C18.\nFrom Coq Require Import Uint63.\nOpen Scope string_scope.\nOpen Scope N_scope.\n"
          "Set Printing Width 100000. Set Printing Depth 1000000.\n")

BITS = {1: "the written file (as a conforming XML reader sees it) differs from the model's tree",
        2: "DesignSpaceDocument::load differs from the model's decode",
        4: "well-formedness predicate: harness and Coq differ",
        8: "known-class predicate (lib string/key with edge white space): harness and Coq differ",
        16: "reader-class predicate (characters XML cannot carry literally): harness and Coq differ",
        32: "specification writer's tree differs from the model's tree"}


def gcase(rec, tree_ok, tree):
    if rec.get("load") == "same":
        load = "LSame"
    elif rec.get("load") == "other":
        load = "(LOther %d%%uint63)" % hash_doc(rec["loaded"])
    else:
        load = "LErr"
    f = "FBad" if not tree_ok else "(FTree %d%%uint63)" % hash_node(HINIT, tree)
    b = lambda x: "true" if x else "false"
    return "(K %s %s %s %s %s %s)" % (gdoc(rec["doc"]), f, load, b(rec["wf"]), b(rec["cls_trim"]),
                                       b(rec["cls_forbidden"] or rec["cls_norm"]))


# ----------------------------------------------------------------------------- decoder-side perturbations
class Rng:
    """SplitMix64, same as the harness"""
    M = (1 << 64) - 1

    def __init__(self, seed):
        self.s = (seed ^ 0x9E3779B97F4A7C15) & self.M

    def next(self):
        self.s = (self.s + 0x9E3779B97F4A7C15) & self.M
        z = self.s
        z = ((z ^ (z >> 30)) * 0xBF58476D1CE4E5B9) & self.M
        z = ((z ^ (z >> 27)) * 0x94D049BB133111EB) & self.M
        return z ^ (z >> 31)

    def below(self, n):
        return self.next() % n if n else 0

    def pick(self, xs):
        return xs[self.below(len(xs))]


def xml_escape(s, attr):
    s = s.replace("&", "&amp;").replace("<", "&lt;").replace(">", "&gt;")
    if attr:
        s = s.replace('"', "&quot;").replace("\t", "&#9;").replace("\n", "&#10;").replace("\r", "&#13;")
    else:
        s = s.replace("\r", "&#13;")
    return s


def render(t, out, depth):
    """plain serialiser for perturbed trees (element content indented, leaf text inline)"""
    ind = "  " * depth
    if t[0] == "T":
        out.append(ind + xml_escape(t[1], False) + "\n")
        return
    at = "".join(' %s="%s"' % (k, xml_escape(v, True)) for k, v in t[2])
    kids = t[3]
    if not kids:
        out.append("%s<%s%s/>\n" % (ind, t[1], at))
    elif len(kids) == 1 and kids[0][0] == "T":
        out.append("%s<%s%s>%s</%s>\n" % (ind, t[1], at, xml_escape(kids[0][1], False), t[1]))
    else:
        out.append("%s<%s%s>\n" % (ind, t[1], at))
        for k in kids:
            render(k, out, depth + 1)
        out.append("%s</%s>\n" % (ind, t[1]))


def all_elems(t, acc, path=()):
    if t[0] == "E":
        acc.append(t)
        for k in t[3]:
            all_elems(k, acc)
    return acc


PLIST_TAGS = ("dict", "array", "string", "integer", "real", "data", "date", "true", "false", "key")
INT_TEXTS = ["0x1F", "0x0x10", "+7", "-0", "007", "9223372036854775808", "18446744073709551616", "-9223372036854775809",
             "0xFFFFFFFFFFFFFFFF", "0x10000000000000000", "5a", "", "0x", "0x+f", "0xfF", "+", "-", "--1", "1 2"]


def perturb(tree, rng):
    """copy of the tree with one or two local edits whose effect on the decoder the model claims to know;
    returns (tree, description) — the tree stays a legal input of the model (no duplicate attributes,
    no text beside elements inside plist containers)"""
    import copy
    t = copy.deepcopy(tree)
    els = all_elems(t, [])
    desc = []
    for _ in range(1 + rng.below(2)):
        e = rng.pick(els)
        kind = rng.below(12)
        in_plist = e[1] in PLIST_TAGS
        if kind == 0 and e[2]:
            i = rng.below(len(e[2]))
            desc.append("drop attribute %s of <%s>" % (e[2][i][0], e[1]))
            del e[2][i]
        elif kind == 1 and e[3] and not (in_plist and e[1] == "dict"):
            i = rng.below(len(e[3]))
            desc.append("drop child %d of <%s>" % (i, e[1]))
            del e[3][i]
        elif kind == 2 and e[3] and e[3][0][0] == "E" and e[1] not in ("dict", "array"):
            i = rng.below(len(e[3]))
            desc.append("duplicate child %d of <%s>" % (i, e[1]))
            e[3].insert(i, copy.deepcopy(e[3][i]))
        elif kind == 3 and len(e[3]) >= 2 and e[3][0][0] == "E" and e[1] not in ("dict",):
            i = rng.below(len(e[3]) - 1)
            desc.append("swap children %d,%d of <%s>" % (i, i + 1, e[1]))
            e[3][i], e[3][i + 1] = e[3][i + 1], e[3][i]
        elif kind == 4 and e[1] not in ("dict", "array") and not any(k == "zz" for k, _ in e[2]):
            desc.append("unknown attribute on <%s>" % e[1])
            e[2].insert(rng.below(len(e[2]) + 1), ("zz", "1"))
        elif kind == 5 and e[1] not in PLIST_TAGS and (not e[3] or e[3][0][0] == "E"):
            desc.append("unknown child element in <%s>" % e[1])
            e[3].insert(rng.below(len(e[3]) + 1), ["E", "unknown", [("copy", "1")], []])
        elif kind == 6 and e[2]:
            i = rng.below(len(e[2]))
            v = rng.pick(["", "x", "1,5", "true", "1", "0", "false", "TRUE", "first", "last", "1 2", " 1", "1  2 ", "middle"])
            desc.append("attribute %s of <%s> := %r" % (e[2][i][0], e[1], v))
            e[2][i] = (e[2][i][0], v)
        elif kind == 7 and len(e[2]) >= 2:
            i = rng.below(len(e[2]) - 1)
            desc.append("swap attributes of <%s>" % e[1])
            e[2][i], e[2][i + 1] = e[2][i + 1], e[2][i]
        elif kind == 8 and e[1] == "integer":
            v = rng.pick(INT_TEXTS)
            desc.append("integer text := %r" % v)
            e[3] = [["T", v]] if v else []
        elif kind == 9 and e[1] in ("string", "key") :
            v = rng.pick(["  padded  ", "\n\tx\n", " ", "a  b"])
            desc.append("<%s> text := %r" % (e[1], v))
            e[3] = [["T", v]]
        elif kind == 10 and e[1] not in PLIST_TAGS:
            names = ["axes", "axis", "map", "rules", "rule", "conditionset", "condition", "sub", "sources", "source",
                     "location", "dimension", "instances", "instance", "lib", "designspace"]
            n = rng.pick(names)
            desc.append("rename <%s> to <%s>" % (e[1], n))
            e[1] = n
        elif kind == 11 and e[1] not in PLIST_TAGS:
            have = set(k for k, _ in e[2])
            cand = [k for k in ("hidden", "processing", "minimum", "values", "name", "layer", "xvalue") if k not in have]
            if cand:
                k = rng.pick(cand)
                v = rng.pick(["1", "0", "true", "false", "last", "first", "", "2.5", "1 2 3", "yes"])
                desc.append("add attribute %s=%r to <%s>" % (k, v, e[1]))
                e[2].append((k, v))
    return t, "; ".join(desc) or "unchanged"


# ----------------------------------------------------------------------------- anchors
def _strip_tests(src):
    i = src.find("#[cfg(test)]")
    return src if i < 0 else src[:i]


def extract_vocab(repo):
    """(types, wrappers, processing names, plist read tags, plist write tags, key tag) from the source"""
    src = _strip_tests(open(os.path.join(repo, "src", "designspace.rs")).read())
    types = []
    for m in re.finditer(r"((?:\s*(?:///[^\n]*|#\[[^\n]*\])\n)*)\s*pub struct (\w+)\s*\{(.*?)\n\}", src, re.S):
        head, name, body = m.group(1), m.group(2), m.group(3)
        rn = re.search(r'#\[serde\(rename\s*=\s*"([^"]*)"\)\]', head)
        fields = []
        pending = ""
        for line in body.split("\n"):
            s = line.strip()
            if s.startswith("#[serde("):
                pending += s
            elif s.startswith("pub "):
                fm = re.match(r"pub (\w+)\s*:", s)
                fname = fm.group(1)
                key = fname
                r2 = re.search(r'rename\s*=\s*"([^"]*)"', pending)
                if r2:
                    key = r2.group(1)
                bare = re.sub(r'"[^"]*"', '""', pending)      # attribute names only, values blanked
                flags = ""
                if re.search(r"\bdefault\b", bare):
                    flags += "d"
                if re.search(r"\bskip_serializing_if\b", bare):
                    flags += "s"
                if re.search(r"\bwith\s*=", bare):
                    flags += "w"
                fields.append((fname, key, flags))
                pending = ""
        types.append((name, rn.group(1) if rn else "", fields))
    wrappers = re.findall(r"^\s*serde_from_field!\((\w+),\s*(\w+),", src, re.M)
    pm = re.search(r'#\[serde\(rename_all\s*=\s*"lowercase"\)\]\s*pub enum RuleProcessing\s*\{(.*?)\n\}', src, re.S)
    if not pm:
        raise RuntimeError("RuleProcessing with rename_all = lowercase not found")
    procs = [v.lower() for v in re.findall(r"^\s*(\w+),", pm.group(1), re.M)]
    ps = _strip_tests(open(os.path.join(repo, "src", "serde_xml_plist.rs")).read())
    fm = re.search(r"impl FromStr for ValueKeyword\s*\{(.*?)\n    \}", ps, re.S)
    read_tags = re.findall(r'"(\w+)"\s*=>\s*Ok\(Self::', fm.group(1))
    km = re.search(r"impl FromStr for KeyKeywordLiteral\s*\{(.*?)\n    \}", ps, re.S)
    key_tag = re.findall(r'"(\w+)"\s*=>\s*Ok\(Self\)', km.group(1))
    wm = re.search(r"fn serialize_within<S>(.*?)\n        \}", ps, re.S)
    write_tags = re.findall(r'serialize_field\("(\w+)"', wm.group(1))
    key_writes = re.findall(r'dict\.serialize_field\("(\w+)",\s*key\)', ps)
    lib_wrap = re.findall(r'lib\.serialize_field\("(\w+)"', ps) + re.findall(r"struct DictHelper\s*\{\s*(\w+):", ps)
    return types, wrappers, procs, read_tags, write_tags, key_tag + key_writes, lib_wrap


KNOWN_FIELD_ATTRS = {"rename", "default", "skip_serializing_if", "with"}
KNOWN_STRUCT_ATTRS = {"rename", "rename_all", "deny_unknown_fields", "default"}


def _serde_items(text, where):
    """the comma-separated items of the #[serde(...)] attributes in text -> {name: value or True}; nested
    parentheses and quoted values respected"""
    items = {}
    for m in re.finditer(r"#\[serde\((.*?)\)\]", text, re.S):
        body, depth, cur, parts, inq = m.group(1), 0, "", [], False
        for ch in body:
            if ch == '"':
                inq = not inq
            if not inq and ch in "([":
                depth += 1
            if not inq and ch in ")]":
                depth -= 1
            if ch == "," and depth == 0 and not inq:
                parts.append(cur)
                cur = ""
            else:
                cur += ch
        parts.append(cur)
        for part in parts:
            part = part.strip()
            if not part:
                continue
            km = re.match(r'^(\w+)\s*(?:=\s*"([^"]*)")?$', part)
            if not km:
                raise RuntimeError("serde attribute not understood in %s: %r" % (where, part))
            if km.group(1) in items:
                raise RuntimeError("serde attribute given twice in %s: %r" % (where, part))
            items[km.group(1)] = km.group(2) if km.group(2) is not None else True
    return items


def extract_schema(repo):
    """The serde schema of src/designspace.rs, field by field. Per struct: (name, rename, rename_all,
    deny_unknown_fields, container default); per field: (rust name, XML key, Rust type, skip_serializing_if
    predicate, default ("" | "default" | "fn:<path>"), with-module). Per enum: (name, rename_all, variants,
    the #[default] variant). Bodies of the crate-local predicates / default functions that are referred to.
    Anything not understood raises: a broken tie, never a silent skip."""
    src = _strip_tests(open(os.path.join(repo, "src", "designspace.rs")).read())
    structs, enums, helpers = [], [], []
    referred = set()
    for m in re.finditer(r"((?:[ \t]*(?:///[^\n]*|#\[[^\n]*\])\n)*)[ \t]*pub struct (\w+)\s*\{(.*?)\n\}", src, re.S):
        head, name, body = m.group(1), m.group(2), m.group(3)
        sa = _serde_items(head, "struct " + name)
        unknown = set(sa) - KNOWN_STRUCT_ATTRS
        if unknown:
            raise RuntimeError("struct %s: unknown serde attribute(s) %s" % (name, sorted(unknown)))
        fields, pending = [], ""
        for line in body.split("\n"):
            t = line.strip()
            if t.startswith("#["):
                if not t.startswith("#[serde("):
                    raise RuntimeError("struct %s: attribute not understood: %s" % (name, t))
                pending += t + "\n"
            elif t.startswith("pub "):
                fm = re.match(r"pub (\w+)\s*:\s*(.+?),?$", t)
                if not fm:
                    raise RuntimeError("struct %s: field not understood: %s" % (name, t))
                fa = _serde_items(pending, "%s.%s" % (name, fm.group(1)))
                unknown = set(fa) - KNOWN_FIELD_ATTRS
                if unknown:
                    raise RuntimeError("%s.%s: unknown serde attribute(s) %s" % (name, fm.group(1), sorted(unknown)))
                dflt = ""
                if fa.get("default") is True:
                    dflt = "default"
                elif "default" in fa:
                    dflt = "fn:" + fa["default"]
                    referred.add(fa["default"])
                skip = fa.get("skip_serializing_if", "")
                if skip is True:
                    raise RuntimeError("%s.%s: skip_serializing_if without a predicate" % (name, fm.group(1)))
                if skip:
                    referred.add(skip)
                fields.append((fm.group(1), fa.get("rename", fm.group(1)), fm.group(2).replace(" ", ""), skip, dflt,
                               fa.get("with", "") if fa.get("with") is not True else "?"))
                pending = ""
            elif t and not t.startswith("//"):
                raise RuntimeError("struct %s: line not understood: %s" % (name, t))
        structs.append((name, sa.get("rename", "") if sa.get("rename") is not True else "?", sa.get("rename_all", "") or "",
                        "deny" if sa.get("deny_unknown_fields") else "", "default" if sa.get("default") else "", fields))
    for m in re.finditer(r"((?:[ \t]*(?:///[^\n]*|#\[[^\n]*\])\n)*)[ \t]*pub enum (\w+)\s*\{(.*?)\n\}", src, re.S):
        head, name, body = m.group(1), m.group(2), m.group(3)
        ea = _serde_items(head, "enum " + name)
        if set(ea) - {"rename_all"}:
            raise RuntimeError("enum %s: unknown serde attribute(s) %s" % (name, sorted(set(ea) - {"rename_all"})))
        variants, dv, pend = [], "", ""
        for line in body.split("\n"):
            t = line.strip()
            if t.startswith("#["):
                if t != "#[default]":
                    raise RuntimeError("enum %s: attribute not understood: %s" % (name, t))
                pend = t
            elif re.match(r"^\w+,$", t):
                variants.append(t[:-1])
                if pend:
                    dv = t[:-1]
                pend = ""
            elif t and not t.startswith("//"):
                raise RuntimeError("enum %s: variant not understood: %s" % (name, t))
        enums.append((name, ea.get("rename_all", ""), variants, dv))
    # crate-local functions referred to by skip_serializing_if / default: their bodies, blanks removed
    std_known = {"Option::is_none", "Vec::is_empty", "Dictionary::is_empty"}
    for r in sorted(referred - std_known):
        if "::" in r:
            ty, fn = r.split("::")
            im = re.search(r"impl %s\s*\{(.*?)\n\}" % re.escape(ty), src, re.S)
            scope = im.group(1) if im else ""
        else:
            fn, scope = r, src
        bm = re.search(r"fn %s\s*\([^)]*\)\s*(?:->\s*[^{]+)?\{(.*?)\n\s*\}" % re.escape(fn), scope, re.S)
        if not bm:
            raise RuntimeError("function %s (named in a serde attribute) not found" % r)
        helpers.append((r, re.sub(r"\s+", "", bm.group(1))))
    # the Helper struct that serde_from_field! derives Deserialize for (its field carries no serde attribute)
    mm = re.search(r"macro_rules!\s*serde_from_field\s*\{(.*?)\n    \}", src, re.S)
    if not mm:
        raise RuntimeError("macro serde_from_field! not found")
    hm = re.search(r"#\[derive\(::serde::Deserialize\)\]\s*(struct Helper\s*\{.*?\})", mm.group(1), re.S)
    if not hm:
        raise RuntimeError("deserialising Helper of serde_from_field! not found")
    return structs, enums, helpers, re.sub(r"\s+", "", hm.group(1))


def anchors(ctx):
    import driver
    types, wrappers, procs, read_tags, write_tags, key_tags, lib_wrap = extract_vocab(driver.REPO)
    q = lambda s: '"%s"' % s
    lines = ["From Coq Require Import String List.", "Import ListNotations.", "Open Scope string_scope."]
    lines.append("Definition x_vocab : list (string * string * list (string * string * string)) := [")
    lines.append(";\n".join("  (%s, %s, [%s])" % (q(n), q(r), "; ".join("(%s, %s, %s)" % (q(a), q(b), q(c)) for a, b, c in f))
                            for n, r, f in types))
    lines.append("].")
    lines.append("Definition x_wrappers : list (string * string) := [%s]." % "; ".join("(%s, %s)" % (q(a), q(b)) for a, b in wrappers))
    lines.append("Definition x_processing : list string := [%s]." % "; ".join(map(q, procs)))
    lines.append("Definition x_plist_read : list string := [%s]." % "; ".join(map(q, read_tags)))
    lines.append("Definition x_plist_write : list string := [%s]." % "; ".join(map(q, write_tags)))
    lines.append("Definition x_key_tags : list string := [%s]." % "; ".join(map(q, key_tags)))
    lines.append("Definition x_lib_wrap : list string := [%s]." % "; ".join(map(q, lib_wrap)))
    structs, enums, helpers, wrapper_helper = extract_schema(driver.REPO)
    q2 = lambda t: '"%s"' % t.replace('"', '""')
    lines.append("Definition x_schema : list (string * string * string * string * string * "
                 "list (string * string * string * string * string * string)) := [")
    lines.append(";\n".join("  (%s, %s, %s, %s, %s, [%s])" % (q2(n), q2(r), q2(ra), q2(dn), q2(df), "; ".join(
        "(%s, %s, %s, %s, %s, %s)" % tuple(map(q2, f)) for f in fs)) for n, r, ra, dn, df, fs in structs))
    lines.append("].")
    lines.append("Definition x_enums : list (string * string * list string * string) := [%s]." % "; ".join(
        "(%s, %s, [%s], %s)" % (q2(n), q2(ra), "; ".join(map(q2, vs)), q2(dv)) for n, ra, vs, dv in enums))
    lines.append("Definition x_helpers : list (string * string) := [%s]." % "; ".join("(%s, %s)" % (q2(a), q2(b)) for a, b in helpers))
    lines.append("Definition x_wrapper_helper : string := %s." % q2(wrapper_helper))
    return "\n".join(lines) + "\n"


# ----------------------------------------------------------------------------- magic values
def harvest_magic(repo):
    """every short printable string literal and every numeric literal of norad's source (all of src/**/*.rs,
    test modules included): values an edit may special-case. Regenerated on every run, so a constant that a
    future edit introduces is tried as well."""
    strs, nums = {}, {}
    root = os.path.join(repo, "src")
    for dp, _, fs in os.walk(root):
        for f in sorted(fs):
            if not f.endswith(".rs"):
                continue
            src = open(os.path.join(dp, f), encoding="utf-8", errors="replace").read()
            for m in re.finditer(r'b?"((?:[^"\\\n]|\\.)*)"', src):
                t = m.group(1)
                if "\\" in t:
                    try:
                        t = t.encode("utf-8").decode("unicode_escape")
                    except Exception:
                        continue
                if len(t) <= 48 and all(0x20 <= ord(c) < 0x7f for c in t):
                    strs[t] = strs.get(t, 0) + 1
            for m in re.finditer(r"(?<![\w.])(\d+(?:\.\d+)?(?:[eE][-+]?\d+)?)(?:_?[fiu](?:8|16|32|64|128|size))?(?![\w.])", src):
                nums[m.group(1)] = nums.get(m.group(1), 0) + 1
    # shortest first (constants are short; long ones are mostly messages), capped
    ss = sorted(strs, key=lambda t: (len(t), t))[:1200]
    ns = sorted(nums, key=lambda t: (len(t), t))[:400]
    return {"strings": ss, "numbers": ns}


# ----------------------------------------------------------------------------- run
def _load_cases(path):
    return [json.loads(l) for l in open(path) if l.strip()]


def _judge(rec, tree, known_ids):
    """the property's own predicate on what the implementation did with one document.
    Returns (violations, known_hits): violations = list of dicts (what, ...), known_hits = list of finding ids"""
    doc = rec["doc"]
    viol, hits = [], []
    if not rec["wf"]:
        return viol, hits
    if rec.get("save") != "ok":
        viol.append(dict(what="save failed on a well-formed document", outcome=rec.get("save"), msg=rec.get("msg")))
        return viol, hits
    # saving over an existing file must leave exactly the bytes of saving to a fresh path
    if rec.get("pre", "fresh") != "fresh" and rec.get("same_bytes") is False:
        viol.append(dict(what="saving over an existing file leaves other bytes than saving the same document to a fresh path",
                         existing=rec.get("pre"), existing_len=rec.get("pre_len"), file_len=rec.get("len"),
                         fresh_len=rec.get("fresh_len"),
                         demand="bytes(save d over an existing file) == bytes(save d to a fresh path)"))
    # sentence 1: load(save d) == d
    if rec.get("load") != "same":
        if rec["cls_trim"] and KNOWN_TRIM in known_ids:
            hits.append(KNOWN_TRIM)
        else:
            viol.append(dict(what="load(save d) differs from d", outcome=rec.get("load"), loaded=rec.get("loaded"),
                             msg=rec.get("msg"), in_class_lib_edge_whitespace=rec["cls_trim"],
                             demand="load(save d) == d for every well-formed document outside the known classes"))
    # sentence 2: an independent reader finds the same values under the specification's names
    why = "the file is not well-formed XML" if tree is None else tree_matches_spec(tree, spec_tree(doc))
    if why:
        if rec["cls_forbidden"] and KNOWN_FORB in known_ids:
            hits.append(KNOWN_FORB)
        elif rec["cls_norm"] and not rec["cls_forbidden"] and KNOWN_NORM in known_ids:
            hits.append(KNOWN_NORM)
        else:
            viol.append(dict(what="independent reader does not find the document's values under the specification's names",
                             detail=why, demand="expat tree of the saved file == specification writer's tree (attributes as sets)"))
    return viol, hits


def _oracle(ctx, rec, tree, known_ids, source):
    viol, hits = _judge(rec, tree, known_ids)
    for h in hits:
        ctx.known_hits[h] = ctx.known_hits.get(h, 0) + 1
    for v in viol:
        ctx.violations.append(dict({"source": source, "case": rec["i"], "document": rec["doc"], "pre": rec.get("pre", "fresh")}, **v))


def _simpler(doc):
    """documents one step simpler than doc (still well-formed if doc is)"""
    import copy
    out = []

    def emit(f):
        d = copy.deepcopy(doc)
        if f(d) is not False:
            out.append(d)

    for key, keep in (("axes", 1), ("sources", 1), ("instances", 0), ("rules", 0), ("lib", 0)):
        for i in range(len(doc[key])):
            if len(doc[key]) > keep:
                emit(lambda d, key=key, i=i: d[key].pop(i))
    if not doc["rules"] and doc["processing"] == "last":
        pass
    for ai, a in enumerate(doc["axes"]):
        for k in ("minimum", "maximum", "values", "map"):
            if a[k] is not None:
                emit(lambda d, ai=ai, k=k: d["axes"][ai].__setitem__(k, None))
        if a["hidden"]:
            emit(lambda d, ai=ai: d["axes"][ai].__setitem__("hidden", False))
        for k in ("values", "map"):
            if a[k] and len(a[k]) > 1:
                emit(lambda d, ai=ai, k=k: d["axes"][ai][k].pop())
    for ri, r in enumerate(doc["rules"]):
        if r["name"] is not None:
            emit(lambda d, ri=ri: d["rules"][ri].__setitem__("name", None))
        for k in ("condsets", "subs"):
            if len(r[k]) > 1:
                emit(lambda d, ri=ri, k=k: d["rules"][ri][k].pop())
        for ci, cs in enumerate(r["condsets"]):
            if cs:
                emit(lambda d, ri=ri, ci=ci: d["rules"][ri]["condsets"][ci].pop())
    for key, opts in (("sources", ("familyname", "stylename", "name", "layer")),
                      ("instances", ("familyname", "stylename", "name", "filename", "postscriptfontname",
                                     "stylemapfamilyname", "stylemapstylename"))):
        for si, x in enumerate(doc[key]):
            for k in opts:
                if x[k] is not None:
                    emit(lambda d, key=key, si=si, k=k: d[key][si].__setitem__(k, None))
            if len(x["location"]) > 1:
                emit(lambda d, key=key, si=si: d[key][si]["location"].pop())
            for li, dim in enumerate(x["location"]):
                for k in ("uservalue", "xvalue", "yvalue"):
                    if dim[k] is not None:
                        emit(lambda d, key=key, si=si, li=li, k=k: d[key][si]["location"][li].__setitem__(k, None))
            if key == "instances":
                for i in range(len(x["lib"])):
                    emit(lambda d, si=si, i=i: d["instances"][si]["lib"].pop(i))

    def simpler_pv(path_get, v):
        t, val = v[0], v[1]
        if t == "n":
            n = len(val)
            for keep in sorted(set([n // 2, n - 8, n - 1])):
                if 0 <= keep < n:
                    def cut(d, keep=keep):
                        node = path_get(d)
                        if keep >= 2:
                            node[1] = node[1][:keep]
                        else:
                            inner = node[2]
                            for w in reversed(node[1][:keep]):
                                inner = ["a", [inner]] if w == "a" else ["m", [[w[1], inner]]]
                            node[:] = inner
                    emit(cut)
            return
        if t in ("a", "m") and val:
            for i in range(len(val)):
                emit(lambda d, i=i: path_get(d)[1].pop(i))
        if t == "a":
            for i, e in enumerate(val):
                simpler_pv(lambda d, i=i: path_get(d)[1][i], e)
        if t == "m":
            for i, (k, e) in enumerate(val):
                simpler_pv(lambda d, i=i: path_get(d)[1][i][1], e)
    for i, (k, v) in enumerate(doc["lib"]):
        simpler_pv(lambda d, i=i: d["lib"][i][1], v)
    for si, x in enumerate(doc["instances"]):
        for i, (k, v) in enumerate(x["lib"]):
            simpler_pv(lambda d, si=si, i=i: d["instances"][si]["lib"][i][1], v)
    return out


def _shrink(ctx, viol, known_ids, rounds=40):
    """greedy one-step simplification of a violating document, re-running the implementation each round"""
    from driver import sh
    doc, what = viol["document"], viol["what"]
    wd = os.path.join(ctx.scratch, "shrink")
    for _ in range(rounds):
        cands = _simpler(doc)
        if not cands:
            break
        if os.path.isdir(wd):
            import shutil
            shutil.rmtree(wd)
        os.makedirs(wd)
        pre = viol.get("pre", "fresh")
        if pre == "history":
            pre = "longer"      # the edited document is the one on record; overwrite a longer file with it
        open(os.path.join(wd, "in.jsonl"), "w").write("".join(json.dumps({"doc": c, "pre": pre}) + "\n" for c in cands))
        rc, o = sh([ctx.harness, "c18", "--replay", os.path.join(wd, "in.jsonl"), "--out", wd], timeout=600)
        if rc != 0:
            break
        found = None
        for rec in _load_cases(os.path.join(wd, "cases.jsonl")):
            tree = None
            if rec.get("save") == "ok":
                tree = read_xml(open(os.path.join(wd, "f%d.xml" % rec["i"]), "rb").read())
            vs, _ = _judge(rec, tree, known_ids)
            hit = [v for v in vs if v["what"] == what]
            if hit:
                found = dict({"source": viol["source"].replace(" (minimised)", "") + " (minimised)", "case": viol["case"],
                              "document": rec["doc"], "pre": rec.get("pre", "fresh")}, **hit[0])
                break
        if found is None:
            break
        doc = found["document"]
        viol = found
    return viol


def run(ctx, known, built):
    import driver
    from driver import sh, coq_values, parse_term
    known_ids = set(k["id"] for k in known)
    out = os.path.join(ctx.scratch, "c18")
    os.makedirs(out)
    batches = []   # (source, records, dir)
    # corpus first
    cdir = os.path.join(driver.VERIF, "corpus", "C18")
    if os.path.isdir(cdir):
        for f in sorted(os.listdir(cdir)):
            if f.endswith(".jsonl"):
                od = os.path.join(out, "corpus_" + f[:-6])
                os.makedirs(od)
                rc, o = sh([ctx.harness, "c18", "--replay", os.path.join(cdir, f), "--out", od], timeout=600)
                if rc != 0:
                    ctx.disagreements.append({"what": "harness c18 failed on corpus file " + f, "output": o[-1500:]})
                    continue
                batches.append(("corpus/C18/" + f, _load_cases(os.path.join(od, "cases.jsonl")), od))
    gd = os.path.join(out, "gen")
    os.makedirs(gd)
    try:
        magic = harvest_magic(driver.REPO)
    except Exception as ex:
        magic = {"strings": [], "numbers": []}
        ctx.note("harvesting literals from the source failed: %r" % (ex,))
    json.dump(magic, open(os.path.join(out, "magic.json"), "w"))
    rc, o = sh([ctx.harness, "c18", "--tier", ctx.tier, "--seed", str(ctx.seed), "--out", gd,
                "--magic", os.path.join(out, "magic.json")], timeout=3000)
    if rc != 0:
        ctx.disagreements.append({"what": "harness c18 failed", "output": o[-2000:]})
        return
    summ = json.load(open(os.path.join(gd, "summary.json")))
    batches.append(("generated", _load_cases(os.path.join(gd, "cases.jsonl")), gd))
    if summ["l1_float_failures"]:
        ctx.disagreements.append({"what": "L1 hypothesis fails: float Display/parse is not the identity or prints white space",
                                  "examples": summ["l1_float_failures"]})
    ctx.obligation("L1:float-and-date-print-parse (%d values)" % summ["l1_float_checks"], not summ["l1_float_failures"],
                   "Display then parse is not the identity")

    # --- encoder side: per case, oracle + Gallina case
    files = []
    shard_cases = {}
    stats = {"cases": 0, "wf": 0, "wf_outside_classes": 0, "in_trim_class": 0, "in_reader_class": 0, "ill_formed": 0,
             "load_same": 0, "load_other": 0, "load_err": 0, "with_nan": 0, "file_not_xml": 0}
    allrecs = []
    trees = {}
    for source, recs, d in batches:
        for rec in recs:
            tree = None
            if rec.get("save") == "ok":
                tree = read_xml(open(os.path.join(d, "f%d.xml" % rec["i"]), "rb").read())
            _oracle(ctx, rec, tree, known_ids, source)
            key = len(allrecs)
            trees[key] = tree
            allrecs.append((source, rec))
            stats["cases"] += 1
            pk = "saved_over_" + rec.get("pre", "fresh")
            stats[pk] = stats.get(pk, 0) + 1
            if rec.get("pre") == "longer" and rec.get("pre_len", 0) <= rec.get("fresh_len", 0):
                ctx.disagreements.append({"what": "harness self-check: the pre-existing file was not longer", "case": rec["i"]})
            if not rec["wf"] and rec.get("pre", "fresh") != "fresh" and rec.get("same_bytes") is False:
                ctx.disagreements.append({"what": "saving an ill-formed document over an existing file leaves other bytes than "
                                                  "saving it to a fresh path", "case": rec["i"], "document": rec["doc"],
                                          "pre": rec.get("pre")})
            stats["wf" if rec["wf"] else "ill_formed"] += 1
            if rec["wf"] and not (rec["cls_trim"] or rec["cls_forbidden"] or rec["cls_norm"]):
                stats["wf_outside_classes"] += 1
            stats["in_trim_class"] += rec["cls_trim"]
            stats["in_reader_class"] += (rec["cls_forbidden"] or rec["cls_norm"])
            stats["with_nan"] += rec["has_nan"]
            stats["file_not_xml"] += (tree is None)
            stats["load_" + {"same": "same", "other": "other"}.get(rec.get("load"), "err")] += 1
            if rec.get("load") == "same" and not rec["has_nan"] and rec.get("rust_eq") is False:
                ctx.disagreements.append({"what": "harness self-check: dumps equal but Rust == says different", "case": rec["i"]})
            if rec.get("load") == "other" and rec.get("rust_eq") is True:
                ctx.disagreements.append({"what": "harness self-check: Rust == says equal but dumps differ", "case": rec["i"],
                                          "document": rec["doc"], "loaded": rec["loaded"]})
            if rec.get("load") == "panic" or rec.get("save") == "panic":
                ctx.disagreements.append({"what": "panic in save/load", "case": rec["i"], "msg": rec.get("msg"), "document": rec["doc"]})
    SH = 210 if not ctx.thorough() else 500
    # libs nested deeper than DEEP are judged on the implementation side only (save -> load identity, independent
    # expat re-read against the specification writer): terms that deep are not handed to Coq's parser. The
    # model's lib codec is structurally recursive, C18_roundtrip covers any depth.
    DEEP = 150
    saved = [(k, sr) for k, sr in enumerate(allrecs) if sr[1].get("save") == "ok" and sr[1].get("lib_depth", 0) <= DEEP]
    stats["deep_libs_impl_oracle_only"] = sum(1 for _, r in allrecs if r.get("lib_depth", 0) > DEEP)
    stats["max_lib_depth"] = max([r.get("lib_depth", 0) for _, r in allrecs] or [0])
    stats["lib_nesting_cases"] = sum(1 for _, r in allrecs if r.get("kind") == "lib-nesting")
    for b in range(0, len(saved), SH):
        part = saved[b:b + SH]
        vf = os.path.join(out, "enc_%d.v" % b)
        with open(vf, "w", encoding="utf-8") as f:
            f.write(HEADER)
            f.write("Definition cs : list case := [\n")
            f.write(";\n".join(gcase(rec, trees[k] is not None, trees[k]) for k, (src, rec) in part))
            f.write("].\nEval vm_compute in run_cases cs.\n")
        files.append(vf)
        shard_cases[vf] = ("enc", [k for k, _ in part])

    # --- decoder side: perturbed trees -> files -> load
    pd = os.path.join(out, "pert")
    os.makedirs(pd)
    rng = Rng(ctx.seed ^ 0xD18)
    pert = []
    src_trees = [(k, trees[k]) for k, (s, rec) in enumerate(allrecs)
                 if trees[k] is not None and rec["wf"] and not (rec["cls_forbidden"] or rec["cls_norm"] or rec["cls_trim"])
                 and rec.get("lib_depth", 0) <= 12]
    npert = (1600 if not ctx.thorough() else 20000) if src_trees else 0
    for i in range(npert):
        k, t = src_trees[i % len(src_trees)] if i < len(src_trees) else rng.pick(src_trees)
        pt, desc = perturb(t, rng)
        buf = ["<?xml version='1.0' encoding='UTF-8'?>\n"]
        render(pt, buf, 0)
        open(os.path.join(pd, "p%d.xml" % i), "w", encoding="utf-8", newline="").write("".join(buf))
        pert.append((k, pt, desc))
    loaded = []
    if pert:
        rc, o = sh([ctx.harness, "c18", "--load-dir", pd, "--out", pd], timeout=3000)
        if rc != 0:
            ctx.disagreements.append({"what": "harness c18 --load-dir failed", "output": o[-2000:]})
        else:
            loaded = _load_cases(os.path.join(pd, "loaded.jsonl"))
    dstats = {"perturbed": len(loaded), "perturbed_load_ok": 0, "perturbed_load_err": 0}
    if loaded:
        DSH = 200 if not ctx.thorough() else 500
        for b in range(0, len(loaded), DSH):
            part = list(range(b, min(b + DSH, len(loaded))))
            vf = os.path.join(out, "dec_%d.v" % b)
            with open(vf, "w", encoding="utf-8") as f:
                f.write(HEADER)
                f.write("Definition cs : list (node * outcome) := [\n")
                items = []
                for i in part:
                    r = loaded[i]
                    if r["load"] == "ok":
                        dstats["perturbed_load_ok"] += 1
                        o_ = "(ODoc %d%%uint63)" % hash_doc(r["loaded"])
                    else:
                        dstats["perturbed_load_err"] += 1
                        o_ = "OErr"
                        if r["load"] == "panic":
                            ctx.disagreements.append({"what": "panic in load of a perturbed file", "edit": pert[i][2], "msg": r.get("msg")})
                    items.append("(%s, %s)" % (gtree(pert[i][1]), o_))
                f.write(";\n".join(items))
                f.write("].\nEval vm_compute in run_dec cs.\n")
            files.append(vf)
            shard_cases[vf] = ("dec", part)

    if not built:
        ctx.disagreements.append({"what": "Coq development does not build; correspondence not evaluated"})
        res = {}
    else:
        res = ctx.coq_eval_many(files, timeout=1500)
    ok_shards = 0
    for vf, (rc, o) in sorted(res.items()):
        kind, idx = shard_cases[vf]
        if rc != 0:
            ctx.disagreements.append({"what": "correspondence shard failed to evaluate", "shard": os.path.basename(vf), "output": o[-800:]})
            continue
        vals = coq_values(o)
        if len(vals) != 1:
            ctx.disagreements.append({"what": "unparsable shard output", "shard": os.path.basename(vf), "output": o[-800:]})
            continue
        ok_shards += 1
        mm = parse_term(vals[0])
        if kind == "enc":
            for (i, bits) in mm:
                src, rec = allrecs[idx[i]]
                ctx.disagreements.append({"what": "; ".join(t for b, t in BITS.items() if bits & b), "source": src, "case": rec["i"],
                                          "document": rec["doc"], "load": rec.get("load"), "loaded": rec.get("loaded"),
                                          "file_tree": trees[idx[i]]})
        else:
            for i in mm:
                k, pt, desc = pert[idx[i]]
                ctx.disagreements.append({"what": "DesignSpaceDocument::load of a perturbed file differs from the model's decode",
                                          "edit": desc, "tree": pt, "load": loaded[idx[i]]})
    ctx.obligation("correspondence:C18 (%d shards)" % len(files), ok_shards == len(files) and not ctx.disagreements,
                   "model and implementation differ")
    # smallest documents first; the first violation of each kind is minimised
    ctx.violations.sort(key=lambda v: len(json.dumps(v.get("document"))))
    if ctx.violations:
        seen = set()
        front = []
        for v in ctx.violations:
            if v["what"] not in seen and len(seen) < 2:
                seen.add(v["what"])
                try:
                    front.append(_shrink(ctx, v, known_ids))
                except Exception as ex:      # the shrinker must never hide a violation
                    ctx.note("shrink failed: %r" % (ex,))
        ctx.violations[:0] = front
    ctx.cov.update({
        "evaluations": stats["cases"] + dstats["perturbed"],
        "distinct_nontrivial": len(set(json.dumps(rec["doc"], sort_keys=True) for _, rec in allrecs if rec["wf"]))
                               + len(set(json.dumps(pt) for _, pt, _ in pert[:len(loaded)])),
        "rule": "encoder side: generated documents (60% well-formed with every optional attribute present/absent, discrete and "
                "hidden axes, all f32 classes, nested libs with every plist type; 15% with strings from the known classes; 25% "
                "ill-formed in one or two ways; every string / number drawn with probability 1/7 resp. 1/6 from the "
                "literals harvested from norad's source at run time + a fixed list of typical defaults), plus a sweep with "
                "one document per harvested string (every string field holds it) and per number (every number holds it), "
                "plus the lib nesting-depth dimension (array/dict/alternating chains 1..12 deep and 50, 100, 126..131, 200, 300, "
                "400 deep in the document lib and an instance lib; deeper than 150 judged by the implementation-side oracle "
                "only), "
                "saved by norad (three in ten over an existing file: a longer or shorter designspace, arbitrary longer bytes, an empty file, "
                "or a load-edit-save-in-place history; the bytes must equal those of a save to a fresh path), file parsed by expat and compared with the model's tree, loaded "
                "by norad and compared with the model's decode; non-trivial = well-formed document (save, re-read and load all "
                "succeed and the full oracle applies), counted once per distinct document. Decoder side: well-formed saved trees with 1-2 local edits (dropped / "
                "duplicated / swapped / renamed / unknown attributes and elements, replaced values, integer spellings), "
                "rendered by the driver, loaded by norad and compared with the model's decode; counted once per distinct tree.",
        "exhaustive": False,
        "input_distribution": dict(stats, **dstats),
        "traces_validated_against_impl": stats["cases"] + dstats["perturbed"],
        "l1_float_checks": summ["l1_float_checks"],
        "magic_values": {"strings": summ.get("magic_strings"), "numbers": summ.get("magic_numbers")},
        "observations": {"a plist date beyond year 9999 makes DesignSpaceDocument::save panic (plist::Date::to_xml_format)":
                         summ.get("obs_year_10000_date_save_panics")},
    })
    for src, rec in allrecs[:3]:
        ctx.samples.append({"document": rec["doc"], "load": rec.get("load"), "well_formed": rec["wf"]})


def replay(ctx, path):
    from driver import sh
    d = json.load(open(path))
    doc = None
    inp = d.get("input") or {}
    if "document" in inp:
        doc = inp["document"]
    elif d.get("disagreeing_cases"):
        for c in d["disagreeing_cases"]:
            if "document" in c:
                doc = c["document"]
                break
    if doc is None:
        trees = [c for c in (d.get("disagreeing_cases") or []) if "tree" in c]
        if not trees:
            print("replay file names no document (kind=%s): %s" % (d.get("kind"), json.dumps(d)[:600]))
            return 1
        # a perturbed file of the decoder-side correspondence: render it again and load it
        pd = os.path.join(ctx.scratch, "replay_pert")
        os.makedirs(pd)
        buf = ["<?xml version='1.0' encoding='UTF-8'?>\n"]
        render(trees[0]["tree"], buf, 0)
        open(os.path.join(pd, "p0.xml"), "w", encoding="utf-8", newline="").write("".join(buf))
        rc, o = sh([ctx.harness, "c18", "--load-dir", pd, "--out", pd])
        print("edit:", trees[0].get("edit"))
        print("".join(buf))
        print("load:", open(os.path.join(pd, "loaded.jsonl")).read() if rc == 0 else o[-500:])
        print("recorded when the check ran:", json.dumps(trees[0].get("load"), ensure_ascii=False)[:600])
        return 0
    tmp = os.path.join(ctx.scratch, "replay.jsonl")
    pre = inp.get("pre", "fresh")
    open(tmp, "w").write(json.dumps({"doc": doc, "pre": "longer" if pre == "history" else pre}) + "\n")
    rc, o = sh([ctx.harness, "c18", "--replay", tmp, "--out", ctx.scratch])
    if rc != 0:
        print("harness failed:", o[-1000:])
        return 1
    rec = _load_cases(os.path.join(ctx.scratch, "cases.jsonl"))[0]
    print("document:", json.dumps(doc, ensure_ascii=False))
    print("well-formed:", rec["wf"], " in class lib-edge-whitespace:", rec["cls_trim"],
          " xml-forbidden-char:", rec["cls_forbidden"], " xml-literal-tab-lf-cr:", rec["cls_norm"])
    print("save:", rec.get("save"), " load:", rec.get("load"), rec.get("msg", ""))
    print("target path held before the save:", rec.get("pre"), "(%s bytes)" % rec.get("pre_len"), " file:", rec.get("len"),
          "bytes; fresh path:", rec.get("fresh_len"), "bytes; same bytes:", rec.get("same_bytes"))
    if rec.get("load") == "other":
        print("loaded:", json.dumps(rec["loaded"], ensure_ascii=False))
    if rec.get("save") == "ok":
        data = open(os.path.join(ctx.scratch, "f0.xml"), "rb").read()
        tree = read_xml(data)
        why = "the file is not well-formed XML" if tree is None else tree_matches_spec(tree, spec_tree(doc))
        print("independent reader:", why or "finds the document's values under the specification's names")
        print(data.decode("utf-8", "replace"))
    return 0
