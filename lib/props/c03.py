"""C03 — every public entry point is total: errors are returned, never panics."""
import concurrent.futures
import json
import os
import re
import sys

META = {
    "level": "proof",
    "design_ref": "DESIGN.md section 8, C03 (label: partial); section 4.1 (panic-site inventory)",
    "technique": "Coq proofs over small models of every norad-own panic site (which invariant each unwrap/expect/index/"
                 "slice/subtraction relies on, and that the public API keeps it, or a witness history that breaks it) "
                 "+ panic-site inventory regenerated from the source and proved equal to the committed catalogue "
                 "+ byte-level / directory-tree / API-history robustness SEARCH under catch_unwind, watchdog and child processes",
    "text": "PARTIAL: proof for the site catalogue and its lemmas, EXPLORATION (testing) for byte-level totality. "
            "Kernel-checked, for all inputs/states/histories of the site models: user_name_to_file_name (any name, prefix, "
            "suffix, stateful closure) panics only with the documented 99-clash panic and both char-boundary back-off loops "
            "terminate without underflow; the date slices of FontInfo::validate, parse_lib's byte slice, the fixed-length "
            "deserialiser indices, to_kurbo's indices and subtractions, rename_layer's position-unwrap (any state), "
            "layers[0] / new_layer / get_or_create (any history of layer operations without whole-Layer assignment), "
            "Layer::save's expect (any history of glyph operations without OccupiedEntry::remove), rename_glyph's unwrap, "
            "Store::get's unreachable and save's two expects after the pre-check, the data walk's strip_prefix, "
            "destination.parent(), every dump_object_libs id.unwrap(), the upconversion Name::new / get unwraps, "
            "make_unique_group_name (terminates by pigeonhole), ValueInnerHelper's unreachable. Four sites are REACHABLE "
            "(witness theorems + the positive theorem under the exact excluding hypothesis): Layer::load_impl file_name()."
            "unwrap() for a layer directory ending in `..`, Image::to_event to_str().expect for a non-UTF-8 file name, "
            "Layer::save's expect after OccupiedEntry::remove through Layer::entry, layers[0] after a non-default Layer value "
            "is assigned over the default slot and retain() then empties the list. Every site of src/ (unwrap, expect, "
            "panic-family macros, index/slice, integer arithmetic, panicking std methods, calls of panicking constructors, "
            "plus the conditions of every function containing one and the constants they mention) is regenerated on every "
            "run and must equal the catalogue, each entry discharged by a Check-ed theorem or a written argument class.",
    "note": "NOT proved, only searched (mutated corpus glifs / plists / designspace files / UFO trees, API histories, "
            "deep nesting in child processes): panics, aborts and hangs inside quick-xml, plist, serde and std on arbitrary "
            "bytes; stack depth; allocation failure. TypeInvariant entries of the catalogue are written arguments, not theorems.",
}
COQ_TARGETS = ["Props/C03.vo", "Model/Sites.vo", "Run/C03.vo"]
PROPS_FILES = ["C03"]
TRUSTED = [
    "site models Model/Totality.v hand-written from src/{util,layer,font,datastore,fontinfo,upconversion,serde_xml_plist,"
    "identifier}.rs and src/glyph/{mod,parse,serialize}.rs; tied to the source by the regenerated inventory "
    "(sites + the text of every condition of a function containing a site + constants) = catalogue (AnchorsOK_C03)",
    "lib/anchors_c03.py (regex / bracket scanner over src/*.rs, heuristic for integer arithmetic and indexing) - translator, trusted",
    "catalogue entries of class TypeInvariant / Documented are written arguments (std contracts: RefCell temporaries, "
    "RwLock poisoning, fmt::Write for String, fixed-size arrays, str::find offsets; L1: plist writer layout)",
    "L1 hypotheses of two theorems: quick-xml buffer positions are monotone and bounded (C03_parse_lib_slice); decimal "
    "rendering of the counter is injective and free of control characters (C03_make_unique)",
    "the models of user_name_to_file_name, of the layer list and of the glyph map / contents index are additionally run in Coq "
    "(vm_compute) on the inputs and operation histories the harness ran on norad (returned file name or documented panic; "
    "error variant of every operation, final state, panic or not) - every difference is a disagreement",
    "harness/src/c03.rs, c03_gen.rs (generators, catch_unwind, watchdog, child processes); Coq 8.16.1 kernel, vm_compute; no axioms",
]
ASSUMPTIONS = [
    "a HashMap / BTreeMap look-up of a key obtained from the same map's keys() succeeds (Store::iter)",
    "Path::join / parent / file_name / strip_prefix behave as on component lists (no symlink resolution: they are lexical)",
    "aborts by stack exhaustion are observed on the main thread of a child process with the default 8 MiB stack",
]

# class id -> (prefix of the site key the panic must come from, words)
CLASSES = {
    "layer-dir-dotdot": "src/layer.rs|impl Layer::load_impl|unwrap|",
    "image-non-utf8": "src/glyph/serialize.rs|impl Image::to_event|expect|",
    "entry-remove": "src/layer.rs|impl Layer::save_with_options|expect|",
    "layer-slot-assign": "src/layer.rs|impl LayerContents::default_layer",
    "ds-doctype-in-text": "outside-norad:quick-xml-",
}
DEPTH_CLASS = 512       # must equal DEPTH_CLASS of harness/src/c03_gen.rs
NEST_KINDS = ["glif-lib-array", "glif-lib-dict", "glif-elements", "api-lib-encode", "designspace-lib",
              "designspace-elements", "ufo-lib", "ufo-layerinfo", "ufo-fontinfo", "ufo-groups", "data-dirs"]
NEST_DEPTHS = [10, 100, 1000, 10000, 100000]


def _inventory():
    import driver
    sys.path.insert(0, os.path.join(driver.VERIF, "lib"))
    import anchors_c03
    return anchors_c03


def anchors(ctx):
    import driver
    a = _inventory()
    text, inv = a.gen_coq(driver.REPO)
    ctx.c03_inventory = inv
    # informational diff against the committed catalogue (the verdict comes from AnchorsOK_C03.v)
    cat = open(os.path.join(driver.COQ, "Model", "Sites.v")).read()
    keys = set(re.findall(r'^\s*\("((?:[^"]|"")*)",\s*$', cat, re.M))
    have = set(a.coq_string(k)[1:-1] for k, _, _ in inv)
    new = sorted(have - keys)
    gone = sorted(keys - have)
    ctx.c03_new_sites = [k.replace('""', '"') for k in new]
    ctx.c03_gone_sites = [k.replace('""', '"') for k in gone]
    if new or gone:
        ctx.note("panic sites in the source that are not in the catalogue:\n  " + "\n  ".join(ctx.c03_new_sites[:12]))
        ctx.note("catalogue entries no longer in the source:\n  " + "\n  ".join(ctx.c03_gone_sites[:12]))
    return text


def site_of(inv, loc):
    """map a panic location '<repo>/src/x.rs:LINE' to a site key of the inventory"""
    import driver
    loc = loc or "?"
    root = os.path.realpath(driver.REPO) + "/"
    if "/registry/src/" in loc or "/rustc/" in loc or not (loc.startswith(root) or loc.startswith(driver.REPO.rstrip("/") + "/") or loc.startswith("src/")):
        return "outside-norad:" + re.sub(r"^.*/registry/src/[^/]+/", "", loc)
    m = re.search(r"(src/[\w/]+\.rs):(\d+)$", loc)
    if not m:
        return "outside-norad:" + loc
    rel, line = m.group(1), int(m.group(2))
    best = None
    for k, ln, kind in inv:
        if kind in ("guards", "const") or not k.startswith(rel + "|"):
            continue
        d = abs(ln - line)
        if best is None or d < best[0]:
            best = (d, k)
    if best and best[0] <= 3:
        return best[1]
    return "uncatalogued:%s:%d" % (rel, line)


def classify(rec, inv, known_ids):
    """-> (finding id or None, site key)"""
    site = site_of(inv, rec.get("loc"))
    for t in rec.get("tags", []):
        if t in CLASSES and site.startswith(CLASSES[t]):
            if t == "ds-doctype-in-text" and not ("/src/de/" in site and "unreachable" in (rec.get("msg") or "")):
                continue
            return (t if t in known_ids else None), site, t
    return None, site, None


def run_file(ctx, sh, out, path, tags):
    rc, o = sh([ctx.harness, "c03", "--seed", str(ctx.seed), "--out", out, "file", path] + list(tags), timeout=300)
    recs = [json.loads(l) for l in o.split("\n") if l.startswith("{")]
    head = next((l for l in o.split("\n") if l.startswith("CASE ")), "")
    return rc, recs, head, o


PROBE_TIMEOUT = 8      # seconds; a probe that runs longer counts as "too slow" (rc 124)


def nest_probe(ctx, sh, out, kind, depth):
    rc, o = sh([ctx.harness, "c03", "--out", out, "depth", kind, str(depth)], timeout=PROBE_TIMEOUT * (4 if ctx.thorough() else 1))
    recs = [json.loads(l) for l in o.split("\n") if l.startswith("{")]
    return rc, recs, o


def collect(ctx, out, inv, handle, tot, entries, tags, per_stream, counters, samples):
    """read the result files of one master run"""
    for f in sorted(os.listdir(out)):
        if not (f.startswith("res_") and f.endswith(".jsonl")):
            continue
        for line in open(os.path.join(out, f), errors="replace"):
            line = line.strip()
            if not line.startswith("{"):
                continue
            try:
                rec = json.loads(line)
            except ValueError:
                continue
            k = rec.get("kind")
            if k == "summary":
                for key in tot:
                    tot[key] += rec.get(key, 0)
                per_stream[rec["stream"]] = per_stream.get(rec["stream"], 0) + rec.get("cases", 0)
                for e, v in rec.get("entries", {}).items():
                    cur = entries.setdefault(e, [0, 0, 0, 0])
                    for i in range(4):
                        cur[i] += v[i]
                for t, v in rec.get("tags", {}).items():
                    tags[t] = tags.get(t, 0) + v
            elif k == "panic":
                handle(rec, "generated")
                if len(samples) < 3:
                    samples.append({"stream": rec["stream"], "idx": rec["idx"], "entry": rec["entry"], "site": site_of(inv, rec.get("loc")),
                                    "tags": rec.get("tags"), "input": (rec.get("input") or "")[:300]})
            elif k == "hang":
                counters["hang"] += 1
                ctx.violations.append({"what": "hang: one case ran longer than the watchdog limit", "stream": rec.get("stream"),
                                       "idx": rec.get("idx"), "limit_ms": rec.get("limit_ms"), "generator_seed": handle.seed,
                                       "demand": "every call terminates"})
            elif k == "abort":
                counters["abort"] += 1
                ctx.violations.append({"what": "abort: the worker process died (signal / non-unwinding panic) in this case",
                                       "stream": rec.get("stream"), "idx": rec.get("idx"), "signal": rec.get("signal"),
                                       "exit_code": rec.get("exit_code"), "generator_seed": handle.seed,
                                       "demand": "no abort (inputs of the generated streams nest at most %d deep)" % DEPTH_CLASS})
            elif k == "restart":
                tot["cases"] += max(0, rec.get("stopped_at", 0) - rec.get("from", 0))


def model_check(ctx, sh, out, built):
    """correspondence: the site models of Model/Totality.v (user_name_to_file_name, the layer
    list, the glyph map / contents index) run in Coq on the inputs / histories the harness ran on
    norad; every difference is a disagreement"""
    from driver import coq_values, parse_term
    rc, o = sh([ctx.harness, "c03", "--tier", ctx.tier, "--seed", str(ctx.seed), "--out", out, "corr"], timeout=1200)
    if rc != 0 or "CORR done" not in o:
        ctx.disagreements.append({"what": "harness c03 corr failed", "output": o[-800:]})
        return 0
    spec = [("u2f", "corr_u2f.txt", "run_u2f", "u2f_case", 60 if not ctx.thorough() else 100, 480 if not ctx.thorough() else 6000),
            ("lc", "corr_lc.txt", "run_lc", "list lcop", 500, 10 ** 9),
            ("lay", "corr_lay.txt", "run_lay", "list layop", 500, 10 ** 9)]
    files = {}
    total = 0
    for tag, fn, fun, ty, per, cap in spec:
        lines = [l for l in open(os.path.join(out, fn)).read().split("\n") if l.strip()][:cap]
        total += len(lines)
        for i in range(0, len(lines), per):
            vf = os.path.join(out, "corr_%s_%d.v" % (tag, i // per))
            with open(vf, "w") as f:
                f.write("Require Import Norad.Run.RunBase Norad.Model.Totality Norad.Run.C03.\nOpen Scope N_scope.\n"
                        "Set Printing Width 100000. Set Printing Depth 1000000.\n")
                f.write("Definition cases : list ((%s) * tm) := [\n%s ].\n" % (ty, ";\n".join(lines[i:i + per])))
                f.write("Eval vm_compute in mismatches %s cases.\n" % fun)
            files[vf] = (tag, lines[i:i + per])
    if not built:
        ctx.disagreements.append({"what": "Coq development does not build; site models not evaluated"})
        return 0
    res = ctx.coq_eval_many(list(files), timeout=1200)
    okshards = 0
    for vf, (rc, o) in sorted(res.items()):
        tag, lines = files[vf]
        vals = coq_values(o) if rc == 0 else []
        if rc != 0 or len(vals) != 1:
            ctx.disagreements.append({"what": "model shard failed to evaluate", "shard": os.path.basename(vf), "output": o[-600:]})
            continue
        okshards += 1
        for item in parse_term(vals[0]):
            idx, m = item
            ctx.disagreements.append({"what": "site model and implementation differ (%s)" % tag, "case_and_observed": lines[idx][:1500],
                                      "model": str(m)[:800]})
    ctx.obligation("correspondence:C03 site models vs implementation (%d shards, %d cases)" % (len(files), total),
                   okshards == len(files) and not any("site model" in d.get("what", "") for d in ctx.disagreements),
                   "model and implementation differ")
    return total


def shrink_api(ctx, sh, out, v, inv):
    """greedy removal of operations of a failing API history (the harness discards the effects of
    the operations listed in C03_SKIP while keeping the random stream of the others)"""
    skips = []
    last = None
    for i in range(25):
        trial = skips + [i]
        rc, o = sh([ctx.harness, "c03", "--seed", str(v["generator_seed"]), "--out", out, "one", "api", str(v["idx"])],
                   timeout=120, env={"C03_SKIP": ",".join(map(str, trial))})
        recs = [json.loads(l) for l in o.split("\n") if l.startswith("{")]
        hit = [r for r in recs if site_of(inv, r.get("loc")) == v["site"] and r.get("tags") == v["input_class_tags"]]
        if hit:
            skips = trial
            last = hit[0]
    if last is not None:
        v["skipped_operations"] = skips
        v["shrunk_history"] = last.get("input")
        v["shrunk_entry"] = last.get("entry")


def run(ctx, known, built):
    import driver
    from driver import sh
    known_ids = {k["id"] for k in known}
    inv = getattr(ctx, "c03_inventory", None)
    if inv is None:
        inv = _inventory().inventory(driver.REPO)
    out = os.path.join(ctx.scratch, "c03")
    os.makedirs(out)
    hits = {}
    nviol0 = len(ctx.violations)

    def handle(rec, origin):
        fid, site, cls = classify(rec, inv, known_ids)
        if fid:
            hits[fid] = hits.get(fid, 0) + 1
            return
        v = {"what": "panic in a public entry point", "entry": rec.get("entry"), "panic_message": rec.get("msg"),
             "panic_location": rec.get("loc"), "site": site, "input_class_tags": rec.get("tags"),
             "class_matched_but_not_listed_in_known_findings": cls, "origin": origin,
             "stream": rec.get("stream"), "idx": rec.get("idx"), "generator_seed": handle.seed,
             "input": rec.get("input"), "demand": "a value or an error value; no panic outside the three documented ones"}
        ctx.violations.append(v)
    handle.seed = ctx.seed

    # ---- 1. committed corpus (witnesses of the known classes, past failures): runs first
    corpus = os.path.join(driver.VERIF, "corpus", "C03")
    ncorpus = 0
    stale = []
    man = os.path.join(corpus, "manifest.json")
    if os.path.exists(man):
        for e in json.load(open(man)):
            ncorpus += 1
            if e.get("witness"):
                rc, o = sh([ctx.harness, "c03", "--out", out, "witness", e["witness"]], timeout=300)
                recs = [json.loads(l) for l in o.split("\n") if l.startswith("{")]
            else:
                rc, recs, head, o = run_file(ctx, sh, out, os.path.join(corpus, e["path"]), e.get("tags", []))
            if rc != 0:
                ctx.violations.append({"what": "abort / crash on a corpus input", "corpus": e, "exit": rc, "output": o[-600:]})
            for r in recs:
                handle(r, {"corpus": e})
            if e.get("finding") and not any(classify(r, inv, set(CLASSES))[0] == e["finding"] for r in recs):
                stale.append(e["finding"])
    tot = {"cases": 0, "calls": 0, "ok": 0, "err": 0, "documented_panics": 0, "panics": 0, "deep": 0}
    entries = {}
    tags = {}
    per_stream = {}
    counters = {"hang": 0, "abort": 0}
    samples = []
    out_hash_dirs = [out]
    # ---- 2. generated streams (workers under catch_unwind + watchdog; master restarts after abort / hang)
    env = {"C03_WORKERS": str(min(8, driver.NPROC))}
    rc, o = sh([ctx.harness, "c03", "--tier", ctx.tier, "--seed", str(ctx.seed), "--out", out, "run"], timeout=6000, env=env)
    if rc != 0 or "MASTER done" not in o:
        ctx.disagreements.append({"what": "harness c03 run failed", "rc": rc, "output": o[-1500:]})
    collect(ctx, out, inv, handle, tot, entries, tags, per_stream, counters, samples)
    extended = False
    if (ctx.anchor_failures or ctx.proof_failures) and len(ctx.violations) == nviol0 and not ctx.thorough():
        # the tie is broken and the quick search found no input: search harder (other seed, ~8x the volume)
        extended = True
        out2 = os.path.join(ctx.scratch, "c03x")
        os.makedirs(out2)
        ctx.note("anchor / proof obligation broken and no failing input yet: extended search")
        rc, o = sh([ctx.harness, "c03", "--tier", "extended", "--seed", str(ctx.seed + 7919), "--out", out2, "run"], timeout=6000, env=env)
        handle.seed = ctx.seed + 7919
        collect(ctx, out2, inv, handle, tot, entries, tags, per_stream, counters, samples)
        handle.seed = ctx.seed
        out_hash_dirs.append(out2)
    distinct = set()
    distinct_deep = set()
    for hd in out_hash_dirs:
        for f in os.listdir(hd):
            if f.startswith("hash_"):
                for line in open(os.path.join(hd, f)):
                    p = line.split()
                    if len(p) == 2:
                        distinct.add(p[0])
                        if p[1] == "1":
                            distinct_deep.add(p[0])
    # ---- 3. deep nesting, every probe in its own child process
    jobs = [(k, d) for k in NEST_KINDS for d in NEST_DEPTHS]
    nest = {}

    def one(job):
        return job, nest_probe(ctx, sh, out, job[0], job[1])
    with concurrent.futures.ThreadPoolExecutor(max_workers=min(8, driver.NPROC)) as ex:
        for job, (rc, recs, o) in ex.map(one, jobs):
            nest[job] = rc
            kind, depth = job
            for r in recs:
                handle(r, {"nesting": kind, "depth": depth})
            if rc not in (0, 4):
                if depth > DEPTH_CLASS and "deep-nesting" in known_ids:
                    hits["deep-nesting"] = hits.get("deep-nesting", 0) + 1
                else:
                    ctx.violations.append({"what": "abort (stack exhaustion) or time-out on a nested input", "nesting_kind": kind, "depth": depth,
                                           "exit": rc, "output": o[-300:], "class": "deep-nesting (nesting depth > %d)" % DEPTH_CLASS,
                                           "demand": "no abort"})
    # measured thresholds: largest depth that survives, by bisection between the last ok and the first abort
    thresholds = {}

    def bisect(kind):
        ok = max([d for d in NEST_DEPTHS if nest.get((kind, d)) in (0, 4)] or [0])
        bad = min([d for d in NEST_DEPTHS if nest.get((kind, d)) not in (0, 4)] or [0])
        if not bad:
            return kind, None
        lo, hi = ok, bad
        for _ in range(4 if not ctx.thorough() else 9):
            mid = (lo + hi) // 2
            rc, _, _ = nest_probe(ctx, sh, out, kind, mid)
            if rc in (0, 4):
                lo = mid
            else:
                hi = mid
        return kind, (lo, hi)
    with concurrent.futures.ThreadPoolExecutor(max_workers=min(8, driver.NPROC)) as ex:
        for kind, th in ex.map(bisect, NEST_KINDS):
            thresholds[kind] = "no abort up to %d" % NEST_DEPTHS[-1] if th is None else \
                "survives %d; aborts or needs more than %d s at %d" % (th[0], PROBE_TIMEOUT * (4 if ctx.thorough() else 1), th[1])
            if th is not None and th[1] <= DEPTH_CLASS:
                ctx.violations.append({"what": "abort on nesting depth <= %d" % DEPTH_CLASS, "nesting_kind": kind, "depth": th[1]})
    # shrink the first API-history violations, put the smallest first
    shr = [v for v in ctx.violations[nviol0:] if v.get("stream") == "api" and v.get("origin") == "generated"][:3]
    for v in shr:
        try:
            shrink_api(ctx, sh, out, v, inv)
        except Exception as ex:      # shrinking is a convenience; never hide the violation
            v["shrink_error"] = repr(ex)
    if shr:
        best = min(shr, key=lambda v: len(v.get("shrunk_history") or v.get("input") or ""))
        ctx.violations.remove(best)
        ctx.violations.insert(0, best)
    ncorr = model_check(ctx, sh, out, built)
    for fid, n in hits.items():
        ctx.known_hits[fid] = ctx.known_hits.get(fid, 0) + n
    ctx.obligation("search:C03 no panic / abort / hang outside the documented panics and the listed classes "
                   "(%d inputs, %d guarded calls, %d nesting probes)" % (tot["cases"] + ncorpus, tot["calls"], len(jobs)),
                   len(ctx.violations) == nviol0, "see violations")
    nsites = len(inv)
    kinds = {}
    for _, _, kd in inv:
        kinds[kd] = kinds.get(kd, 0) + 1
    ctx.cov.update({
        "evaluations": tot["cases"] + ncorpus + len(jobs),
        "distinct_nontrivial": len(distinct_deep),
        "rule": "one evaluation = one generated input (mutated corpus glif / UFO tree / designspace file, API history, "
                "file-name call, nesting probe) run through the public entry points under catch_unwind. Distinct "
                "non-trivial = distinct inputs (hash of bytes / tree / history) that the first entry point accepted, so that "
                "the follow-up calls (encode, to_kurbo, save, reload) ran on the resulting value; API histories always count.",
        "exhaustive": False,
        "exploration_part": "byte-level totality is SEARCHED, not proved",
        "guarded_calls": tot["calls"], "calls_returning_value": tot["ok"], "calls_returning_error": tot["err"],
        "documented_panics_observed": tot["documented_panics"], "panic_records": tot["panics"],
        "hangs": counters["hang"], "aborts_in_streams": counters["abort"], "extended_search_ran": extended,
        "distinct_inputs": len(distinct), "cases_per_stream": per_stream, "corpus_inputs": ncorpus,
        "calls_per_entry_point[value,error,panic,documented]": entries,
        "input_class_tags": tags,
        "known_class_panics": hits,
        "stale_witnesses": stale,
        "nesting_thresholds_8MiB_main_thread": thresholds,
        "nesting_class_threshold": DEPTH_CLASS,
        "site_inventory": {"sites": nsites, "by_kind": kinds,
                           "not_in_catalogue": getattr(ctx, "c03_new_sites", [])[:20],
                           "no_longer_in_source": getattr(ctx, "c03_gone_sites", [])[:20]},
        "traces_validated_against_impl": ncorr,
        "model_cases": ncorr,
    })
    ctx.samples += samples or [{"note": "no panic record in this run"}]
    if stale:
        ctx.note("witnesses that no longer fail (stale): %s" % stale)


def replay(ctx, path):
    import driver
    from driver import sh
    d = json.load(open(path))
    inp = d.get("input") or {}
    out = os.path.join(ctx.scratch, "c03r")
    os.makedirs(out)
    if ctx.harness is None:
        print("harness does not build")
        return 1
    if inp.get("nesting_kind"):
        rc, recs, o = nest_probe(ctx, sh, out, inp["nesting_kind"], inp["depth"])
        print("nesting probe %s depth %s: exit %s\n%s" % (inp["nesting_kind"], inp["depth"], rc, o[-800:]))
        return 0 if rc == 0 else 1
    org = inp.get("origin")
    if isinstance(org, dict) and org.get("corpus") and org["corpus"].get("witness"):
        rc, o = sh([ctx.harness, "c03", "--out", out, "witness", org["corpus"]["witness"]], timeout=300)
        print(o[-3000:])
        return 1 if ('"kind":"panic"' in o or rc != 0) else 0
    if isinstance(org, dict) and org.get("corpus"):
        e = org["corpus"]
        rc, recs, head, o = run_file(ctx, sh, out, os.path.join(driver.VERIF, "corpus", "C03", e["path"]), e.get("tags", []))
        print(o[-3000:])
        return 1 if (recs or rc != 0) else 0
    if isinstance(org, dict) and org.get("nesting"):
        rc, recs, o = nest_probe(ctx, sh, out, org["nesting"], org["depth"])
        print(o[-3000:])
        return 1 if (recs or rc != 0) else 0
    if inp.get("stream") is not None and inp.get("idx") is not None:
        seed = inp.get("generator_seed", d.get("seed", 1))
        env = {"C03_SKIP": ",".join(map(str, inp["skipped_operations"]))} if inp.get("skipped_operations") else None
        rc, o = sh([ctx.harness, "c03", "--seed", str(seed), "--out", out, "one", inp["stream"], str(inp["idx"])], timeout=600, env=env)
        print(o[-6000:])
        idir = os.path.join(out, "input")
        if os.path.isdir(idir):
            print("input files written by the generator:", sorted(os.listdir(idir))[:40])
            try:
                print(open(os.path.join(idir, "description.txt")).read()[:3000])
            except OSError:
                pass
        return 1 if ('"kind":"panic"' in o or rc != 0) else 0
    print("replay file of kind %s names no executable input:\n%s" % (d.get("kind"), json.dumps(d, indent=1)[:3000]))
    return 1
