#!/bin/bash
# run_all.sh [quick|thorough]: every registered check, one line each (used for soak runs; not a registered check)
T=${1:-quick}
cd "$(dirname "$0")/.."
for c in $(python3 -c "import json;print(' '.join(x['property_id'] for x in json.load(open('MANIFEST.json'))['checks']))"); do
  s=$(date +%s); r=$(./check $c --tier $T 2>&1 | grep -v "^KNOWN\|^\[" | tail -2 | tr '\n' ' ' | cut -c1-300); e=$(date +%s)
  echo "$c [$((e-s))s]: $r"
done
