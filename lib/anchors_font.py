"""Anchors of C01 / C04 / C05: the file, directory and key names of the font-level model are the
statics of norad's source.  Extracted with regular expressions from src/font.rs, src/layer.rs and
src/shared_types.rs on every run and written as a Gallina record (Gen/Anchors_Cxx.v); a static that
cannot be found exactly once raises (= broken tie).  Also extracted: the order in which
Font::save_impl writes the top-level files (the order of the model's [paths_of])."""
import os
import re

STATICS = [
    # (field of the Coq record, file, name of the static)
    ("n_metainfo", "font.rs", "METAINFO_FILE"), ("n_fontinfo", "font.rs", "FONTINFO_FILE"),
    ("n_lib", "font.rs", "LIB_FILE"), ("n_groups", "font.rs", "GROUPS_FILE"),
    ("n_kerning", "font.rs", "KERNING_FILE"), ("n_features", "font.rs", "FEATURES_FILE"),
    ("n_layercontents", "layer.rs", "LAYER_CONTENTS_FILE"), ("n_contents", "layer.rs", "CONTENTS_FILE"),
    ("n_layerinfo", "layer.rs", "LAYER_INFO_FILE"), ("n_glyphs_dir", "layer.rs", "DEFAULT_GLYPHS_DIRNAME"),
    ("n_data_dir", "font.rs", "DATA_DIR"), ("n_images_dir", "font.rs", "IMAGES_DIR"),
    ("n_object_libs", "shared_types.rs", "PUBLIC_OBJECT_LIBS_KEY"),
    ("n_default_layer", "layer.rs", "DEFAULT_LAYER_NAME"), ("n_creator", "font.rs", "DEFAULT_METAINFO_CREATOR"),
]


def extract(repo):
    src = {}
    out = {}
    for field, fn, name in STATICS:
        if fn not in src:
            src[fn] = open(os.path.join(repo, "src", fn), encoding="utf-8").read()
        ms = re.findall(r"^\s*(?:pub(?:\([a-z]+\))?\s+)?static\s+%s\s*:\s*&str\s*=\s*\"((?:[^\"\\]|\\.)*)\"\s*;" % re.escape(name),
                        src[fn], re.M)
        if len(ms) != 1:
            raise ValueError("static %s of src/%s: expected exactly one definition, found %d" % (name, fn, len(ms)))
        if "\\" in ms[0]:
            raise ValueError("static %s: escape sequences are not handled" % name)
        out[field] = ms[0]
    # order of the top-level writes in save_impl: first use of each file-name static after `fn save_impl`
    body = src["font.rs"].split("fn save_impl", 1)
    if len(body) != 2:
        raise ValueError("fn save_impl not found in src/font.rs")
    body = body[1].split("\n    }\n", 1)[0]
    order = []
    for m in re.finditer(r"\b(METAINFO_FILE|FONTINFO_FILE|LIB_FILE|GROUPS_FILE|KERNING_FILE|FEATURES_FILE|LAYER_CONTENTS_FILE|DATA_DIR|IMAGES_DIR)\b", body):
        if m.group(1) not in order:
            order.append(m.group(1))
    out["save_order"] = order
    return out


def _g(s):
    return "[" + ";".join(str(ord(c)) for c in s) + "]"


ORDER_FIELDS = {"METAINFO_FILE": "n_metainfo", "FONTINFO_FILE": "n_fontinfo", "LIB_FILE": "n_lib", "GROUPS_FILE": "n_groups",
                "KERNING_FILE": "n_kerning", "FEATURES_FILE": "n_features", "LAYER_CONTENTS_FILE": "n_layercontents",
                "DATA_DIR": "n_data_dir", "IMAGES_DIR": "n_images_dir"}


def gallina(a, prop):
    lines = ["(* generated from /repo/src by lib/anchors_font.py; do not edit *)",
             "Require Import Norad.Model.Base Norad.Model.FontRT.", "Open Scope N_scope.",
             "Definition x_names : names := {|"]
    lines.append(";\n".join("  %s := %s" % (f, _g(a[f])) for f, _, _ in STATICS))
    lines.append("|}.")
    lines.append("Definition x_save_order : list str := [%s]." % "; ".join(_g(a[ORDER_FIELDS[n]]) for n in a["save_order"]))
    return "\n".join(lines) + "\n"
