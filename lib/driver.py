"""Generic driver of every check (DESIGN.md section 5).

  ./check Cxx [--tier quick|thorough] [--seed N] [--replay FILE]

Steps: proof obligations (make + pins + Print Assumptions + hygiene), anchors regenerated from
/repo/src, harness build against /repo's working tree, correspondence (model in Coq vs
implementation), property oracle on the implementation, verdict, evidence.
Python standard library only.
"""
import concurrent.futures
import hashlib
import importlib
import json
import os
import re
import shutil
import subprocess
import sys
import tempfile
import time

VERIF = os.path.dirname(os.path.dirname(os.path.abspath(__file__)))
REPO = os.environ.get("VERIF_REPO", "/repo")
COQ = os.path.join(VERIF, "coq")
HARNESS = os.path.join(VERIF, "harness")
NPROC = os.cpu_count() or 4
COQ_WARN = ["-w", "-deprecated-syntactic-definition,-deprecated-hint-without-locality,-notation-overridden"]

FORBIDDEN = re.compile(
    r"\b(Admitted|admit|Axiom|Axioms|Parameter|Parameters|Conjecture|Conjectures|"
    r"Admit Obligations|bypass_check|Unset Guard Checking|Unset Positivity Checking|"
    r"Unset Universe Checking|type-in-type|impredicative-set)\b")


def sh(cmd, cwd=None, timeout=None, env=None, stdin=None):
    """run, return (rc, stdout+stderr)"""
    e = dict(os.environ)
    e.update({"CARGO_NET_OFFLINE": "true"})
    if env:
        e.update(env)
    try:
        p = subprocess.run(cmd, cwd=cwd, env=e, stdout=subprocess.PIPE, stderr=subprocess.STDOUT,
                           timeout=timeout, input=stdin, shell=isinstance(cmd, str))
        return p.returncode, p.stdout.decode("utf-8", "replace")
    except subprocess.TimeoutExpired as ex:
        out = ex.stdout.decode("utf-8", "replace") if ex.stdout else ""
        return 124, out + "\n[timeout after %ss]" % timeout


def strip_comments(src):
    """remove (nested) Coq comments and string literals"""
    out = []
    depth = 0
    i = 0
    instr = False
    while i < len(src):
        if instr:
            if src[i] == '"':
                instr = False
            i += 1
            continue
        if src.startswith("(*", i):
            depth += 1
            i += 2
            continue
        if depth and src.startswith("*)", i):
            depth -= 1
            i += 2
            continue
        if depth == 0:
            if src[i] == '"':
                instr = True
                out.append('""')
            else:
                out.append(src[i])
        i += 1
    return "".join(out)


STMT_RE = re.compile(r"\b(Theorem|Lemma|Corollary|Example|Definition|Fact|Remark)\s+([A-Za-z_][\w']*)\b(.*?)(?::=|\.\s*Proof\b|\.\s)", re.S)


def statements(path):
    """[(kind, name, normalised statement)] of a Props file"""
    src = strip_comments(open(path).read())
    res = []
    for m in STMT_RE.finditer(src):
        res.append((m.group(1), m.group(2), " ".join(m.group(3).split())))
    return res


class Ctx:
    def __init__(self, prop, tier, seed):
        self.prop = prop
        self.tier = tier
        self.seed = seed
        self.t0 = time.time()
        base = "/dev/shm" if os.path.isdir("/dev/shm") and os.access("/dev/shm", os.W_OK) else None
        self.scratch = tempfile.mkdtemp(prefix="verif_%s_" % prop, dir=base)
        self.log = []
        # verdict inputs
        self.proof_failures = []      # strings
        self.anchor_failures = []
        self.disagreements = []       # dicts (model vs impl)
        self.violations = []          # dicts (oracle on the implementation), outside known classes
        self.known_hits = {}          # finding id -> count of cases suppressed
        self.obligations = []         # (name, ok)
        self.trusted = []
        self.cov = {}
        self.samples = []
        self.assumptions = []
        self.timings = {}

    def thorough(self):
        return self.tier == "thorough"

    def note(self, s):
        self.log.append(s)
        sys.stderr.write("[%s %6.1fs] %s\n" % (self.prop, time.time() - self.t0, s))
        sys.stderr.flush()

    def cleanup(self):
        shutil.rmtree(self.scratch, ignore_errors=True)

    # ---------------------------------------------------------------- Coq
    def coqc(self, vfile, timeout=600, extra_q=()):
        cmd = ["coqc", "-noglob", "-Q", COQ, "Norad"]
        for d, n in extra_q:
            cmd += ["-Q", d, n]
        cmd += COQ_WARN + [vfile]
        return sh(cmd, cwd=os.path.dirname(vfile), timeout=timeout)

    def coq_eval_many(self, files, timeout=900):
        """compile many scratch .v files in parallel; returns {file: (rc, out)}"""
        res = {}
        with concurrent.futures.ThreadPoolExecutor(max_workers=NPROC) as ex:
            futs = {ex.submit(self.coqc, f, timeout): f for f in files}
            for fu in concurrent.futures.as_completed(futs):
                res[futs[fu]] = fu.result()
        return res

    def obligation(self, name, ok, why=""):
        self.obligations.append((name, bool(ok)))
        if not ok:
            self.proof_failures.append("%s: %s" % (name, why))


def parse_known(prop):
    """known_findings.txt: lines 'finding: property=Cxx id=<id> class=<..> witness=<..> <text>'
    and 'fixed: property=Cxx <commit> <text>'"""
    res = []
    files = [os.path.join(VERIF, "known_findings.txt")]
    dd = os.path.join(VERIF, "known_findings.d")      # per-property drafts, merged into the main file
    if os.path.isdir(dd):
        files += sorted(os.path.join(dd, f) for f in os.listdir(dd))
    lines = []
    for p in files:
        if os.path.exists(p):
            lines += open(p).read().split("\n")
    for line in lines:
        line = line.strip()
        if not line.startswith("finding:"):
            continue
        m = re.match(r"finding:\s+property=(\S+)\s+id=(\S+)\s+(.*)$", line)
        if m and m.group(1) == prop:
            res.append({"id": m.group(2), "text": m.group(3)})
    return res


# -------------------------------------------------------------------- steps
def ensure_makefile():
    """(re)generate _CoqProject and the Makefile from the files present"""
    files = []
    for d in ("Model", "Proofs", "Props", "Run"):
        dd = os.path.join(COQ, d)
        if os.path.isdir(dd):
            files += sorted(os.path.join(d, f) for f in os.listdir(dd) if f.endswith(".v"))
    body = "-Q . Norad\n-arg -w -arg " + COQ_WARN[1] + "\n" + "\n".join(files) + "\n"
    cp = os.path.join(COQ, "_CoqProject")
    if not os.path.exists(cp) or open(cp).read() != body or not os.path.exists(os.path.join(COQ, "Makefile")):
        open(cp, "w").write(body)
        rc, out = sh(["coq_makefile", "-f", "_CoqProject", "-o", "Makefile"], cwd=COQ, timeout=120)
        if rc != 0:
            raise RuntimeError("coq_makefile failed: " + out)


def step_proofs(ctx, mod):
    t = time.time()
    ensure_makefile()
    targets = list(mod.COQ_TARGETS)
    rc, out = sh(["make", "-j%d" % NPROC] + targets, cwd=COQ, timeout=3000)
    built = rc == 0
    if not built:
        ctx.note("coq build failed:\n" + out[-3000:])
    # hygiene over the whole development
    bad = []
    for root, _, fs in os.walk(COQ):
        for f in fs:
            if f.endswith(".v"):
                src = strip_comments(open(os.path.join(root, f)).read())
                for m in FORBIDDEN.finditer(src):
                    bad.append("%s: %s" % (os.path.relpath(os.path.join(root, f), COQ), m.group(0)))
                # Variable / Hypothesis outside a section
                depth = 0
                for ln in src.split("\n"):
                    s = ln.strip()
                    if re.match(r"Section\s+\w+", s):
                        depth += 1
                    elif re.match(r"End\s+\w+", s) and depth > 0:
                        depth -= 1
                    elif depth == 0 and re.match(r"(Variable|Variables|Hypothesis|Hypotheses|Context)\b", s):
                        bad.append("%s: %s outside a section" % (f, s[:40]))
    ctx.obligation("hygiene(no Admitted/Axiom/Parameter/unsafe flags)", not bad, "; ".join(bad[:5]))
    # pins + assumptions
    for pf in mod.PROPS_FILES:
        path = os.path.join(COQ, "Props", pf + ".v")
        pinf = os.path.join(COQ, "Props", pf + ".pins.json")
        pins = {pf: json.load(open(pinf))} if os.path.exists(pinf) else {}
        stm = [s for s in statements(path) if s[0] in ("Theorem", "Lemma", "Corollary", "Example")]
        want = pins.get(pf, {})
        have = {n: hashlib.sha256(s.encode()).hexdigest()[:16] for _, n, s in stm}
        for n, h in want.items():
            if n not in have:
                ctx.obligation("pin:%s.%s" % (pf, n), False, "pinned theorem is missing")
            elif have[n] != h:
                ctx.obligation("pin:%s.%s" % (pf, n), False, "statement changed (expected %s got %s)" % (h, have[n]))
        for n in have:
            if n not in want:
                ctx.obligation("pin:%s.%s" % (pf, n), False, "theorem not pinned (run ./check --repin)")
        names = [n for k, n, _ in stm]
        vf = os.path.join(ctx.scratch, "Assm_%s.v" % pf)
        with open(vf, "w") as f:
            f.write("Require Import Norad.Props.%s.\n" % pf)
            for n in names:
                f.write('Goal True. idtac "@@BEGIN %s". Abort.\nPrint Assumptions %s.\n' % (n, n))
            f.write('Goal True. idtac "@@END". Abort.\n')
        if built:
            rc2, out2 = ctx.coqc(vf, timeout=600)
        else:
            rc2, out2 = 1, "not built"
        blocks = {}
        if rc2 == 0:
            cur = None
            for ln in out2.split("\n"):
                m = re.match(r"@@BEGIN (\S+)", ln)
                if m:
                    cur = m.group(1)
                    blocks[cur] = []
                elif ln.startswith("@@END"):
                    cur = None
                elif cur is not None:
                    blocks[cur].append(ln)
        allowed = getattr(mod, "ALLOWED_AXIOMS", [])
        for n in names:
            if rc2 != 0 or n not in blocks:
                ctx.obligation("thm:%s.%s" % (pf, n), False, "does not compile: " + out2[-400:])
                continue
            text = " ".join(" ".join(blocks[n]).split())
            if text.startswith("Closed under the global context"):
                ctx.obligation("thm:%s.%s" % (pf, n), True)
                ctx.trusted.append("Print Assumptions %s: Closed under the global context" % n)
            else:
                axs = re.findall(r"^([A-Za-z_][\w'.]*)\s*:", "\n".join(blocks[n]), re.M)
                extra = [a for a in axs if a not in allowed]
                ctx.obligation("thm:%s.%s" % (pf, n), not extra, "unexpected assumptions: " + ", ".join(extra))
                ctx.trusted.append("Print Assumptions %s: %s" % (n, text[:400]))
    # thorough tier: independent re-check of the compiled files with coqchk, and its axiom list
    if built and ctx.thorough():
        t2 = time.time()
        mods = ["Norad.Props." + pf for pf in mod.PROPS_FILES]
        rc3, out3 = sh(["coqchk", "-o", "-silent", "-Q", COQ, "Norad"] + mods, cwd=COQ, timeout=3000)
        m = re.search(r"\* Axioms:(.*?)\n\s*\n", out3, re.S)
        axioms = " ".join(m.group(1).split()) if m else "?"
        names = [a for a in re.findall(r"[A-Za-z_][\w.']*", axioms) if a not in ("none",)]
        allowed = getattr(mod, "ALLOWED_AXIOMS", []) + getattr(mod, "ALLOWED_COQCHK_AXIOMS", [])
        extra = [a for a in names if a.split(".")[-1] not in [x.split(".")[-1] for x in allowed]]
        unsafe = re.findall(r"relying on (type-in-type|unsafe \(co\)fixpoints): (?!<none>)(.*)", out3)
        unsafe += re.findall(r"(positivity is assumed): (?!<none>)(.*)", out3)
        ctx.obligation("coqchk:%s" % "+".join(mod.PROPS_FILES), rc3 == 0 and not extra and not unsafe,
                       "rc=%d axioms=%s unsafe=%s %s" % (rc3, axioms, unsafe, out3[-300:] if rc3 else ""))
        ctx.trusted.append("coqchk -o (independent checker) on %s: Axioms: %s" % (" ".join(mods), axioms))
        ctx.timings["coqchk"] = round(time.time() - t2, 1)
    ctx.timings["proofs"] = round(time.time() - t, 1)
    return built


def step_anchors(ctx, mod):
    if not hasattr(mod, "anchors"):
        return
    t = time.time()
    try:
        gen = mod.anchors(ctx)      # returns text of Gen/Anchors_Cxx.v, or raises
    except Exception as ex:         # extraction failed: broken tie
        ctx.anchor_failures.append("anchor extraction failed: %r" % (ex,))
        ctx.obligation("anchors:%s" % ctx.prop, False, repr(ex))
        return
    gdir = os.path.join(ctx.scratch, "gen")
    os.makedirs(gdir, exist_ok=True)
    gfile = os.path.join(gdir, "Anchors_%s.v" % ctx.prop)
    open(gfile, "w").write(gen)
    ok_src = os.path.join(COQ, "Anchors", "AnchorsOK_%s.v" % ctx.prop)
    ok_dst = os.path.join(gdir, "AnchorsOK_%s.v" % ctx.prop)
    shutil.copy(ok_src, ok_dst)
    rc, out = ctx.coqc(gfile, extra_q=[(gdir, "Gen")])
    if rc == 0:
        rc, out = ctx.coqc(ok_dst, extra_q=[(gdir, "Gen")])
    ok = rc == 0
    if not ok:
        ctx.anchor_failures.append("AnchorsOK_%s does not check: %s" % (ctx.prop, out[-1500:]))
    n = len(re.findall(r"^\s*(Lemma|Theorem|Example)\b", open(ok_src).read(), re.M))
    for i in range(max(n, 1)):
        ctx.obligation("anchor:%s#%d" % (ctx.prop, i + 1), ok, out[-300:])
    ctx.trusted.append("anchors regenerated from %s/src by lib/anchors.py (translator, trusted)" % REPO)
    ctx.timings["anchors"] = round(time.time() - t, 1)


AMBIENT_KINDS = [
    ("thread_local", r"\bthread_local!"),
    ("lazy_static", r"\blazy_static!"),
    ("once", r"\b(OnceLock|LazyLock|OnceCell|Lazy)\b"),
    ("static_mut", r"\bstatic\s+mut\b"),
    ("atomic", r"\bAtomic[A-Z][A-Za-z0-9]*\b"),
]
OBJECT_KINDS = [
    ("RefCell", r"\bRefCell\b"), ("Cell", r"(?<![A-Za-z])Cell<"), ("Mutex", r"\bMutex\b"), ("RwLock", r"\bRwLock\b"),
    ("UnsafeCell", r"\bUnsafeCell\b"), ("unsafe", r"\bunsafe\b"),
]


def ambient_inventory(repo):
    """Process-wide / thread-wide mutable state in norad's source (must be none) and interior
    mutability per object (must be what the models account for). Every Gallina model treats an
    entry point as a function of its arguments and the file tree; this inventory is the part of
    that premise that can be read off the source."""
    ambient, per_object = [], {}
    src = os.path.join(repo, "src")
    for root, _, files in os.walk(src):
        for fn in sorted(files):
            if not fn.endswith(".rs"):
                continue
            path = os.path.join(root, fn)
            rel = os.path.relpath(path, src)
            text = open(path, encoding="utf-8", errors="replace").read()
            mcut = re.search(r"#\[cfg\(test\)\]\s*\n\s*mod\s+\w+\s*\{", text)   # inline test module, not `mod tests;`
            if mcut:
                text = text[:mcut.start()]
            text = re.sub(r"//[^\n]*", "", text)
            text = re.sub(r"/\*.*?\*/", "", text, flags=re.S)
            for kind, rx in AMBIENT_KINDS:
                for m in re.finditer(rx, text):
                    line = text[text.rfind("\n", 0, m.start()) + 1:text.find("\n", m.end())].strip()
                    ambient.append("%s:%s:%s" % (rel, kind, line))
            # statics that are not plain string / slice constants
            for m in re.finditer(r"^\s*(?:pub(?:\([a-z]+\))?\s+)?static\s+(?!mut\b)(\w+)\s*:\s*([^=]+)=", text, re.M):
                ty = m.group(2).strip()
                if not re.match(r"^&(?:'static\s+)?(?:str|\[[^\]]*\])$", ty):
                    ambient.append("%s:static:%s: %s" % (rel, m.group(1), ty))
            for kind, rx in OBJECT_KINDS:
                n = len(re.findall(rx, text))
                if n:
                    per_object["%s:%s" % (rel, kind)] = n
    return sorted(ambient), per_object


def step_ambient(ctx):
    """Shared anchor: no ambient mutable state, per-object interior mutability as catalogued."""
    t = time.time()
    cat = json.load(open(os.path.join(VERIF, "lib", "ambient_state.json")))
    try:
        ambient, per_object = ambient_inventory(REPO)
    except Exception as ex:
        ctx.anchor_failures.append("ambient-state inventory failed: %r" % (ex,))
        ctx.obligation("anchor:ambient-state", False, repr(ex))
        return
    problems = []
    if ambient != cat["ambient"]:
        problems.append("process-/thread-wide state in src/: %s (catalogue: %s)" % (ambient, cat["ambient"]))
    if per_object != cat["per_object"]:
        diff = {k: (cat["per_object"].get(k, 0), per_object.get(k, 0))
                for k in set(per_object) | set(cat["per_object"]) if per_object.get(k, 0) != cat["per_object"].get(k, 0)}
        problems.append("interior mutability / unsafe differs from the catalogue (file:kind -> (catalogued, found)): %s" % diff)
    ok = not problems
    if not ok:
        ctx.anchor_failures.append("the models treat every entry point as a function of its arguments and the file tree; "
                                   "that premise is no longer read off the source: " + "; ".join(problems))
    ctx.obligation("anchor:ambient-state", ok, "; ".join(problems)[:300])
    ctx.trusted.append("no process-/thread-wide mutable state in %s/src (inventory regenerated every run = lib/ambient_state.json); "
                       "per-object interior mutability: datastore.rs RefCell (lazy store items, Model/Store.v), names.rs RwLock/RefCell "
                       "(name interning, Model/Interleave.v)" % REPO)
    ctx.timings["ambient"] = round(time.time() - t, 2)



def build_harness(ctx, features=(), target="target", profile="release"):
    """Build the harness against REPO's working tree. For REPO == /repo the crate in harness/ is
    used as it is (path dependency "/repo"). For another checkout (VERIF_REPO, mutation
    self-tests) a sibling crate harness-alt/<hash>/ is generated whose manifest names that
    checkout by absolute path and whose package is renamed: cargo keys its fingerprints by
    package id (which contains the path), so the two builds can never be confused, while the
    dependencies are shared through the common target directory."""
    t = time.time()
    env = {"CARGO_TARGET_DIR": os.path.join(HARNESS, target)}
    binname = "norad-verif-harness"
    cwd = HARNESS
    if os.path.realpath(REPO) != "/repo":
        h = hashlib.sha256(os.path.realpath(REPO).encode()).hexdigest()[:10]
        cwd = os.path.join(VERIF, "harness-alt", h)
        os.makedirs(os.path.join(cwd, ".cargo"), exist_ok=True)
        man = open(os.path.join(HARNESS, "Cargo.toml")).read()
        man = man.replace('path = "/repo"', 'path = "%s"' % os.path.realpath(REPO))
        man = man.replace('name = "norad-verif-harness"', 'name = "norad-verif-harness-alt-%s"' % h)
        open(os.path.join(cwd, "Cargo.toml"), "w").write(man)
        shutil.copy(os.path.join(HARNESS, "Cargo.lock"), os.path.join(cwd, "Cargo.lock"))
        shutil.copy(os.path.join(HARNESS, ".cargo", "config.toml"), os.path.join(cwd, ".cargo", "config.toml"))
        if not os.path.lexists(os.path.join(cwd, "src")):
            os.symlink(os.path.join(HARNESS, "src"), os.path.join(cwd, "src"))
        binname = "norad-verif-harness-alt-%s" % h
    cmd = ["cargo", "build", "--offline", "--quiet"]
    if profile == "release":
        cmd.append("--release")
    if features:
        cmd += ["--features", ",".join(features)]
    rc, out = sh(cmd, cwd=cwd, timeout=1800, env=env)
    ctx.timings["harness_build_" + target] = round(time.time() - t, 1)
    if rc != 0:
        # the tree under REPO no longer compiles (or the API the harness uses moved)
        ctx.note("harness build failed:\n" + out[-3000:])
        return None
    return os.path.join(HARNESS, target, profile, binname)


# ------------------------------------------------------------------ Coq output parsing
def coq_values(out):
    """split coqc output into the printed values of successive Eval commands (text between
    '= ' and the final ' : type')"""
    vals = []
    for blk in re.split(r"^\s*= ", out, flags=re.M)[1:]:
        i = blk.rfind("\n     : ")
        vals.append(blk[:i] if i >= 0 else blk)
    return vals


def parse_term(s):
    """parse a printed Gallina value made of numerals, strings, lists, tuples, constructors
    applied to arguments; returns nested python: int, str, list, tuple, ('Ctor', args...)"""
    toks = re.findall(r'"(?:[^"]|"")*"|\[|\]|\(|\)|;|,|[^\s\[\]();,"]+', s)
    pos = [0]

    def atom():
        t = toks[pos[0]]
        if t == "[":
            pos[0] += 1
            items = []
            if toks[pos[0]] == "]":
                pos[0] += 1
                return items
            while True:
                items.append(app())
                t2 = toks[pos[0]]
                pos[0] += 1
                if t2 == "]":
                    return items
        if t == "(":
            pos[0] += 1
            items = [app()]
            while toks[pos[0]] == ",":
                pos[0] += 1
                items.append(app())
            assert toks[pos[0]] == ")", toks[pos[0]:pos[0] + 5]
            pos[0] += 1
            return items[0] if len(items) == 1 else tuple(items)
        pos[0] += 1
        if t.startswith('"'):
            return t[1:-1].replace('""', '"')
        m = re.match(r"^(-?\d+)(%\w+)?$", t)
        if m:
            return int(m.group(1))
        return ("@", t)

    def app():
        head = atom()
        args = []
        while pos[0] < len(toks) and toks[pos[0]] not in ("]", ")", ";", ","):
            args.append(atom())
        if isinstance(head, tuple) and len(head) == 2 and head[0] == "@":
            if head[1].startswith("%"):
                return head
            return (head[1],) + tuple(args) if args else head[1]
        # scope annotations like 5%N are folded in the numeral regex
        return head

    v = app()
    return v


# ------------------------------------------------------------------ verdict / evidence
def write_replay(ctx, kind, payload):
    d = os.path.join(VERIF, "replays")
    os.makedirs(d, exist_ok=True)
    p = os.path.join(d, "%s-%s-%d.json" % (ctx.prop, kind, int(time.time() * 1000) % 10**10))
    body = {"property": ctx.prop, "kind": kind, "seed": ctx.seed, "tier": ctx.tier}
    body.update(payload)
    json.dump(body, open(p, "w"), indent=1, default=str)
    return p


def finish(ctx, mod, known):
    wall = round(time.time() - ctx.t0, 1)
    nob = len(ctx.obligations)
    ndis = sum(1 for _, ok in ctx.obligations if ok)
    lines = []
    rc = 0
    P = not ctx.proof_failures
    A = not ctx.anchor_failures
    K = not ctx.disagreements
    if ctx.violations:
        v = ctx.violations[0]
        p = write_replay(ctx, "impl-violation", {"input": v, "all": ctx.violations[:20]})
        lines.append("VIOLATION property=%s replay=%s" % (ctx.prop, p))
        rc = 1
    elif not (P and A and K):
        kind = "proof" if not P else ("anchor" if not A else "correspondence")
        p = write_replay(ctx, kind, {
            "broken_obligations": ctx.proof_failures[:20], "broken_anchors": ctx.anchor_failures[:20],
            "disagreeing_cases": ctx.disagreements[:20],
            "note": "the property is no longer shown to hold: the named theorem / anchor / "
                    "correspondence shard does not check; the search over model and implementation "
                    "found no input on which the property's own predicate fails"})
        lines.append("VIOLATION property=%s replay=%s no-failing-input-found" % (ctx.prop, p))
        rc = 1
    for k in known:
        lines.append("KNOWN-FINDING: property=%s id=%s %s" % (ctx.prop, k["id"], k["text"]))
    cov = {
        "obligations": nob, "discharged": ndis,
        "checker_cmd": "make -C coq %s && coqc Print Assumptions (per theorem) ; anchors ; correspondence"
                       % " ".join(mod.COQ_TARGETS),
        "trusted_base": sorted(set(ctx.trusted)) + list(getattr(mod, "TRUSTED", [])),
        "obligation_list": [{"name": n, "ok": ok} for n, ok in ctx.obligations],
        "evaluations": int(ctx.cov.get("evaluations", 0)),
        "distinct_nontrivial": int(ctx.cov.get("distinct_nontrivial", 0)),
        "rule": ctx.cov.get("rule", ""),
        "samples": ctx.samples[:8] or ["(no cases run)"],
        "traces_validated_against_impl": int(ctx.cov.get("traces_validated_against_impl", ctx.cov.get("evaluations", 0))),
        "disagreements_checked": len(ctx.disagreements),
        "known_class_hits": ctx.known_hits,
        "timings_s": ctx.timings,
    }
    for k, v in ctx.cov.items():
        cov.setdefault(k, v)
    ev = {"property_id": ctx.prop, "tier": ctx.tier, "seed": ctx.seed, "level": mod.META.get("level", "proof"),
          "coverage": cov, "assumptions": list(getattr(mod, "ASSUMPTIONS", [])) + ctx.assumptions,
          "wall_s": wall, "violations": len(ctx.violations) + (0 if (P and A and K) else 1)}
    os.makedirs(os.path.join(VERIF, "evidence"), exist_ok=True)
    json.dump(ev, open(os.path.join(VERIF, "evidence", ctx.prop + ".json"), "w"), indent=1, default=str)
    for ln in lines:
        print(ln)
    print("%s %s tier=%s seed=%d obligations=%d/%d disagreements=%d violations=%d known=%d wall=%.1fs"
          % (ctx.prop, "FAIL" if rc else "ok", ctx.tier, ctx.seed, ndis, nob, len(ctx.disagreements),
             len(ctx.violations), len(known), wall))
    return rc


def repin(only):
    """(re)write coq/Props/<file>.pins.json: hash of every theorem statement of that Props file"""
    pd = os.path.join(COQ, "Props")
    for f in sorted(os.listdir(pd)):
        if f.endswith(".v") and (not only or f[:-2] in only):
            stm = [s for s in statements(os.path.join(pd, f)) if s[0] in ("Theorem", "Lemma", "Corollary", "Example")]
            pins = {n: hashlib.sha256(s.encode()).hexdigest()[:16] for _, n, s in stm}
            json.dump(pins, open(os.path.join(pd, f[:-2] + ".pins.json"), "w"), indent=1, sort_keys=True)
            print("pinned", len(pins), "statements of", f)


def main(argv):
    if argv and argv[0] == "--repin":
        repin(argv[1:])
        return 0
    if not argv:
        print("usage: check Cxx [--tier quick|thorough] [--seed N] [--replay FILE]")
        return 2
    prop = argv[0].upper()
    tier = os.environ.get("VERIF_TIER", "quick")
    seed = int(os.environ.get("VERIF_SEED", "1") or 1)
    replay = None
    i = 1
    while i < len(argv):
        if argv[i] == "--tier":
            tier = argv[i + 1]
            i += 1
        elif argv[i] == "--seed":
            seed = int(argv[i + 1])
            i += 1
        elif argv[i] == "--replay":
            replay = argv[i + 1]
            i += 1
        i += 1
    if tier not in ("quick", "thorough"):
        tier = "quick"
    sys.path.insert(0, os.path.join(VERIF, "lib"))
    mod = importlib.import_module("props." + prop.lower())
    ctx = Ctx(prop, tier, seed)
    try:
        if replay:
            ctx.harness = build_harness(ctx)
            return mod.replay(ctx, replay)
        known = parse_known(prop)
        built = step_proofs(ctx, mod)
        step_anchors(ctx, mod)
        step_ambient(ctx)
        ctx.harness = build_harness(ctx)
        if ctx.harness is None:
            ctx.disagreements.append({"what": "the harness does not build against /repo's working tree"})
        else:
            mod.run(ctx, known, built)
        return finish(ctx, mod, known)
    finally:
        ctx.cleanup()
