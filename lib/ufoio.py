"""Independent reader / writer of UFO 3 directories and the canonical "abstract font" JSON format.

This module is the *independent implementation* of the font-level properties (C01, C04, C05, C09,
C17): it is written from the UFO 3 specification (file, element, attribute and key names of
unifiedfontobject.org/versions/ufo3), NOT from norad's code.  It uses the standard library only
(xml.parsers.expat for XML well-formedness and parsing, base64, datetime).

Abstract font (JSON)
====================

    font = {
      "meta":       {"creator": str|null, "formatVersion": 3, "formatVersionMinor": int},
      "info":       {key: PV, ...}      fontinfo.plist keys of the specification WITHOUT "guidelines"
      "guidelines": null | [guideline]  the "guidelines" entry of fontinfo.plist (null: key absent,
                                        []: present and empty), each with its object lib taken from
                                        lib.plist["public.objectLibs"][identifier]
      "groups":     {group name: [glyph name, ...]},
      "kerning":    {first: {second: NUM}},
      "lib":        LIB                 lib.plist without the consumed "public.objectLibs" entries
      "features":   str|null            features.fea text (null: no file or empty)
      "layers":     [layer, ...]        layers[0] is the DEFAULT layer (directory "glyphs"); the others
                                        in the order of layercontents.plist
      "data":       {"rel/path": hex},  files below data/   ('/'-separated relative path -> bytes)
      "images":     {"name": hex}       files in images/
    }
    layer = {"name": str, "dir": str|null, "color": COLOR|null, "lib": LIB, "glyphs": [glyph...]}
            glyphs sorted by name (code-point order); "dir" null = to be chosen by the writer
    glyph = {"name": str, "file": str|null, "advance": [NUM width, NUM height], "unicodes": [int...],
             "note": str|null, "image": {"fileName": str, "transform": [NUM x6], "color": COLOR|null}|null,
             "guidelines": [guideline], "anchors": [anchor], "contours": [contour],
             "components": [component], "lib": LIB}
            transform = [xScale, xyScale, yxScale, yScale, xOffset, yOffset]
    guideline = {"x": NUM|null, "y": NUM|null, "angle": NUM|null, "name": str|null, "color": COLOR|null,
                 "identifier": str|null, "lib": LIB|null}
    anchor    = {"x": NUM, "y": NUM, "name", "color", "identifier", "lib"}
    contour   = {"identifier": str|null, "lib": LIB|null, "points": [point]}
    point     = {"x": NUM, "y": NUM, "type": "move"|"line"|"offcurve"|"curve"|"qcurve", "smooth": bool,
                 "name": str|null, "identifier": str|null, "lib": LIB|null}
    component = {"base": str, "transform": [NUM x6], "identifier": str|null, "lib": LIB|null}

    NUM   = a binary64 number as a STRING in Python float.hex() notation ("0x1.8000000000000p+1",
            "-0x0.0p+0", "inf", "nan"): bit-exact through JSON.  (Plain JSON numbers are accepted on input.)
    COLOR = [NUM r, NUM g, NUM b, NUM a]
    LIB   = {key: PV}   (a plist dictionary; object libs are null when absent)
    PV    = tagged plist value:
            {"t":"int","v":int} {"t":"real","v":NUM} {"t":"str","v":str} {"t":"bool","v":bool}
            {"t":"data","v":hex} {"t":"date","v":"YYYY-MM-DDTHH:MM:SSZ"} {"t":"array","v":[PV...]}
            {"t":"dict","v":{key: PV}}

Canonical ordering: JSON object keys sorted (json.dumps(sort_keys=True) / serde_json's BTreeMap);
glyphs of a layer sorted by name; every other list is in document order (layers, unicodes,
guidelines, anchors, contours, points, components, group members, plist arrays).

Object libs: in a glif they live in the glyph lib under "public.objectLibs" keyed by identifier; the
reader moves each entry to the object carrying that identifier and removes it from the lib.  Entries
whose identifier matches no object stay in the lib under "public.objectLibs" (nothing is dropped
silently).  Same for the font lib and the font-info guidelines.

equal(a, b) implements the tolerances of the properties: numbers within 1e-9 relative, colours to
3 decimals, feature text up to CRLF -> LF, "dir"/"file" compared only when both sides give one,
meta.creator ignored (option), integer and real spellings of font-info / guideline numbers are the
same number, everything else exact (plist types included).

API
===
    read_ufo(path) -> font                 raises UfoError on any malformed / non-conforming input
    read_glif(bytes) -> glyph              one GLIF 2 document
    write_ufo(font, path, rng, style=None) renders with randomised legal surface syntax
    random_style(rng, **known_classes)     a style dictionary (see STYLE_DEFAULTS)
    equal(a, b, tol=1e-9, ...) -> [ (path, a_value, b_value), ... ]
    num(x) / val(s)                        float -> NUM, NUM -> float
    dumps(font) / loads(text)              canonical JSON text
"""
import base64
import datetime
import json
import math
import os
import re
import xml.parsers.expat


class UfoError(Exception):
    pass


# ------------------------------------------------------------------------------------------------
# numbers and JSON

def num(x):
    return float(x).hex()


def val(s):
    if isinstance(s, str):
        return float.fromhex(s)
    if isinstance(s, bool) or s is None:
        raise UfoError("not a number: %r" % (s,))
    return float(s)


def dumps(font):
    return json.dumps(font, sort_keys=True, indent=1, ensure_ascii=False)


def loads(text):
    return json.loads(text)


# ------------------------------------------------------------------------------------------------
# XML: a minimal tree on top of expat (well-formedness errors raise)

class Node(object):
    __slots__ = ("tag", "attrs", "kids", "line")

    def __init__(self, tag, attrs, line):
        self.tag = tag
        self.attrs = attrs      # dict, expat has already rejected duplicates
        self.kids = []          # Node | str (character data, CDATA included, comments dropped)
        self.line = line

    def elements(self):
        return [k for k in self.kids if isinstance(k, Node)]

    def text(self):
        return "".join(k for k in self.kids if isinstance(k, str))

    def only_elements(self, what):
        """child elements; non-blank character data between them is an error"""
        for k in self.kids:
            if isinstance(k, str) and k.strip(" \t\r\n") != "":
                raise UfoError("%s: unexpected text %r inside <%s> (line %d)" % (what, k[:40], self.tag, self.line))
        return self.elements()

    def only_text(self, what):
        for k in self.kids:
            if isinstance(k, Node):
                raise UfoError("%s: unexpected element <%s> inside <%s> (line %d)" % (what, k.tag, self.tag, k.line))
        return self.text()


def parse_xml(data, what="xml"):
    """bytes -> root Node.  Raises UfoError when the document is not well-formed."""
    p = xml.parsers.expat.ParserCreate()
    p.buffer_text = True
    p.ordered_attributes = False
    stack = []
    root = []

    def start(tag, attrs):
        n = Node(tag, dict(attrs), p.CurrentLineNumber)
        if stack:
            stack[-1].kids.append(n)
        else:
            root.append(n)
        stack.append(n)

    def end(tag):
        stack.pop()

    def chars(s):
        if stack:
            stack[-1].kids.append(s)

    p.StartElementHandler = start
    p.EndElementHandler = end
    p.CharacterDataHandler = chars
    try:
        p.Parse(data, True)
    except xml.parsers.expat.ExpatError as e:
        raise UfoError("%s: not well-formed XML: %s" % (what, e))
    if len(root) != 1:
        raise UfoError("%s: no root element" % what)
    # merge adjacent strings (buffer_text is flushed by comments / CDATA boundaries)
    def merge(n):
        out = []
        for k in n.kids:
            if isinstance(k, str) and out and isinstance(out[-1], str):
                out[-1] += k
            else:
                out.append(k)
                if isinstance(k, Node):
                    merge(k)
        n.kids = out
    merge(root[0])
    return root[0]


# ------------------------------------------------------------------------------------------------
# property lists (XML format) -> PV

_REAL = re.compile(r"^[+-]?(\d+\.?\d*([eE][+-]?\d+)?|\.\d+([eE][+-]?\d+)?|inf|infinity|nan)$", re.I)
_INT = re.compile(r"^[+-]?\d+$")
_HEXINT = re.compile(r"^0x[0-9a-fA-F]+$")
_DATE = re.compile(r"^(\d{4})-(\d\d)-(\d\d)T(\d\d):(\d\d):(\d\d)(\.\d+)?(Z|[+-]\d\d:\d\d)$")


def _date_canon(s, what):
    m = _DATE.match(s.strip())
    if not m:
        raise UfoError("%s: bad date %r" % (what, s))
    y, mo, d, h, mi, sec = (int(m.group(i)) for i in range(1, 7))
    try:
        t = datetime.datetime(y, mo, d, h, mi, sec)
    except ValueError:
        raise UfoError("%s: bad date %r" % (what, s))
    z = m.group(8)
    if z != "Z":
        off = datetime.timedelta(hours=int(z[1:3]), minutes=int(z[4:6]))
        t = t - off if z[0] == "+" else t + off
    frac = m.group(7) or ""
    frac = frac.rstrip("0").rstrip(".")
    return t.strftime("%Y-%m-%dT%H:%M:%S").rjust(19, "0") + frac + "Z"


def plist_value(n, what):
    t = n.tag
    if t == "dict":
        kids = n.only_elements(what)
        if len(kids) % 2:
            raise UfoError("%s: <dict> with an odd number of children (line %d)" % (what, n.line))
        d = {}
        for i in range(0, len(kids), 2):
            k, v = kids[i], kids[i + 1]
            if k.tag != "key":
                raise UfoError("%s: expected <key>, found <%s> (line %d)" % (what, k.tag, k.line))
            key = k.only_text(what)
            if key in d:
                raise UfoError("%s: duplicate key %r (line %d)" % (what, key, k.line))
            d[key] = plist_value(v, what)
        return {"t": "dict", "v": d}
    if t == "array":
        return {"t": "array", "v": [plist_value(k, what) for k in n.only_elements(what)]}
    if t == "string":
        return {"t": "str", "v": n.only_text(what)}
    if t == "integer":
        s = n.only_text(what).strip()
        if _INT.match(s):
            i = int(s)
        elif _HEXINT.match(s):
            i = int(s, 16)
        else:
            raise UfoError("%s: bad integer %r (line %d)" % (what, s, n.line))
        if not (-2 ** 63 <= i < 2 ** 64):
            raise UfoError("%s: integer out of range %r" % (what, s))
        return {"t": "int", "v": i}
    if t == "real":
        s = n.only_text(what).strip()
        if not _REAL.match(s):
            raise UfoError("%s: bad real %r (line %d)" % (what, s, n.line))
        return {"t": "real", "v": num(float(s))}
    if t in ("true", "false"):
        if n.kids:
            raise UfoError("%s: <%s> with content" % (what, t))
        return {"t": "bool", "v": t == "true"}
    if t == "data":
        s = re.sub(r"[ \t\r\n]", "", n.only_text(what))
        try:
            b = base64.b64decode(s, validate=True)
        except Exception:
            raise UfoError("%s: bad base64 data (line %d)" % (what, n.line))
        return {"t": "data", "v": b.hex()}
    if t == "date":
        return {"t": "date", "v": _date_canon(n.only_text(what), what)}
    raise UfoError("%s: unknown plist element <%s> (line %d)" % (what, t, n.line))


def read_plist_bytes(data, what):
    root = parse_xml(data, what)
    if root.tag != "plist":
        raise UfoError("%s: root element is <%s>, expected <plist>" % (what, root.tag))
    kids = root.only_elements(what)
    if len(kids) != 1:
        raise UfoError("%s: <plist> must contain exactly one value" % what)
    return plist_value(kids[0], what)


def read_plist_file(path, what):
    with open(path, "rb") as f:
        return read_plist_bytes(f.read(), what)


def _expect(pv, t, what):
    if pv["t"] != t:
        raise UfoError("%s: expected %s, found %s" % (what, t, pv["t"]))
    return pv["v"]


def _pv_number(pv, what):
    if pv["t"] == "int":
        return float(pv["v"])
    if pv["t"] == "real":
        return val(pv["v"])
    raise UfoError("%s: expected a number, found %s" % (what, pv["t"]))


# ------------------------------------------------------------------------------------------------
# specification tables

# fontinfo.plist (UFO 3).  Types: str, int, uint (non-negative integer), num (integer or float),
# nnnum (non-negative integer or float), float, bool, intlist, numlist, dict, list
FONTINFO_KEYS = {
    "familyName": "str", "styleName": "str", "styleMapFamilyName": "str", "styleMapStyleName": "str",
    "versionMajor": "int", "versionMinor": "uint", "year": "int",
    "copyright": "str", "trademark": "str",
    "unitsPerEm": "nnnum", "descender": "num", "xHeight": "num", "capHeight": "num", "ascender": "num",
    "italicAngle": "num", "note": "str",
    "openTypeGaspRangeRecords": "list",
    "openTypeHeadCreated": "str", "openTypeHeadLowestRecPPEM": "uint", "openTypeHeadFlags": "intlist",
    "openTypeHheaAscender": "int", "openTypeHheaDescender": "int", "openTypeHheaLineGap": "int",
    "openTypeHheaCaretSlopeRise": "int", "openTypeHheaCaretSlopeRun": "int", "openTypeHheaCaretOffset": "int",
    "openTypeNameDesigner": "str", "openTypeNameDesignerURL": "str", "openTypeNameManufacturer": "str",
    "openTypeNameManufacturerURL": "str", "openTypeNameLicense": "str", "openTypeNameLicenseURL": "str",
    "openTypeNameVersion": "str", "openTypeNameUniqueID": "str", "openTypeNameDescription": "str",
    "openTypeNamePreferredFamilyName": "str", "openTypeNamePreferredSubfamilyName": "str",
    "openTypeNameCompatibleFullName": "str", "openTypeNameSampleText": "str",
    "openTypeNameWWSFamilyName": "str", "openTypeNameWWSSubfamilyName": "str", "openTypeNameRecords": "list",
    "openTypeOS2WidthClass": "int", "openTypeOS2WeightClass": "uint", "openTypeOS2Selection": "intlist",
    "openTypeOS2VendorID": "str", "openTypeOS2Panose": "intlist", "openTypeOS2FamilyClass": "intlist",
    "openTypeOS2UnicodeRanges": "intlist", "openTypeOS2CodePageRanges": "intlist",
    "openTypeOS2TypoAscender": "int", "openTypeOS2TypoDescender": "int", "openTypeOS2TypoLineGap": "int",
    "openTypeOS2WinAscent": "uint", "openTypeOS2WinDescent": "uint", "openTypeOS2Type": "intlist",
    "openTypeOS2SubscriptXSize": "int", "openTypeOS2SubscriptYSize": "int",
    "openTypeOS2SubscriptXOffset": "int", "openTypeOS2SubscriptYOffset": "int",
    "openTypeOS2SuperscriptXSize": "int", "openTypeOS2SuperscriptYSize": "int",
    "openTypeOS2SuperscriptXOffset": "int", "openTypeOS2SuperscriptYOffset": "int",
    "openTypeOS2StrikeoutSize": "int", "openTypeOS2StrikeoutPosition": "int",
    "openTypeVheaVertTypoAscender": "int", "openTypeVheaVertTypoDescender": "int",
    "openTypeVheaVertTypoLineGap": "int", "openTypeVheaCaretSlopeRise": "int",
    "openTypeVheaCaretSlopeRun": "int", "openTypeVheaCaretOffset": "int",
    "postscriptFontName": "str", "postscriptFullName": "str", "postscriptSlantAngle": "num",
    "postscriptUniqueID": "int", "postscriptUnderlineThickness": "num", "postscriptUnderlinePosition": "num",
    "postscriptIsFixedPitch": "bool", "postscriptBlueValues": "numlist", "postscriptOtherBlues": "numlist",
    "postscriptFamilyBlues": "numlist", "postscriptFamilyOtherBlues": "numlist",
    "postscriptStemSnapH": "numlist", "postscriptStemSnapV": "numlist", "postscriptBlueFuzz": "num",
    "postscriptBlueShift": "num", "postscriptBlueScale": "float", "postscriptForceBold": "bool",
    "postscriptDefaultWidthX": "num", "postscriptNominalWidthX": "num", "postscriptWeightName": "str",
    "postscriptDefaultCharacter": "str", "postscriptWindowsCharacterSet": "int",
    "macintoshFONDName": "str", "macintoshFONDFamilyID": "int",
    "woffMajorVersion": "uint", "woffMinorVersion": "uint", "woffMetadataUniqueID": "dict",
    "woffMetadataVendor": "dict", "woffMetadataCredits": "dict", "woffMetadataDescription": "dict",
    "woffMetadataLicense": "dict", "woffMetadataCopyright": "dict", "woffMetadataTrademark": "dict",
    "woffMetadataLicensee": "dict", "woffMetadataExtensions": "list",
    "guidelines": "list",
}

_SUBDICT_KEYS = {
    "openTypeGaspRangeRecords": {"rangeMaxPPEM", "rangeGaspBehavior"},
    "openTypeNameRecords": {"nameID", "platformID", "encodingID", "languageID", "string"},
}

POINT_TYPES = ("move", "line", "offcurve", "curve", "qcurve")
OBJECT_LIBS = "public.objectLibs"


def _check_info_type(key, pv):
    t = FONTINFO_KEYS[key]
    w = "fontinfo.plist/" + key
    k = pv["t"]
    ok = {
        "str": k == "str", "int": k == "int", "uint": k == "int" and pv["v"] >= 0,
        "num": k in ("int", "real"), "nnnum": k in ("int", "real") and _pv_number(pv, w) >= 0 if k in ("int", "real") else False,
        "float": k in ("int", "real"), "bool": k == "bool",
        "intlist": k == "array" and all(x["t"] == "int" for x in pv["v"]) if k == "array" else False,
        "numlist": k == "array" and all(x["t"] in ("int", "real") for x in pv["v"]) if k == "array" else False,
        "dict": k == "dict", "list": k == "array",
    }[t]
    if not ok:
        raise UfoError("%s: value of type %s does not fit the specified type %s" % (w, k, t))
    if key in _SUBDICT_KEYS:
        for rec in pv["v"]:
            if rec["t"] != "dict" or not set(rec["v"]) <= _SUBDICT_KEYS[key]:
                raise UfoError("%s: malformed record" % w)


# ------------------------------------------------------------------------------------------------
# small value parsers

def _color(s, what):
    parts = s.split(",")
    if len(parts) != 4:
        raise UfoError("%s: bad colour %r" % (what, s))
    out = []
    for p in parts:
        p = p.strip(" ")
        if not _REAL.match(p):
            raise UfoError("%s: bad colour %r" % (what, s))
        f = float(p)
        if not (0.0 <= f <= 1.0):
            raise UfoError("%s: colour channel out of range %r" % (what, s))
        out.append(num(f))
    return out


def _attr_num(attrs, name, what, default=None):
    if name not in attrs:
        if default is None:
            raise UfoError("%s: missing attribute %s" % (what, name))
        return default
    s = attrs[name]
    if not _REAL.match(s):
        raise UfoError("%s: bad number %s=%r" % (what, name, s))
    return float(s)


def _only_attrs(n, allowed, what):
    for a in n.attrs:
        if a not in allowed:
            raise UfoError("%s: unknown attribute %r on <%s> (line %d)" % (what, a, n.tag, n.line))


def _no_kids(n, what):
    for k in n.kids:
        if isinstance(k, Node) or k.strip(" \t\r\n"):
            raise UfoError("%s: <%s> must be empty (line %d)" % (what, n.tag, n.line))


def _ident(attrs, seen, what):
    i = attrs.get("identifier")
    if i is None:
        return None
    if len(i) > 100 or any(not (0x20 <= ord(c) <= 0x7E) for c in i):
        raise UfoError("%s: invalid identifier %r" % (what, i))
    if i in seen:
        raise UfoError("%s: duplicate identifier %r" % (what, i))
    seen.add(i)
    return i


def _guideline_from(get, has, what, seen, identifier):
    """shared by glif <guideline> (attributes) and fontinfo guidelines (dict entries)"""
    x = get("x") if has("x") else None
    y = get("y") if has("y") else None
    a = get("angle") if has("angle") else None
    if x is None and y is None:
        raise UfoError("%s: guideline without x and y" % what)
    if (x is None or y is None) and a is not None:
        raise UfoError("%s: guideline angle without both x and y" % what)
    if x is not None and y is not None and a is None:
        raise UfoError("%s: guideline with x and y but no angle" % what)
    if a is not None and not (0.0 <= a <= 360.0):
        raise UfoError("%s: guideline angle out of range" % what)
    return {"x": None if x is None else num(x), "y": None if y is None else num(y),
            "angle": None if a is None else num(a), "identifier": identifier, "lib": None}


def _transform(n, what):
    return [num(_attr_num(n.attrs, k, what, d)) for k, d in
            (("xScale", 1.0), ("xyScale", 0.0), ("yxScale", 0.0), ("yScale", 1.0), ("xOffset", 0.0), ("yOffset", 0.0))]


_TRANSFORM_ATTRS = ("xScale", "xyScale", "yxScale", "yScale", "xOffset", "yOffset")


# ------------------------------------------------------------------------------------------------
# GLIF 2

def read_glif(data, what="glif"):
    root = parse_xml(data, what)
    if root.tag != "glyph":
        raise UfoError("%s: root element is <%s>" % (what, root.tag))
    _only_attrs(root, ("name", "format", "formatMinor"), what)
    if root.attrs.get("format") != "2":
        raise UfoError("%s: format %r is not GLIF 2" % (what, root.attrs.get("format")))
    if "name" not in root.attrs or root.attrs["name"] == "":
        raise UfoError("%s: glyph without name" % what)
    g = {"name": root.attrs["name"], "file": None, "advance": [num(0.0), num(0.0)], "unicodes": [], "note": None,
         "image": None, "guidelines": [], "anchors": [], "contours": [], "components": [], "lib": {}}
    seen_ids = set()
    seen = set()
    for n in root.only_elements(what):
        t = n.tag
        if t in ("advance", "image", "outline", "lib", "note"):
            if t in seen:
                raise UfoError("%s: more than one <%s>" % (what, t))
            seen.add(t)
        if t == "advance":
            _only_attrs(n, ("width", "height"), what)
            _no_kids(n, what)
            g["advance"] = [num(_attr_num(n.attrs, "width", what, 0.0)), num(_attr_num(n.attrs, "height", what, 0.0))]
        elif t == "unicode":
            _only_attrs(n, ("hex",), what)
            _no_kids(n, what)
            h = n.attrs.get("hex")
            if h is None or not re.match(r"^[0-9a-fA-F]+$", h):
                raise UfoError("%s: bad unicode hex %r" % (what, h))
            c = int(h, 16)
            if c > 0x10FFFF or 0xD800 <= c <= 0xDFFF:
                raise UfoError("%s: unicode value out of range %r" % (what, h))
            if c not in g["unicodes"]:
                g["unicodes"].append(c)
        elif t == "note":
            _only_attrs(n, (), what)
            g["note"] = n.only_text(what)
        elif t == "image":
            _only_attrs(n, ("fileName", "color") + _TRANSFORM_ATTRS, what)
            _no_kids(n, what)
            if not n.attrs.get("fileName"):
                raise UfoError("%s: image without fileName" % what)
            g["image"] = {"fileName": n.attrs["fileName"], "transform": _transform(n, what),
                          "color": _color(n.attrs["color"], what) if "color" in n.attrs else None}
        elif t == "guideline":
            _only_attrs(n, ("x", "y", "angle", "name", "color", "identifier"), what)
            _no_kids(n, what)
            gl = _guideline_from(lambda k: _attr_num(n.attrs, k, what), lambda k: k in n.attrs, what, seen_ids,
                                 _ident(n.attrs, seen_ids, what))
            gl["name"] = n.attrs.get("name")
            gl["color"] = _color(n.attrs["color"], what) if "color" in n.attrs else None
            g["guidelines"].append(gl)
        elif t == "anchor":
            _only_attrs(n, ("x", "y", "name", "color", "identifier"), what)
            _no_kids(n, what)
            g["anchors"].append({"x": num(_attr_num(n.attrs, "x", what)), "y": num(_attr_num(n.attrs, "y", what)),
                                 "name": n.attrs.get("name"),
                                 "color": _color(n.attrs["color"], what) if "color" in n.attrs else None,
                                 "identifier": _ident(n.attrs, seen_ids, what), "lib": None})
        elif t == "outline":
            _only_attrs(n, (), what)
            for o in n.only_elements(what):
                if o.tag == "component":
                    _only_attrs(o, ("base", "identifier") + _TRANSFORM_ATTRS, what)
                    _no_kids(o, what)
                    if not o.attrs.get("base"):
                        raise UfoError("%s: component without base" % what)
                    g["components"].append({"base": o.attrs["base"], "transform": _transform(o, what),
                                            "identifier": _ident(o.attrs, seen_ids, what), "lib": None})
                elif o.tag == "contour":
                    _only_attrs(o, ("identifier",), what)
                    c = {"identifier": _ident(o.attrs, seen_ids, what), "lib": None, "points": []}
                    for p in o.only_elements(what):
                        if p.tag != "point":
                            raise UfoError("%s: <%s> inside <contour>" % (what, p.tag))
                        _only_attrs(p, ("x", "y", "type", "smooth", "name", "identifier"), what)
                        _no_kids(p, what)
                        ty = p.attrs.get("type", "offcurve")
                        if ty not in POINT_TYPES:
                            raise UfoError("%s: unknown point type %r" % (what, ty))
                        sm = p.attrs.get("smooth", "no")
                        if sm not in ("yes", "no"):
                            raise UfoError("%s: bad smooth value %r" % (what, sm))
                        c["points"].append({"x": num(_attr_num(p.attrs, "x", what)), "y": num(_attr_num(p.attrs, "y", what)),
                                            "type": ty, "smooth": sm == "yes", "name": p.attrs.get("name"),
                                            "identifier": _ident(p.attrs, seen_ids, what), "lib": None})
                    g["contours"].append(c)
                else:
                    raise UfoError("%s: <%s> inside <outline>" % (what, o.tag))
        elif t == "lib":
            _only_attrs(n, (), what)
            kids = n.only_elements(what)
            if len(kids) != 1 or kids[0].tag != "dict":
                raise UfoError("%s: <lib> must contain exactly one <dict>" % what)
            g["lib"] = plist_value(kids[0], what)["v"]
        else:
            raise UfoError("%s: unknown element <%s> (line %d)" % (what, t, n.line))
    # object libs
    objs = []
    objs += g["anchors"] + g["guidelines"]
    for c in g["contours"]:
        objs.append(c)
        objs += c["points"]
    objs += g["components"]
    _attach_object_libs(g["lib"], objs, what)
    return g


def _attach_object_libs(lib, objs, what):
    if OBJECT_LIBS not in lib:
        return
    ol = _expect(lib[OBJECT_LIBS], "dict", what + "/" + OBJECT_LIBS)
    for o in objs:
        i = o.get("identifier")
        if i is not None and i in ol:
            o["lib"] = _expect(ol.pop(i), "dict", what + "/" + OBJECT_LIBS + "/" + i)
    if not ol:
        del lib[OBJECT_LIBS]


# ------------------------------------------------------------------------------------------------
# UFO 3 directory

def _read_layer(path, what):
    contents = _expect(read_plist_file(os.path.join(path, "contents.plist"), what + "/contents.plist"), "dict",
                       what + "/contents.plist")
    glyphs = []
    for name in sorted(contents):
        fn = _expect(contents[name], "str", what + "/contents.plist/" + name)
        with open(os.path.join(path, fn), "rb") as f:
            g = read_glif(f.read(), what + "/" + fn)
        # the glyph is known under the name of contents.plist
        g["name"] = name
        g["file"] = fn
        glyphs.append(g)
    color, lib = None, {}
    li = os.path.join(path, "layerinfo.plist")
    if os.path.exists(li):
        d = _expect(read_plist_file(li, what + "/layerinfo.plist"), "dict", what + "/layerinfo.plist")
        for k in d:
            if k not in ("color", "lib"):
                raise UfoError("%s/layerinfo.plist: unknown key %r" % (what, k))
        if "color" in d:
            color = _color(_expect(d["color"], "str", what + "/layerinfo.plist/color"), what + "/layerinfo.plist")
        if "lib" in d:
            lib = _expect(d["lib"], "dict", what + "/layerinfo.plist/lib")
    return color, lib, glyphs


def read_ufo(path):
    """UFO 3 directory -> abstract font.  Raises UfoError / OSError; nothing is swallowed."""
    def P(*a):
        return os.path.join(path, *a)
    if not os.path.isdir(path):
        raise UfoError("not a directory: %s" % path)
    md = _expect(read_plist_file(P("metainfo.plist"), "metainfo.plist"), "dict", "metainfo.plist")
    for k in md:
        if k not in ("creator", "formatVersion", "formatVersionMinor"):
            raise UfoError("metainfo.plist: unknown key %r" % k)
    fv = _expect(md.get("formatVersion", {"t": "missing"}), "int", "metainfo.plist/formatVersion")
    if fv != 3:
        raise UfoError("metainfo.plist: formatVersion %r is not 3" % fv)
    meta = {"creator": _expect(md["creator"], "str", "metainfo.plist/creator") if "creator" in md else None,
            "formatVersion": 3,
            "formatVersionMinor": _expect(md["formatVersionMinor"], "int", "metainfo.plist/formatVersionMinor")
            if "formatVersionMinor" in md else 0}
    lib = {}
    if os.path.exists(P("lib.plist")):
        lib = _expect(read_plist_file(P("lib.plist"), "lib.plist"), "dict", "lib.plist")
    info, guidelines = {}, None
    if os.path.exists(P("fontinfo.plist")):
        info = _expect(read_plist_file(P("fontinfo.plist"), "fontinfo.plist"), "dict", "fontinfo.plist")
        for k in info:
            if k not in FONTINFO_KEYS:
                raise UfoError("fontinfo.plist: key %r is not in the UFO 3 specification" % k)
            _check_info_type(k, info[k])
        if "guidelines" in info:
            guidelines = []
            seen = set()
            for i, gpv in enumerate(info.pop("guidelines")["v"]):
                w = "fontinfo.plist/guidelines[%d]" % i
                d = _expect(gpv, "dict", w)
                for k in d:
                    if k not in ("x", "y", "angle", "name", "color", "identifier"):
                        raise UfoError("%s: unknown key %r" % (w, k))
                ident = None
                if "identifier" in d:
                    ident = _ident({"identifier": _expect(d["identifier"], "str", w)}, seen, w)
                gl = _guideline_from(lambda k: _pv_number(d[k], w), lambda k: k in d, w, seen, ident)
                gl["name"] = _expect(d["name"], "str", w) if "name" in d else None
                gl["color"] = _color(_expect(d["color"], "str", w), w) if "color" in d else None
                guidelines.append(gl)
            _attach_object_libs(lib, guidelines, "lib.plist")
    groups = {}
    if os.path.exists(P("groups.plist")):
        gd = _expect(read_plist_file(P("groups.plist"), "groups.plist"), "dict", "groups.plist")
        for k, v in gd.items():
            groups[k] = [_expect(x, "str", "groups.plist/" + k) for x in _expect(v, "array", "groups.plist/" + k)]
    kerning = {}
    if os.path.exists(P("kerning.plist")):
        kd = _expect(read_plist_file(P("kerning.plist"), "kerning.plist"), "dict", "kerning.plist")
        for k, v in kd.items():
            kerning[k] = {k2: num(_pv_number(x, "kerning.plist/%s/%s" % (k, k2)))
                          for k2, x in _expect(v, "dict", "kerning.plist/" + k).items()}
    features = None
    if os.path.exists(P("features.fea")):
        with open(P("features.fea"), "rb") as f:
            raw = f.read()
        try:
            features = raw.decode("utf-8")
        except UnicodeDecodeError:
            raise UfoError("features.fea: not UTF-8")
        if features == "":
            features = None
    lc = _expect(read_plist_file(P("layercontents.plist"), "layercontents.plist"), "array", "layercontents.plist")
    layers = []
    names, dirs = set(), set()
    for i, e in enumerate(lc):
        pair = _expect(e, "array", "layercontents.plist[%d]" % i)
        if len(pair) != 2:
            raise UfoError("layercontents.plist[%d]: not a pair" % i)
        name = _expect(pair[0], "str", "layercontents.plist")
        d = _expect(pair[1], "str", "layercontents.plist")
        if name in names or d in dirs:
            raise UfoError("layercontents.plist: duplicate layer name or directory %r %r" % (name, d))
        names.add(name)
        dirs.add(d)
        if d != "glyphs" and not d.startswith("glyphs."):
            raise UfoError("layercontents.plist: directory %r does not start with 'glyphs.'" % d)
        color, llib, glyphs = _read_layer(P(d), d)
        layers.append({"name": name, "dir": d, "color": color, "lib": llib, "glyphs": glyphs})
    default = [l for l in layers if l["dir"] == "glyphs"]
    if len(default) != 1:
        raise UfoError("layercontents.plist: no default layer (directory 'glyphs')")
    # "default layer first, the other layers in their file order"
    layers = default + [l for l in layers if l["dir"] != "glyphs"]
    data = {}
    if os.path.isdir(P("data")):
        for root, ds, fs in os.walk(P("data")):
            for fn in fs:
                full = os.path.join(root, fn)
                if os.path.islink(full):
                    raise UfoError("data: symbolic link %s" % full)
                rel = os.path.relpath(full, P("data")).replace(os.sep, "/")
                with open(full, "rb") as f:
                    data[rel] = f.read().hex()
    images = {}
    if os.path.isdir(P("images")):
        for fn in os.listdir(P("images")):
            full = P("images", fn)
            if not os.path.isfile(full) or os.path.islink(full):
                raise UfoError("images: %s is not a plain file" % fn)
            with open(full, "rb") as f:
                b = f.read()
            if not b.startswith(b"\x89PNG\r\n\x1a\n"):
                raise UfoError("images: %s is not a PNG file" % fn)
            images[fn] = b.hex()
    return {"meta": meta, "info": info, "guidelines": guidelines, "groups": groups, "kerning": kerning, "lib": lib,
            "features": features, "layers": layers, "data": data, "images": images}


# ------------------------------------------------------------------------------------------------
# comparison

def _close(a, b, tol):
    if a == b:
        return True
    if math.isnan(a) or math.isnan(b):
        return math.isnan(a) and math.isnan(b)
    if math.isinf(a) or math.isinf(b):
        return False
    return abs(a - b) <= tol * max(abs(a), abs(b))


def _isnum(x):
    if isinstance(x, bool):
        return False
    if isinstance(x, (int, float)):
        return True
    if isinstance(x, str):
        try:
            float.fromhex(x)
            return x[:1] in "+-0in" and ("0x" in x or x.lstrip("+-") in ("inf", "nan"))
        except ValueError:
            return False
    return False


def equal(a, b, tol=1e-9, ignore_creator=True, ignore_files=False):
    """Differences between two abstract fonts: list of (path, value in a, value in b); [] when they agree
    under the tolerances of the round-trip properties."""
    diffs = []

    def d(path, x, y):
        diffs.append((path, x, y))

    def cmp_num(path, x, y):
        if x is None or y is None:
            if x is not y:
                d(path, x, y)
            return
        try:
            fx, fy = val(x), val(y)
        except (UfoError, ValueError, TypeError):
            d(path, x, y)
            return
        if not _close(fx, fy, tol):
            d(path, x, y)

    def cmp_color(path, x, y):
        if x is None or y is None:
            if x is not y:
                d(path, x, y)
            return
        if len(x) != 4 or len(y) != 4:
            d(path, x, y)
            return
        for i in range(4):
            if abs(val(x[i]) - val(y[i])) > 0.0005 + 1e-12:
                d(path, x, y)
                return

    def cmp_exact(path, x, y):
        if x != y or type(x) != type(y):
            d(path, x, y)

    def cmp_pv(path, x, y, lenient_numbers=False):
        if not (isinstance(x, dict) and isinstance(y, dict) and "t" in x and "t" in y):
            d(path, x, y)
            return
        tx, ty = x["t"], y["t"]
        if lenient_numbers and tx in ("int", "real") and ty in ("int", "real"):
            fx = float(x["v"]) if tx == "int" else val(x["v"])
            fy = float(y["v"]) if ty == "int" else val(y["v"])
            if tx == "int" and ty == "int":
                if x["v"] != y["v"]:
                    d(path, x, y)
            elif not _close(fx, fy, tol):
                d(path, x, y)
            return
        if tx != ty:
            d(path, x, y)
            return
        if tx == "real":
            if not _close(val(x["v"]), val(y["v"]), tol):
                d(path, x, y)
        elif tx == "array":
            if len(x["v"]) != len(y["v"]):
                d(path + "/#len", len(x["v"]), len(y["v"]))
                return
            for i, (p, q) in enumerate(zip(x["v"], y["v"])):
                cmp_pv("%s[%d]" % (path, i), p, q, lenient_numbers)
        elif tx == "dict":
            cmp_lib(path, x["v"], y["v"], lenient_numbers)
        else:
            cmp_exact(path, x["v"], y["v"])

    def cmp_lib(path, x, y, lenient_numbers=False):
        if x is None or y is None:
            if x is not y:
                d(path, x, y)
            return
        for k in sorted(set(x) | set(y)):
            if k not in x or k not in y:
                d("%s/%s" % (path, k), x.get(k, "<absent>"), y.get(k, "<absent>"))
            else:
                cmp_pv("%s/%s" % (path, k), x[k], y[k], lenient_numbers)

    def cmp_list(path, x, y, f):
        if x is None or y is None:
            if x is not y:
                d(path, x, y)
            return
        if len(x) != len(y):
            d(path + "/#len", len(x), len(y))
            return
        for i, (p, q) in enumerate(zip(x, y)):
            f("%s[%d]" % (path, i), p, q)

    def cmp_guideline(path, x, y):
        for k in ("x", "y", "angle"):
            cmp_num(path + "/" + k, x.get(k), y.get(k))
        cmp_exact(path + "/name", x.get("name"), y.get("name"))
        cmp_color(path + "/color", x.get("color"), y.get("color"))
        cmp_exact(path + "/identifier", x.get("identifier"), y.get("identifier"))
        cmp_lib(path + "/lib", x.get("lib"), y.get("lib"))

    def cmp_transform(path, x, y):
        cmp_list(path, x, y, cmp_num)

    def cmp_glyph(path, x, y):
        cmp_exact(path + "/name", x["name"], y["name"])
        if not ignore_files and x.get("file") is not None and y.get("file") is not None:
            cmp_exact(path + "/file", x["file"], y["file"])
        cmp_list(path + "/advance", x["advance"], y["advance"], cmp_num)
        cmp_exact(path + "/unicodes", x["unicodes"], y["unicodes"])
        cmp_exact(path + "/note", x.get("note"), y.get("note"))
        xi, yi = x.get("image"), y.get("image")
        if xi is None or yi is None:
            if xi is not yi:
                d(path + "/image", xi, yi)
        else:
            cmp_exact(path + "/image/fileName", xi["fileName"], yi["fileName"])
            cmp_transform(path + "/image/transform", xi["transform"], yi["transform"])
            cmp_color(path + "/image/color", xi.get("color"), yi.get("color"))
        cmp_list(path + "/guidelines", x["guidelines"], y["guidelines"], cmp_guideline)

        def cmp_anchor(p, u, v):
            cmp_num(p + "/x", u["x"], v["x"])
            cmp_num(p + "/y", u["y"], v["y"])
            cmp_exact(p + "/name", u.get("name"), v.get("name"))
            cmp_color(p + "/color", u.get("color"), v.get("color"))
            cmp_exact(p + "/identifier", u.get("identifier"), v.get("identifier"))
            cmp_lib(p + "/lib", u.get("lib"), v.get("lib"))

        def cmp_point(p, u, v):
            cmp_num(p + "/x", u["x"], v["x"])
            cmp_num(p + "/y", u["y"], v["y"])
            for k in ("type", "smooth", "name", "identifier"):
                cmp_exact(p + "/" + k, u.get(k), v.get(k))
            cmp_lib(p + "/lib", u.get("lib"), v.get("lib"))

        def cmp_contour(p, u, v):
            cmp_exact(p + "/identifier", u.get("identifier"), v.get("identifier"))
            cmp_lib(p + "/lib", u.get("lib"), v.get("lib"))
            cmp_list(p + "/points", u["points"], v["points"], cmp_point)

        def cmp_component(p, u, v):
            cmp_exact(p + "/base", u["base"], v["base"])
            cmp_transform(p + "/transform", u["transform"], v["transform"])
            cmp_exact(p + "/identifier", u.get("identifier"), v.get("identifier"))
            cmp_lib(p + "/lib", u.get("lib"), v.get("lib"))

        cmp_list(path + "/anchors", x["anchors"], y["anchors"], cmp_anchor)
        cmp_list(path + "/contours", x["contours"], y["contours"], cmp_contour)
        cmp_list(path + "/components", x["components"], y["components"], cmp_component)
        cmp_lib(path + "/lib", x["lib"], y["lib"])

    def cmp_layer(path, x, y):
        cmp_exact(path + "/name", x["name"], y["name"])
        if not ignore_files and x.get("dir") is not None and y.get("dir") is not None:
            cmp_exact(path + "/dir", x["dir"], y["dir"])
        cmp_color(path + "/color", x.get("color"), y.get("color"))
        cmp_lib(path + "/lib", x["lib"], y["lib"])
        gx = {g["name"]: g for g in x["glyphs"]}
        gy = {g["name"]: g for g in y["glyphs"]}
        for n in sorted(set(gx) | set(gy)):
            if n not in gx or n not in gy:
                d("%s/glyphs/%s" % (path, n), "<present>" if n in gx else "<absent>", "<present>" if n in gy else "<absent>")
            else:
                cmp_glyph("%s/glyphs/%s" % (path, n), gx[n], gy[n])

    ma, mb = a.get("meta") or {}, b.get("meta") or {}
    if not ignore_creator:
        cmp_exact("meta/creator", ma.get("creator"), mb.get("creator"))
    cmp_exact("meta/formatVersion", ma.get("formatVersion", 3), mb.get("formatVersion", 3))
    cmp_exact("meta/formatVersionMinor", ma.get("formatVersionMinor", 0), mb.get("formatVersionMinor", 0))
    cmp_lib("info", a.get("info") or {}, b.get("info") or {}, lenient_numbers=True)
    cmp_list("guidelines", a.get("guidelines"), b.get("guidelines"), cmp_guideline)
    ga, gb = a.get("groups") or {}, b.get("groups") or {}
    for k in sorted(set(ga) | set(gb)):
        cmp_exact("groups/" + k, ga.get(k, "<absent>"), gb.get(k, "<absent>"))
    ka, kb = a.get("kerning") or {}, b.get("kerning") or {}
    for k in sorted(set(ka) | set(kb)):
        if k not in ka or k not in kb:
            d("kerning/" + k, ka.get(k, "<absent>"), kb.get(k, "<absent>"))
            continue
        for k2 in sorted(set(ka[k]) | set(kb[k])):
            if k2 not in ka[k] or k2 not in kb[k]:
                d("kerning/%s/%s" % (k, k2), ka[k].get(k2, "<absent>"), kb[k].get(k2, "<absent>"))
            else:
                cmp_num("kerning/%s/%s" % (k, k2), ka[k][k2], kb[k][k2])
    cmp_lib("lib", a.get("lib") or {}, b.get("lib") or {})
    fa, fb = a.get("features") or "", b.get("features") or ""
    if fa.replace("\r\n", "\n") != fb.replace("\r\n", "\n"):
        d("features", fa, fb)
    cmp_list("layers", a.get("layers") or [], b.get("layers") or [], cmp_layer)
    for part in ("data", "images"):
        pa, pb = a.get(part) or {}, b.get(part) or {}
        for k in sorted(set(pa) | set(pb)):
            if pa.get(k) != pb.get(k):
                d("%s/%s" % (part, k), pa.get(k, "<absent>"), pb.get(k, "<absent>"))
    return diffs


# ------------------------------------------------------------------------------------------------
# independent WRITER with randomised legal surface syntax

STYLE_DEFAULTS = {
    # --- legal variation that norad accepts (random_style draws these) ---
    "quote": '"',               # '"' | "'" | "mix"   attribute quoting
    "indent": "\t",             # indentation unit ("" = none)
    "newline": "\n",            # "\n" | "\r\n"       line terminator of the formatting white space
    "compact": False,           # no white space between elements at all
    "ws_noise": 0.0,            # probability of extra blanks / line breaks at every separator and inside tags
    "xml_decl": "utf8",         # "utf8" | "utf8-lower" | "no-encoding" | "standalone" | "none"
    "decl_quote": '"',
    "bom_glif": False,          # UTF-8 byte order mark in front of .glif files
    "bom_plist": False,         # ... in front of .plist files
    "plist_doctype": True,      # Apple DOCTYPE in plist files
    "plist_version_attr": True, # version="1.0" on <plist>
    "comments": 0.0,            # probability of a comment at each position where XML allows one AND norad
                                # accepts it (before/after the root, between plist elements, inside <lib>)
    "attr_order": "random",     # "random" | "spec"
    "self_close": 0.5,          # probability of <x/> instead of <x></x> for empty dict/array/string/outline/true/false
    "key_order": "random",      # "random" | "sorted"    plist dictionary key order
    "layer_order": "random",    # "random" | "first" | "last"   position of the default layer in layercontents.plist
    "glif_element_order": "random",  # "random" | "spec"  order of the children of <glyph>
    "num_spell": 0.3,           # probability of an alternative numeric spelling (1 / 1.0 / 1e0 / +1 / 01 ...)
    "charref": 0.05,            # probability per character of a numeric character reference
    "explicit_defaults": 0.3,   # probability of spelling out an attribute / key that has its default value
    "int_real_respell": 0.3,    # probability of <real> for an integral "integer or float" value and vice versa
    "empty_files": 0.2,         # probability of writing an optional file / directory that would be empty
    "file_names": "ufo",        # "ufo" (derived from the name) | "opaque" (g0001.glif, glyphs.L1)
    "hex_case": "random",       # unicode hex digits: "upper" | "lower" | "random"; padding varies too
    # --- legal (or tolerated-by-spec) forms norad is KNOWN to reject or mis-read: opt-in ---
    "comments_in_glyph": False,   # F14: comments between the children of <glyph>, <outline>, <contour>
    "open_close_empties": False,  # F14: <advance ...></advance> etc. instead of the empty-element tag
    "empty_lib_element": False,   # F14: <lib/> when the glyph lib is empty
    "empty_note_element": False,  # F14: <note/> for the empty note
    "cdata_note": False,          # F14: note text in a CDATA section
    "cdata_strings": False,       # plist <string> text in a CDATA section (skipped by the plist crate)
    "glif_doctype": False,        # F17: <!DOCTYPE glyph> before <glyph>
    "ws_in_numbers": False,       # blanks around numbers in attributes / <integer> / <real>
    "non_utf8_encoding": None,    # e.g. "utf-16" or "iso-8859-1" (when the text allows it)
    "pi": False,                  # processing instructions
    "hex_integers": False,        # <integer>0x1f</integer>
    "crlf_text": False,           # line breaks INSIDE character data written as CR LF (an XML processor
                                  # must hand them to the application as LF; quick-xml does not)
}

KNOWN_CLASSES = ("comments_in_glyph", "open_close_empties", "empty_lib_element", "empty_note_element", "cdata_note",
                 "cdata_strings", "glif_doctype", "ws_in_numbers", "non_utf8_encoding", "pi", "hex_integers", "crlf_text")


def random_style(rng, **classes):
    """A random style inside what norad accepts; `classes` switches known-finding classes on
    (e.g. random_style(rng, comments_in_glyph=True); all=True switches every class on)."""
    s = dict(STYLE_DEFAULTS)
    s["quote"] = rng.choice(['"', "'", "mix"])
    s["indent"] = rng.choice(["\t", "  ", "    ", " ", "", "\t\t"])
    s["newline"] = rng.choice(["\n", "\n", "\r\n"])
    s["compact"] = rng.random() < 0.15
    s["ws_noise"] = rng.choice([0.0, 0.0, 0.1, 0.5])
    s["xml_decl"] = rng.choice(["utf8", "utf8", "utf8-lower", "no-encoding", "standalone", "none"])
    s["decl_quote"] = rng.choice(['"', "'"])
    s["bom_glif"] = rng.random() < 0.2
    s["bom_plist"] = rng.random() < 0.2
    s["plist_doctype"] = rng.random() < 0.7
    s["plist_version_attr"] = rng.random() < 0.8
    s["comments"] = rng.choice([0.0, 0.0, 0.1, 0.4])
    s["attr_order"] = rng.choice(["random", "random", "spec"])
    s["self_close"] = rng.choice([0.0, 0.5, 1.0])
    s["key_order"] = rng.choice(["random", "random", "sorted"])
    s["layer_order"] = rng.choice(["random", "random", "first", "last"])
    s["glif_element_order"] = rng.choice(["random", "spec"])
    s["num_spell"] = rng.choice([0.0, 0.3, 0.8])
    s["charref"] = rng.choice([0.0, 0.0, 0.05, 0.5])
    s["explicit_defaults"] = rng.choice([0.0, 0.3, 1.0])
    s["int_real_respell"] = rng.choice([0.0, 0.3, 1.0])
    s["empty_files"] = rng.choice([0.0, 0.2, 1.0])
    s["file_names"] = rng.choice(["ufo", "ufo", "opaque"])
    s["hex_case"] = rng.choice(["upper", "lower", "random"])
    every = classes.pop("all", False)
    for c in KNOWN_CLASSES:
        if every or classes.get(c):
            s[c] = "utf-16" if c == "non_utf8_encoding" else True
    return s


_COMMENTS = [" comment ", "", " <not><an element/> & not an entity &amp; ", "\n multi\n line\n", " - ", " café \U0001F600 ",
             " <key>k</key><string>v</string> ", " ]]> "]


class _W(object):
    """one output document"""

    def __init__(self, rng, style, kind):
        self.rng = rng
        self.s = style
        self.kind = kind            # "plist" | "glif"
        self.out = []

    # -- lexical pieces ---------------------------------------------------------------------
    def p(self, prob):
        return prob > 0 and self.rng.random() < prob

    def blank(self):
        """optional white space inside a tag"""
        if self.p(self.s["ws_noise"]):
            return self.rng.choice([" ", "  ", "\t", self.s["newline"], " " + self.s["newline"] + "  "])
        return ""

    def sep(self, level, comments_ok=True):
        """white space (and possibly comments) between two elements"""
        parts = []
        if self.s["compact"]:
            ws = ""
        elif self.p(self.s["ws_noise"]):
            ws = self.rng.choice([" ", "", self.s["newline"] * 2, "\t \t", self.s["newline"] + " "])
        else:
            ws = self.s["newline"] + self.s["indent"] * level
        parts.append(ws)
        if comments_ok:
            while self.p(self.s["comments"]):
                parts.append("<!--" + self.rng.choice(_COMMENTS) + "-->")
                parts.append(ws)
            if self.s["pi"] and self.p(0.2):
                parts.append("<?fontio test?>")
                parts.append(ws)
        self.out.append("".join(parts))

    def charref(self, c):
        o = ord(c)
        k = self.rng.randrange(4)
        if k == 0:
            return "&#%d;" % o
        if k == 1:
            return "&#x%x;" % o
        if k == 2:
            return "&#x%X;" % o
        return "&#%04d;" % o

    def esc_text(self, t):
        out = []
        for i, c in enumerate(t):
            if c == "<":
                out.append("&lt;" if not self.p(self.s["charref"]) else self.charref(c))
            elif c == "&":
                out.append("&amp;" if not self.p(self.s["charref"]) else self.charref(c))
            elif c == ">":
                if t[max(0, i - 2):i] == "]]" or self.rng.random() < 0.5:
                    out.append("&gt;")
                else:
                    out.append(">")
            elif c == "\r":
                out.append(self.rng.choice(["&#13;", "&#xD;", "&#xd;"]))
            elif c == "\n" and self.s["crlf_text"]:
                out.append("\r\n")
            elif c in "\"'" and self.rng.random() < 0.2:
                out.append("&quot;" if c == '"' else "&apos;")
            elif self.p(self.s["charref"]):
                out.append(self.charref(c))
            else:
                out.append(c)
        return "".join(out)

    def cdata(self, t):
        return "<![CDATA[" + t.replace("]]>", "]]]]><![CDATA[>") + "]]>"

    def attr(self, name, value):
        q = self.s["quote"]
        if q == "mix":
            q = self.rng.choice(['"', "'"])
        out = []
        for c in value:
            if c == "<":
                out.append("&lt;")
            elif c == "&":
                out.append("&amp;")
            elif c == q:
                out.append("&quot;" if c == '"' else "&apos;")
            elif c in "\t\n\r":
                out.append("&#%d;" % ord(c))
            elif c == ">" and self.rng.random() < 0.5:
                out.append("&gt;")
            elif c in "\"'" and self.rng.random() < 0.2:
                out.append("&quot;" if c == '"' else "&apos;")
            elif self.p(self.s["charref"]):
                out.append(self.charref(c))
            else:
                out.append(c)
        eq = self.blank() + "=" + self.blank()
        return name + eq + q + "".join(out) + q

    def tag(self, name, attrs=(), empty=False, spec_order=False):
        """start tag or empty-element tag; attrs = [(name, value)]"""
        attrs = list(attrs)
        if self.s["attr_order"] == "random" and not spec_order:
            self.rng.shuffle(attrs)
        parts = ["<" + name]
        for k, v in attrs:
            parts.append((self.blank() or " ") + self.attr(k, v))
        parts.append(self.blank())
        if empty and self.s["open_close_empties"] and self.rng.random() < 0.5:
            parts.append("></" + name + self.blank() + ">")
        else:
            parts.append("/>" if empty else ">")
        self.out.append("".join(parts))

    def end(self, name):
        self.out.append("</" + name + self.blank() + ">")

    # -- numbers ------------------------------------------------------------------------------
    def spell_float(self, x):
        base = repr(float(x))
        if base.endswith(".0") and "e" not in base:
            base_alt = [base[:-2]]
        else:
            base_alt = []
        cands = [base]
        if self.p(self.s["num_spell"]):
            cands = [base] + base_alt
            cands.append("%.17g" % x)
            cands.append(("%.17e" % x).replace("e", self.rng.choice("eE")))
            cands.append(base.upper() if "e" in base else base)
            if x == int(x) and abs(x) < 1e15:
                i = "%d" % int(x)
                if i == "0" and math.copysign(1.0, x) < 0:
                    i = "-0"
                cands += [i, i + ".0", i + ".", i + "e0", i + "E+0", i + ".000"]
                if not i.startswith("-"):
                    cands += ["+" + i, "00" + i, "+" + i + ".0"]
                else:
                    cands += ["-00" + i[1:]]
            elif 0 < abs(x) < 1 and base.startswith(("0.", "-0.")):
                cands.append(base.replace("0.", ".", 1))
            if not base.startswith("-"):
                cands.append("+" + base)
        c = self.rng.choice(cands)
        if float(c) != x or math.copysign(1.0, float(c)) != math.copysign(1.0, x):
            c = base
        if self.s["ws_in_numbers"] and self.rng.random() < 0.5:
            c = self.rng.choice([" ", "\n", "\t"]) + c + self.rng.choice([" ", ""])
        return c

    def spell_int(self, i):
        c = str(i)
        if self.p(self.s["num_spell"]):
            if i >= 0:
                c = self.rng.choice([c, "+" + c, "0" + c, "000" + c])
            else:
                c = self.rng.choice([c, "-0" + c[1:]])
        if self.s["hex_integers"] and i >= 0 and self.rng.random() < 0.5:
            c = "0x%x" % i
        if self.s["ws_in_numbers"] and self.rng.random() < 0.5:
            c = " " + c + self.rng.choice([" ", "\n"])
        return c

    # -- plist values -------------------------------------------------------------------------
    def empty_or_pair(self, name, level):
        if self.p(self.s["self_close"]):
            self.tag(name, empty=True)
            # `open_close_empties` must not apply here: handled by the else branch
        else:
            self.tag(name)
            if not self.s["compact"] and self.rng.random() < 0.3 and name in ("dict", "array"):
                self.sep(level)
            self.end(name)

    def text_el(self, name, t):
        if t == "":
            self.empty_or_pair(name, 0)
            return
        self.tag(name)
        if self.s["cdata_strings"] and self.rng.random() < 0.5:
            self.out.append(self.cdata(t))
        else:
            e = self.esc_text(t)
            if self.p(self.s["comments"]) and len(t) > 1:
                # a comment in the middle of character data does not change the text
                k = self.rng.randrange(1, len(t))
                e = self.esc_text(t[:k]) + "<!--" + self.rng.choice(_COMMENTS) + "-->" + self.esc_text(t[k:])
            self.out.append(e)
        self.end(name)

    def number_pv(self, pv, respell):
        """int / real, optionally respelled as the other element when the value allows"""
        t = pv["t"]
        if t == "int":
            i = pv["v"]
            if respell and self.p(self.s["int_real_respell"]) and float(i) == i and abs(i) < 2 ** 53:
                self.tag("real")
                self.out.append(self.spell_float(float(i)))
                self.end("real")
            else:
                self.tag("integer")
                self.out.append(self.spell_int(i))
                self.end("integer")
        else:
            x = val(pv["v"])
            if respell and self.p(self.s["int_real_respell"]) and x == int(x) and abs(x) < 2 ** 31 and not (x == 0 and math.copysign(1, x) < 0):
                self.tag("integer")
                self.out.append(self.spell_int(int(x)))
                self.end("integer")
            else:
                self.tag("real")
                self.out.append(self.spell_float(x))
                self.end("real")

    def pv(self, pv, level, respell=False):
        t = pv["t"]
        if t in ("int", "real"):
            self.number_pv(pv, respell)
        elif t == "str":
            self.text_el("string", pv["v"])
        elif t == "bool":
            name = "true" if pv["v"] else "false"
            if self.p(self.s["self_close"]) or True:
                # <true></true> is legal XML but not what any plist writer produces; keep the choice
                if self.rng.random() < 0.9:
                    self.tag(name, empty=True)
                else:
                    self.tag(name)
                    self.end(name)
        elif t == "data":
            b = base64.b64encode(bytes.fromhex(pv["v"])).decode("ascii")
            self.tag("data")
            k = self.rng.choice([0, 0, 76, 68, 20, 4])
            if k and b:
                lines = [b[i:i + k] for i in range(0, len(b), k)]
                ws = self.s["newline"] + self.s["indent"] * level
                self.out.append(ws + ws.join(lines) + ws)
            else:
                self.out.append(b)
            self.end("data")
        elif t == "date":
            self.tag("date")
            self.out.append(pv["v"])
            self.end("date")
        elif t == "array":
            if not pv["v"]:
                self.empty_or_pair("array", level)
                return
            self.tag("array")
            for x in pv["v"]:
                self.sep(level + 1)
                self.pv(x, level + 1, respell)
            self.sep(level)
            self.end("array")
        elif t == "dict":
            self.dict(pv["v"], level, respell=respell)
        else:
            raise UfoError("cannot write plist value of type %r" % t)

    def dict(self, d, level, respell=False, respell_keys=None):
        if not d:
            self.empty_or_pair("dict", level)
            return
        keys = sorted(d)
        if self.s["key_order"] == "random":
            self.rng.shuffle(keys)
        self.tag("dict")
        for k in keys:
            self.sep(level + 1)
            self.text_el("key", k)
            self.sep(level + 1, comments_ok=True)
            r = respell or (respell_keys is not None and k in respell_keys)
            self.pv(d[k], level + 1, r)
        self.sep(level)
        self.end("dict")

    # -- documents ----------------------------------------------------------------------------
    def prolog(self):
        d = self.s["xml_decl"]
        q = self.s["decl_quote"]
        enc = self.s["non_utf8_encoding"]
        if enc:
            self.out.append("<?xml version=%s1.0%s encoding=%s%s%s?>" % (q, q, q, enc.upper(), q))
        elif d == "utf8":
            self.out.append("<?xml version=%s1.0%s encoding=%sUTF-8%s?>" % (q, q, q, q))
        elif d == "utf8-lower":
            self.out.append("<?xml version=%s1.0%s encoding=%sutf-8%s ?>" % (q, q, q, q))
        elif d == "no-encoding":
            self.out.append("<?xml version=%s1.0%s?>" % (q, q))
        elif d == "standalone":
            self.out.append("<?xml version=%s1.0%s encoding=%sUTF-8%s standalone=%syes%s?>" % (q, q, q, q, q, q))
        if d != "none" or enc:
            self.sep(0)
        elif self.p(self.s["comments"]):
            self.out.append("<!-- no declaration -->")
            self.sep(0)

    def finish(self, bom):
        self.sep(0) if self.rng.random() < 0.9 else None
        text = "".join(self.out)
        enc = self.s["non_utf8_encoding"]
        if enc:
            try:
                return text.encode(enc)
            except UnicodeEncodeError:
                return text.replace(enc.upper(), "UTF-8", 1).encode("utf-8")
        data = text.encode("utf-8")
        if bom:
            data = b"\xef\xbb\xbf" + data
        return data


def _plist_doc(rng, style, value, respell=False, respell_keys=None):
    w = _W(rng, style, "plist")
    w.prolog()
    if style["plist_doctype"]:
        w.out.append('<!DOCTYPE plist PUBLIC "-//Apple//DTD PLIST 1.0//EN" "http://www.apple.com/DTDs/PropertyList-1.0.dtd">')
        w.sep(0)
    w.tag("plist", [("version", "1.0")] if style["plist_version_attr"] else [])
    w.sep(0 if rng.random() < 0.5 else 1)
    if value["t"] == "dict":
        w.dict(value["v"], 0, respell=respell, respell_keys=respell_keys)
    else:
        w.pv(value, 0, respell)
    w.sep(0)
    w.end("plist")
    return w.finish(style["bom_plist"])


def _color_str(c, w):
    # 3 decimals are what the comparison grants; use repr when it is short, else 3 decimals
    parts = []
    for x in c:
        f = val(x)
        r = repr(f)
        if len(r) > 6:
            r = ("%.3f" % f).rstrip("0").rstrip(".")
            if float(r) != f:
                r = repr(f)
        if r.endswith(".0"):
            r = w.rng.choice([r, r[:-2]])
        parts.append(r)
    return ",".join(parts)


def _transform_attrs(w, t):
    out = []
    for name, x, dflt in zip(_TRANSFORM_ATTRS, t, (1.0, 0.0, 0.0, 1.0, 0.0, 0.0)):
        f = val(x)
        if f != dflt or math.copysign(1, f) != math.copysign(1, dflt) or w.p(w.s["explicit_defaults"]):
            out.append((name, w.spell_float(f)))
    return out


def _merge_object_libs(existing, olibs, what):
    """object libs of the objects + entries already present in the lib (identifiers without an object,
    as read_ufo leaves them)"""
    if existing is None:
        return {"t": "dict", "v": olibs}
    if existing["t"] != "dict" or set(existing["v"]) & set(olibs):
        raise UfoError("%s: %s in the lib clashes with the object libs" % (what, OBJECT_LIBS))
    d = dict(existing["v"])
    d.update(olibs)
    return {"t": "dict", "v": d}


def _glif_doc(rng, style, g):
    w = _W(rng, style, "glif")
    w.prolog()
    if style["glif_doctype"]:
        w.out.append("<!DOCTYPE glyph>")
        w.sep(0)
    root_attrs = [("name", g["name"]), ("format", "2")]
    if w.p(w.s["explicit_defaults"]) and False:
        root_attrs.append(("formatMinor", "0"))
    w.tag("glyph", root_attrs)
    inner = style["comments_in_glyph"]

    def sep(level):
        w.sep(level, comments_ok=inner)

    # object libs go to the glyph lib
    lib = dict(g.get("lib") or {})
    olibs = {}
    objs = list(g["anchors"]) + list(g["guidelines"]) + list(g["components"])
    for c in g["contours"]:
        objs.append(c)
        objs += c["points"]
    for o in objs:
        if o.get("lib") is not None:
            if o.get("identifier") is None:
                raise UfoError("object lib without identifier in glyph %r" % g["name"])
            olibs[o["identifier"]] = {"t": "dict", "v": o["lib"]}
    if olibs:
        lib[OBJECT_LIBS] = _merge_object_libs(lib.get(OBJECT_LIBS), olibs, "glyph %r" % g["name"])

    def opt(attrs, name, v):
        if v is not None:
            attrs.append((name, v))

    def w_advance():
        wd, ht = val(g["advance"][0]), val(g["advance"][1])
        attrs = []
        if wd != 0 or w.p(w.s["explicit_defaults"]):
            attrs.append(("width", w.spell_float(wd)))
        if ht != 0 or w.p(w.s["explicit_defaults"]):
            attrs.append(("height", w.spell_float(ht)))
        if attrs or w.p(w.s["explicit_defaults"]):
            sep(1)
            w.tag("advance", attrs, empty=True)

    def w_unicodes():
        for c in g["unicodes"]:
            hc = style["hex_case"]
            if hc == "random":
                hc = rng.choice(["upper", "lower"])
            h = ("%04X" if hc == "upper" else "%04x") % c
            if w.p(w.s["num_spell"]):
                h = rng.choice([h.lstrip("0") or "0", "00" + h, h])
            sep(1)
            w.tag("unicode", [("hex", h)], empty=True)

    def w_image():
        im = g.get("image")
        if im is None:
            return
        attrs = [("fileName", im["fileName"])] + _transform_attrs(w, im["transform"])
        if im.get("color") is not None:
            attrs.append(("color", _color_str(im["color"], w)))
        sep(1)
        w.tag("image", attrs, empty=True)

    def w_guidelines():
        for gl in g["guidelines"]:
            attrs = []
            for k in ("x", "y", "angle"):
                if gl.get(k) is not None:
                    attrs.append((k, w.spell_float(val(gl[k]))))
            opt(attrs, "name", gl.get("name"))
            if gl.get("color") is not None:
                attrs.append(("color", _color_str(gl["color"], w)))
            opt(attrs, "identifier", gl.get("identifier"))
            sep(1)
            w.tag("guideline", attrs, empty=True)

    def w_anchors():
        for a in g["anchors"]:
            attrs = [("x", w.spell_float(val(a["x"]))), ("y", w.spell_float(val(a["y"])))]
            opt(attrs, "name", a.get("name"))
            if a.get("color") is not None:
                attrs.append(("color", _color_str(a["color"], w)))
            opt(attrs, "identifier", a.get("identifier"))
            sep(1)
            w.tag("anchor", attrs, empty=True)

    def w_outline():
        if not g["contours"] and not g["components"]:
            if w.p(w.s["explicit_defaults"]):
                sep(1)
                if w.p(w.s["self_close"]):
                    w.out.append("<outline" + w.blank() + "/>")
                else:
                    w.tag("outline")
                    w.end("outline")
            return
        sep(1)
        w.tag("outline")
        items = [("contour", c) for c in g["contours"]] + [("component", c) for c in g["components"]]
        if style["glif_element_order"] == "random":
            # contours and components may interleave; the order within each kind is data
            ci = [x for x in items if x[0] == "contour"]
            ki = [x for x in items if x[0] == "component"]
            items = []
            while ci or ki:
                if ci and (not ki or rng.random() < 0.5):
                    items.append(ci.pop(0))
                else:
                    items.append(ki.pop(0))
        for kind, c in items:
            sep(2)
            if kind == "component":
                attrs = [("base", c["base"])] + _transform_attrs(w, c["transform"])
                opt(attrs, "identifier", c.get("identifier"))
                w.tag("component", attrs, empty=True)
            else:
                attrs = []
                opt(attrs, "identifier", c.get("identifier"))
                w.tag("contour", attrs)
                for p in c["points"]:
                    pa = [("x", w.spell_float(val(p["x"]))), ("y", w.spell_float(val(p["y"])))]
                    if p["type"] != "offcurve" or w.p(w.s["explicit_defaults"]):
                        pa.append(("type", p["type"]))
                    if p.get("smooth"):
                        pa.append(("smooth", "yes"))
                    elif w.p(w.s["explicit_defaults"]):
                        pa.append(("smooth", "no"))
                    opt(pa, "name", p.get("name"))
                    opt(pa, "identifier", p.get("identifier"))
                    sep(3)
                    w.tag("point", pa, empty=True)
                sep(2)
                w.end("contour")
        sep(1)
        w.end("outline")

    def w_lib():
        if not lib:
            if style["empty_lib_element"]:
                sep(1)
                w.out.append(rng.choice(["<lib/>", "<lib></lib>"]))
            elif w.p(w.s["explicit_defaults"]):
                sep(1)
                w.tag("lib")
                w.sep(2)
                w.dict({}, 2)
                w.sep(1)
                w.end("lib")
            return
        sep(1)
        w.tag("lib")
        w.sep(2)
        w.dict(lib, 2)
        w.sep(1)
        w.end("lib")

    def w_note():
        n = g.get("note")
        if n is None:
            return
        sep(1)
        if n == "" and style["empty_note_element"]:
            w.out.append("<note/>")
            return
        w.tag("note")
        if style["cdata_note"] and rng.random() < 0.7:
            w.out.append(w.cdata(n))
        else:
            w.out.append(w.esc_text(n))
        w.end("note")

    parts = [w_advance, w_unicodes, w_note, w_image, w_guidelines, w_anchors, w_outline, w_lib]
    if style["glif_element_order"] == "random":
        rng.shuffle(parts)
    for f in parts:
        f()
    sep(0)
    w.end("glyph")
    return w.finish(style["bom_glif"])


_ILLEGAL = set('"*+/:<>?[\\]|') | {chr(c) for c in range(0x20)} | {"\x7f"}
_RESERVED = {"con", "prn", "aux", "clock$", "nul", "a:-z:"} | {"com%d" % i for i in range(1, 10)} | {"lpt%d" % i for i in range(1, 10)}


def _file_name(name, prefix, suffix, taken):
    """a portable, case-insensitively unique file name derived from `name` (UFO 3 conventions, simplified)"""
    out = []
    for i, c in enumerate(name):
        if i == 0 and c == "." and not prefix:
            out.append("_")
        elif c in _ILLEGAL:
            out.append("_")
        elif c != c.lower():
            out.append(c + "_")
        else:
            out.append(c)
    s = "".join(out)
    parts = s.split(".")
    parts = ["_" + p if p.lower() in _RESERVED else p for p in parts]
    s = ".".join(parts)
    while len((prefix + s + suffix).encode("utf-8")) > 200:
        s = s[:-1]
    if not suffix and (prefix + s).endswith((" ", ".")):
        # no trailing blank or period in a directory name
        s = (prefix + s).rstrip(" .")[len(prefix):] + "_"
    full = prefix + s + suffix
    n = 0
    while full.lower() in taken:
        n += 1
        if n > 100000:
            raise UfoError("cannot find a file name for %r" % name)
        full = prefix + s + "%02d" % n + suffix
    taken.add(full.lower())
    return full


def write_ufo(font, path, rng, style=None):
    """Render the abstract font as a UFO 3 directory at `path` (which must not exist).
    `rng` is a random.Random; `style` a dictionary as returned by random_style (missing keys take
    STYLE_DEFAULTS).  Raises UfoError for fonts that cannot be expressed."""
    s = dict(STYLE_DEFAULTS)
    s.update(style or {})
    style = s
    os.makedirs(path)

    def P(*a):
        return os.path.join(path, *a)

    def put(rel, data):
        full = P(*rel.split("/"))
        os.makedirs(os.path.dirname(full), exist_ok=True)
        with open(full, "wb") as f:
            f.write(data)

    def maybe_empty():
        return rng.random() < style["empty_files"]

    def S(x):
        return {"t": "str", "v": x}

    meta = font.get("meta") or {}
    md = {"formatVersion": {"t": "int", "v": meta.get("formatVersion", 3)}}
    if meta.get("creator") is not None:
        md["creator"] = S(meta["creator"])
    minor = meta.get("formatVersionMinor", 0)
    if minor != 0 or rng.random() < style["explicit_defaults"]:
        md["formatVersionMinor"] = {"t": "int", "v": minor}
    put("metainfo.plist", _plist_doc(rng, style, {"t": "dict", "v": md}))

    lib = dict(font.get("lib") or {})
    info = dict(font.get("info") or {})
    gls = font.get("guidelines")
    if gls is not None:
        arr = []
        olibs = {}
        for g in gls:
            d = {}
            for k in ("x", "y", "angle"):
                if g.get(k) is not None:
                    d[k] = {"t": "real", "v": g[k]}
            if g.get("name") is not None:
                d["name"] = S(g["name"])
            if g.get("color") is not None:
                d["color"] = S(_color_str(g["color"], _W(rng, style, "plist")))
            if g.get("identifier") is not None:
                d["identifier"] = S(g["identifier"])
            if g.get("lib") is not None:
                if g.get("identifier") is None:
                    raise UfoError("font-info guideline lib without identifier")
                olibs[g["identifier"]] = {"t": "dict", "v": g["lib"]}
            arr.append({"t": "dict", "v": d})
        info["guidelines"] = {"t": "array", "v": arr}
        if olibs:
            lib[OBJECT_LIBS] = _merge_object_libs(lib.get(OBJECT_LIBS), olibs, "font lib")
    if info or maybe_empty():
        respell = {k for k, t in FONTINFO_KEYS.items() if t in ("num", "nnnum", "numlist", "float", "list")}
        # "list": only guidelines carry integer-or-float numbers; gasp / name records are integers
        respell -= {"openTypeGaspRangeRecords", "openTypeNameRecords", "woffMetadataExtensions"}
        put("fontinfo.plist", _plist_doc(rng, style, {"t": "dict", "v": info}, respell_keys=respell))
    if lib or maybe_empty():
        put("lib.plist", _plist_doc(rng, style, {"t": "dict", "v": lib}))
    groups = font.get("groups") or {}
    if groups or maybe_empty():
        put("groups.plist", _plist_doc(rng, style, {"t": "dict", "v": {
            k: {"t": "array", "v": [S(x) for x in v]} for k, v in groups.items()}}))
    kerning = font.get("kerning") or {}
    if kerning or maybe_empty():
        kd = {}
        for k, inner in kerning.items():
            kd[k] = {"t": "dict", "v": {}}
            for k2, x in inner.items():
                f = val(x)
                if f == int(f) and abs(f) < 2 ** 31 and not (f == 0 and math.copysign(1, f) < 0) and rng.random() < 0.5:
                    kd[k]["v"][k2] = {"t": "int", "v": int(f)}
                else:
                    kd[k]["v"][k2] = {"t": "real", "v": num(f)}
        put("kerning.plist", _plist_doc(rng, style, {"t": "dict", "v": kd}, respell=True))
    feats = font.get("features")
    if feats:
        put("features.fea", feats.encode("utf-8"))
    elif maybe_empty():
        put("features.fea", b"")

    layers = font.get("layers") or []
    if not layers:
        raise UfoError("a UFO needs a default layer")
    taken_dirs = {"glyphs"}
    entries = []
    for i, layer in enumerate(layers):
        if i == 0:
            d = "glyphs"
            if layer.get("dir") not in (None, "glyphs"):
                raise UfoError("the first layer must be the default layer (directory 'glyphs')")
        elif layer.get("dir") is not None:
            d = layer["dir"]
            taken_dirs.add(d.lower())
        elif style["file_names"] == "opaque":
            d = _file_name("L%d" % i, "glyphs.", "", taken_dirs)
        else:
            d = _file_name(layer["name"], "glyphs.", "", taken_dirs)
        entries.append((layer["name"], d))
        taken = set()
        contents = {}
        for j, g in enumerate(layer["glyphs"]):
            if g.get("file") is not None:
                fn = g["file"]
                taken.add(fn.lower())
            elif style["file_names"] == "opaque":
                fn = _file_name("g%04d" % j, "", ".glif", taken)
            else:
                fn = _file_name(g["name"], "", ".glif", taken)
            contents[g["name"]] = S(fn)
            put(d + "/" + fn, _glif_doc(rng, style, g))
        put(d + "/contents.plist", _plist_doc(rng, style, {"t": "dict", "v": contents}))
        li = {}
        if layer.get("color") is not None:
            li["color"] = S(_color_str(layer["color"], _W(rng, style, "plist")))
        if layer.get("lib"):
            li["lib"] = {"t": "dict", "v": layer["lib"]}
        elif li and maybe_empty() or (not li and maybe_empty() and rng.random() < 0.5):
            li["lib"] = {"t": "dict", "v": {}}
        if li or maybe_empty():
            put(d + "/layerinfo.plist", _plist_doc(rng, style, {"t": "dict", "v": li}))
    order = style["layer_order"]
    rest = entries[1:]
    if order == "first" or not rest:
        pos = 0
    elif order == "last":
        pos = len(rest)
    else:
        pos = rng.randrange(len(rest) + 1)
    entries = rest[:pos] + [entries[0]] + rest[pos:]
    put("layercontents.plist", _plist_doc(rng, style, {"t": "array", "v": [
        {"t": "array", "v": [S(n), S(d)]} for n, d in entries]}))

    data = font.get("data") or {}
    for k, v in data.items():
        put("data/" + k, bytes.fromhex(v))
    if not data and maybe_empty():
        os.makedirs(P("data"))
    images = font.get("images") or {}
    for k, v in images.items():
        put("images/" + k, bytes.fromhex(v))
    if not images and maybe_empty():
        os.makedirs(P("images"))
