"""Maintenance tool (not used by ./check): regenerate coq/Model/Sites.v from the current /repo inventory and the
rule table below (pattern on the site key -> discharge).  Fails when a site matches no rule."""
import sys, re
sys.path.insert(0, __import__('os').path.dirname(__import__('os').path.abspath(__file__)))
import anchors_c03 as A
inv = A.inventory('/repo')
DOC99 = 'Documented "more than 99 file-name clashes (user_name_to_file_name)"'
DOCNAME = 'Documented "invalid name passed to a panicking Name constructor (Glyph::new; crate-internal Name::new_raw)"'
DOCINDENT = 'Documented "invalid indent settings (WriteOptions::indent / whitespace)"'
def TI(s): return 'TypeInvariant "%s"' % s.replace('"', '""')
def ML(s): return 'ModelLemma "%s"' % s
def MD(s): return 'Modelled "%s"' % s
def RE(f, l): return 'Reachable "%s" "%s"' % (f, l)
REFCELL = TI("every RefCell borrow here is a temporary that is dropped before the next borrow is taken (for `*cell.borrow_mut() = load_item(..)` the right-hand side, which only reads the key set, is evaluated first); the type is !Sync, so no other thread borrows")
ADD = TI("addition of lengths / counters of live in-memory objects: bounded by the address-space size, cannot overflow usize")
CONSTCOND = TI("constant that only occurs in a condition; no site depends on its value")
rules = [
 (r"src/datastore\.rs\|.*try_list_contents\|unwrap", ML("C03_walk_no_panic")),
 (r"src/datastore\.rs\|.*try_list_contents\|guards", MD("walk")),
 (r"src/datastore\.rs\|impl Store<T>::get\|method", REFCELL),
 (r"src/datastore\.rs\|impl Store<T>::get\|macro", ML("C03_store_get")),
 (r"src/datastore\.rs\|impl Store<T>::get\|guards", MD("get_cell")),
 (r"src/datastore\.rs\|impl Store<T>::iter\|unwrap", TI("k is produced by self.items.keys(), so the look-up in get(k) finds the cell (HashMap look-up of a present key); get returns None only for an absent key")),
 (r"src/font\.rs\|<top>\|const", CONSTCOND),
 (r"src/font\.rs\|impl Font::save_impl\|expect", ML("C03_save_stores")),
 (r"src/font\.rs\|impl Font::save_impl\|unwrap\|destination\.parent", ML("C03_data_parent")),
 (r"src/font\.rs\|impl Font::save_impl\|guards", MD("save_stores")),
 (r"src/fontinfo\.rs\|<top>\|const\|DATE_LENGTH", MD("DATE_LENGTH")),
 (r"src/fontinfo\.rs\|impl Deserialize.*\|index", ML("C03_fixed_len_index")),
 (r"src/fontinfo\.rs\|impl Deserialize.*\|guards", MD("deser_fixed")),
 (r"src/fontinfo\.rs\|impl FontInfo::dump_object_libs\|unwrap", ML("C03_object_libs")),
 (r"src/fontinfo\.rs\|impl FontInfo::dump_object_libs\|guards", MD("odump")),
 (r"src/fontinfo\.rs\|impl FontInfo::from_file\|unwrap", ML("C03_upconversion_abs_unwrap")),
 (r"src/fontinfo\.rs\|impl NonNegativeIntegerOrFloat::new\|guards", MD("Upconv.map_abs_num")),
 (r"src/fontinfo\.rs\|impl FontInfo::validate\|index", ML("C03_date_slices")),
 (r"src/fontinfo\.rs\|impl FontInfo::validate\|arith\|v\.len\(\) % 2", TI("remainder by the non-zero literal 2")),
 (r"src/fontinfo\.rs\|impl FontInfo::validate\|unwrap\|vs_iter", ML("C03_gasp_first")),
 (r"src/fontinfo\.rs\|impl FontInfo::validate\|guards", MD("date_slices")),
 (r"src/glyph/builder\.rs\|.*\|macro", ML("C03_builder_unreachable")),
 (r"src/glyph/builder\.rs\|.*\|guards", MD("build")),
 (r"src/glyph/mod\.rs\|impl Contour::to_kurbo\|index", ML("C03_kurbo_offcurve")),
 (r"src/glyph/mod\.rs\|impl Contour::to_kurbo\|arith\|pts\.len\(\) - 1", ML("C03_kurbo_offcurve")),
 (r"src/glyph/mod\.rs\|impl Contour::to_kurbo\|arith\|\(i \+ 1\) % pts\.len\(\)", ML("C03_kurbo_offcurve")),
 (r"src/glyph/mod\.rs\|impl Contour::to_kurbo\|arith\|i \+ 1", ADD),
 (r"src/glyph/mod\.rs\|impl Contour::to_kurbo\|arith\|self\.points\.len\(\) - 1", ML("C03_kurbo_rotate")),
 (r"src/glyph/mod\.rs\|impl Contour::to_kurbo\|arith\|1 - idx", ML("C03_kurbo_rotate")),
 (r"src/glyph/mod\.rs\|impl Contour::to_kurbo\|arith\|self\.points\.len\(\) \+ 1", ADD),
 (r"src/glyph/mod\.rs\|impl Contour::to_kurbo\|guards", MD("kurbo_offcurve_sites")),
 (r"src/glyph/mod\.rs\|impl From<kurbo::Affine>.*\|index", TI("as_coeffs() returns the fixed-size array [f64; 6]; a constant index below 6 is checked by the compiler")),
 (r"src/glyph/mod\.rs\|impl Glyph::dump_object_libs\|unwrap", ML("C03_object_libs")),
 (r"src/glyph/mod\.rs\|impl Glyph::dump_object_libs\|guards", MD("odump")),
 (r"src/glyph/mod\.rs\|impl Glyph::new\|call", DOCNAME),
 (r"src/glyph/parse\.rs\|<top>\|const", CONSTCOND),
 (r"src/glyph/parse\.rs\|.*parse_advance\|macro", ML("C03_advance_inner")),
 (r"src/glyph/parse\.rs\|.*parse_advance\|guards", MD("advance_inner")),
 (r"src/glyph/parse\.rs\|.*parse_lib\|index", ML("C03_parse_lib_slice")),
 (r"src/glyph/parse\.rs\|.*parse_lib\|guards", MD("parse_lib_slice")),
 (r"src/glyph/parse\.rs\|.*parse_outline\|(index|method)", ML("C03_single_point")),
 (r"src/glyph/parse\.rs\|.*parse_outline\|guards", MD("single_point_sites")),
 (r"src/glyph/serialize\.rs\|fn write_lib_section\|arith", TI("pos is the offset of a match of header in lib_xml, so pos + header.len() <= lib_xml.len()")),
 (r"src/glyph/serialize\.rs\|fn write_lib_section\|expect", TI("L1: the plist crate's XML writer emits valid UTF-8; encode of libs with arbitrary strings is part of the search")),
 (r"src/glyph/serialize\.rs\|fn write_lib_section\|index", TI("L1: layout of the plist crate's XML output (declaration, DOCTYPE, the <plist version=1.0> line, the root <dict>, the closing </plist> line): markup characters inside keys and strings are escaped, so the first match of the header ends before the first match of the footer; both offsets come from str::find and are char boundaries. Lib strings containing the header / footer text are part of the search")),
 (r"src/glyph/serialize\.rs\|fn write_lib_section\|guards", TI("iteration over the lines of the slice; guards no site")),
 (r"src/glyph/serialize\.rs\|impl Image::to_event\|expect", ML("C03_image_to_event_ok")),
 (r"src/glyph/mod\.rs\|impl Image::new\|guards", MD("image_new")),
 (r"src/glyph/serialize\.rs\|impl Image::to_event\|guards", TI("optional colour attribute; guards no site")),
 (r"src/identifier\.rs\|impl Identifier::from_uuidv4\|unwrap", ML("C03_from_uuid")),
 (r"src/layer\.rs\|<top>\|const\|DEFAULT_LAYER_NAME", MD("DEFAULT_LAYER_NAME")),
 (r"src/layer\.rs\|impl Default for Layer::default\|call", ML("C03_default_layer_name_valid")),
 (r"src/layer\.rs\|impl LayerContents::load\|call", ML("C03_default_layer_name_valid")),
 (r"src/layer\.rs\|impl Layer::insert_glyph\|call", DOC99),
 (r"src/layer\.rs\|impl Layer::insert_glyph\|guards", MD("insert_glyph")),
 (r"src/layer\.rs\|impl Layer::load_impl\|unwrap", ML("C03_load_layer_dir_no_panic")),
 (r"src/layer\.rs\|impl Layer::load_impl\|guards", TI("existence tests and the plain-file-name / duplicate tests of contents.plist values: they return errors and guard no site (the file_name().unwrap() is guarded by plain_name in LayerContents::load)")),
 (r"src/layer\.rs\|fn plain_name\|guards", MD("plain_name")),
 (r"src/layer\.rs\|<top>\|const\|DEFAULT_GLYPHS_DIRNAME", MD("DEFAULT_DIR")),
 (r"src/layer\.rs\|impl Layer::rename_glyph\|unwrap", ML("C03_rename_glyph_no_panic")),
 (r"src/layer\.rs\|impl Layer::rename_glyph\|guards", MD("rename_glyph")),
 (r"src/layer\.rs\|impl Layer::save_with_options\|expect", RE("entry-remove", "C03_layer_save_no_panic")),
 (r"src/layer\.rs\|impl LayerContents::default_layer(_mut)?\|index", RE("layer-slot-assign", "C03_layer_ops_no_panic")),
 (r"src/layer\.rs\|impl LayerContents::get_or_create_layer\|index", ML("C03_layer_ops_no_panic")),
 (r"src/layer\.rs\|impl LayerContents::load\|method", ML("position_lt")),
 (r"src/layer\.rs\|impl LayerContents::load\|guards", MD("load_layer_dir")),
 (r"src/layer\.rs\|impl LayerContents::new_layer\|call", DOC99),
 (r"src/layer\.rs\|impl LayerContents::new_layer\|unwrap", ML("C03_layer_ops_no_panic")),
 (r"src/layer\.rs\|impl LayerContents::new_layer\|guards", MD("new_layer")),
 (r"src/layer\.rs\|impl LayerContents::remove\|(arith|method)", ML("position_lt")),
 (r"src/layer\.rs\|impl LayerContents::remove\|guards", MD("lc_remove")),
 (r"src/layer\.rs\|impl LayerContents::rename_layer\|call", DOC99),
 (r"src/layer\.rs\|impl LayerContents::rename_layer\|(index|unwrap)", ML("C03_rename_layer_no_panic")),
 (r"src/layer\.rs\|impl LayerContents::rename_layer\|guards", MD("rename_layer")),
 (r"src/name\.rs\|impl Name::new_raw\|macro", DOCNAME),
 (r"src/names\.rs\|impl ParNameList::.*\|unwrap", TI("RwLock::read/write fail only when the lock is poisoned, i.e. after another thread already panicked while holding it: no first panic originates here")),
 (r"src/names\.rs\|impl SeqNameList::.*\|method", REFCELL),
 (r"src/serde_xml_plist\.rs\|.*DictionaryInnerHelper.*\|arith", TI("size hint: len <= isize::MAX / size_of::<(String, Value)>(), so len * 2 cannot overflow")),
 (r"src/serde_xml_plist\.rs\|.*DictionaryInnerHelper.*\|guards", TI("iteration over the dictionary; guards no site")),
 (r"src/serde_xml_plist\.rs\|.*ValueInnerHelper.*\|macro", ML("C03_serialize_within")),
 (r"src/shared_types\.rs\|<top>\|const", CONSTCOND),
 (r"src/upconversion\.rs\|fn make_unique_group_name\|(arith|unwrap)", ML("C03_make_unique")),
 (r"src/upconversion\.rs\|fn make_unique_group_name\|guards", MD("unique_loop")),
 (r"src/upconversion\.rs\|fn upconvert_kerning\|unwrap\|Name::new", ML("C03_upconv_names")),
 (r"src/upconversion\.rs\|fn upconvert_kerning\|unwrap\|groups_new\.get", ML("C03_upconv_lookup")),
 (r"src/upconversion\.rs\|fn upconvert_kerning\|guards", MD("upconv_side")),
 (r"src/util\.rs\|<top>\|const\|MAX_LEN", MD("MAX_LEN")),
 (r"src/util\.rs\|<top>\|const\|NUMBER_LEN", MD("NUMBER_LEN")),
 (r"src/util\.rs\|<top>\|const\|SPECIAL_ILLEGAL", MD("illegal")),
 (r"src/util\.rs\|<top>\|const\|SPECIAL_RESERVED", MD("reserved")),
 (r"src/util\.rs\|fn default_file_name_for_.*\|call", DOC99),
 (r"src/util\.rs\|fn user_name_to_file_name\|arith\|(prefix\.len\(\) \+|name\.len\(\) \+|prefix_len \+=)", ADD),
 (r"src/util\.rs\|fn user_name_to_file_name\|arith\|boundary -= 1", ML("C03_backoff_terminates")),
 (r"src/util\.rs\|fn user_name_to_file_name\|arith", ML("C03_u2f_only_documented_panic")),
 (r"src/util\.rs\|fn user_name_to_file_name\|method\|result\.insert\(0", TI("byte offset 0 is always a char boundary")),
 (r"src/util\.rs\|fn user_name_to_file_name\|method", ML("C03_u2f_only_documented_panic")),
 (r"src/util\.rs\|fn user_name_to_file_name\|unwrap", TI("fmt::Write for String never returns an error")),
 (r"src/util\.rs\|fn user_name_to_file_name\|macro", DOC99),
 (r"src/util\.rs\|fn user_name_to_file_name\|guards", MD("u2f")),
 (r"src/write\.rs\|impl WriteOptions::", DOCINDENT),
]
out = []
bad = []
for k, ln, kind in inv:
    for pat, d in rules:
        if re.match(pat, k):
            out.append((k, d))
            break
    else:
        bad.append(k)
if bad:
    print("UNMATCHED", *bad, sep="\n  ")
    sys.exit(1)
body = ";\n".join("  (%s,\n     %s)" % (A.coq_string(k), d) for k, d in out)
lem = []
mod = []
rea = []
for _, d in out:
    m = re.match(r'ModelLemma "(.*)"', d)
    if m and m.group(1) not in lem: lem.append(m.group(1))
    m = re.match(r'Reachable "(.*)" "(.*)"', d)
    if m:
        if m.group(2) not in lem: lem.append(m.group(2))
        if m.group(1) not in rea: rea.append(m.group(1))
    m = re.match(r'Modelled "(.*)"', d)
    if m and m.group(1) not in mod: mod.append(m.group(1))
head = '''(** C03 anchor: the committed catalogue of every panic site of norad (see lib/anchors_c03.py for
    what counts as a site and how a key is formed: file | enclosing item | kind | normalised text,
    never a line number).  The inventory is regenerated from the source on every run;
    Anchors/AnchorsOK_C03.v proves that it equals [catalogue_keys] (as sorted lists) and [Check]s
    every lemma and model definition named here.  A new unwrap / expect / index / slice / integer
    subtraction / panicking call, or a changed condition in a function that contains one, breaks
    the anchor until it is catalogued with a discharge. *)
From Coq Require Import String List.
Import ListNotations.
Open Scope string_scope.

Inductive discharge :=
| Documented (which : string)                  (* one of the panics the documentation announces *)
| TypeInvariant (why : string)                 (* written argument: holds by typing / std contract / L1 *)
| ModelLemma (lemma : string)                  (* unreachable: kernel-checked theorem of Props/C03.v (or a named lemma of Proofs/TotalityP.v) over the site model in Model/Totality.v *)
| Reachable (finding : string) (lemma : string) (* reachable through the public API: known finding <finding>; <lemma> = the theorem under the exact hypothesis that excludes the class (its refutation C03_refuted_* is a theorem too) *)
| Modelled (definition : string).              (* guards / constants: transliterated in this definition of Model/Totality.v *)

Definition catalogue : list (string * discharge) := [
'''
tail = ''' ].

Definition catalogue_keys : list string := map fst catalogue.

Fixpoint add_new (s : string) (l : list string) : list string :=
  match l with [] => [s] | x :: r => if String.eqb x s then l else x :: add_new s r end.
Definition lemmas_used : list string :=
  fold_left (fun acc e => match snd e with
                          | ModelLemma l => add_new l acc
                          | Reachable _ l => add_new l acc
                          | _ => acc end) catalogue [].
Definition definitions_used : list string :=
  fold_left (fun acc e => match snd e with Modelled d => add_new d acc | _ => acc end) catalogue [].
Definition findings_used : list string :=
  fold_left (fun acc e => match snd e with Reachable f _ => add_new f acc | _ => acc end) catalogue [].
Definition count (p : discharge -> bool) : nat := length (filter (fun e => p (snd e)) catalogue).
'''
open(__import__('os').path.join(__import__('os').path.dirname(__import__('os').path.dirname(__import__('os').path.abspath(__file__))), 'coq', 'Model', 'Sites.v'), 'w').write(head + body + tail)
print(len(out), "sites")
print("lemmas", lem)
print("defs", mod)
print("findings", rea)
