#!/usr/bin/env python3
"""Self-test of the shared font I/O groundwork (lib/ufoio.py, harness/src/fontio*.rs).

    python3 lib/fontio_selftest.py [--seed N] [--count K] [--gen class,...|all] [--style class,...|all]
                                   [--keep DIR] [--no-testdata] [--font FILE.json] [-v]

 A  norad direction:  gen_font -> build_font -> Font::save -> n.ufo ; compared:
      A1 dump(build(font))           = font        (fontio.rs build/dump are inverse)
      A2 read_ufo(n.ufo)             = font        (independent reader finds the values norad saved)
      A3 dump(Font::load(n.ufo))     = font        (norad's own round trip)
      A4 read_ufo(n.ufo)             = dump(load)  (both readers agree, with dir/file names)
 B  writer direction: write_ufo(font, random style) -> w.ufo ; compared:
      B1 read_ufo(w.ufo)             = font        (ufoio.py write/read are inverse)
      B2 dump(Font::load(w.ufo))     = font        (norad reads what the independent writer wrote)
 C  every UFO 3 under /repo/testdata: read_ufo = dump(Font::load);
    C2 dump(Font::load(write_ufo(read_ufo(fixture)))) = read_ufo(fixture)

Generator classes (--gen): glyph_lib_linebreaks note_blanks f2_numbers f13_meta cr_in_note empty_contours
subnormal_advance attr_ws cr_in_plist.  Writer classes (--style): see ufoio.KNOWN_CLASSES.
Minimal witnesses of the differences these classes produce: corpus/fontio/*.json (replay with --font).
FONTIO_HARNESS=<binary> selects a harness built against another checkout of norad.

Exit status 0 iff there is no difference.  With --gen / --style the known-finding classes are switched
on and the differences are listed per class instead (exit status still reflects them).
"""
import argparse
import collections
import json
import os
import random
import shutil
import subprocess
import sys
import tempfile

sys.path.insert(0, os.path.dirname(os.path.abspath(__file__)))
import ufoio  # noqa: E402

ROOT = os.path.dirname(os.path.dirname(os.path.abspath(__file__)))
HARNESS = os.environ.get("FONTIO_HARNESS") or os.path.join(ROOT, "harness", "target", "release", "norad-verif-harness")
REPO = os.environ.get("VERIF_REPO", "/repo")


def sh(cmd, timeout=3000):
    p = subprocess.run(cmd, stdout=subprocess.PIPE, stderr=subprocess.STDOUT, timeout=timeout)
    return p.returncode, p.stdout.decode("utf-8", "replace")


def load(p):
    with open(p, encoding="utf-8") as f:
        return json.load(f)


def short(v, n=100):
    s = json.dumps(v, ensure_ascii=False, sort_keys=True) if not isinstance(v, str) else repr(v)
    return s if len(s) <= n else s[:n] + "..."


def classify(check, path, x, y):
    """Differences that are documented behaviour rather than disagreements (counted, not failed)."""
    # norad drops entries of public.objectLibs whose identifier matches no object (DESIGN C04 note:
    # an observation, not a violation); the independent reader keeps them in the lib.
    if check in ("C", "C2", "A4", "B2") and path.endswith("/public.objectLibs") and "<absent>" in (x, y):
        return "orphan-object-libs-dropped-by-norad"
    return None


class Report(object):
    def __init__(self, verbose):
        self.verbose = verbose
        self.counts = collections.Counter()
        self.bad = collections.defaultdict(list)   # check -> [(case, diffs or message)]
        self.observations = collections.Counter()
        self.obs_example = {}

    def ok(self, check):
        self.counts[check] += 1

    def fail(self, check, case, what):
        self.counts[check] += 1
        self.bad[check].append((case, what))

    def compare(self, check, case, a, b, **kw):
        try:
            d = ufoio.equal(a, b, **kw)
        except Exception as e:   # a malformed abstract font is a tooling bug: report it
            self.fail(check, case, "equal() raised %r" % (e,))
            return
        kept = []
        for path, x, y in d:
            c = classify(check, path, x, y)
            if c is None:
                kept.append((path, x, y))
            else:
                self.observations[c] += 1
                self.obs_example.setdefault(c, (check, case, path, x, y))
        if kept:
            self.fail(check, case, kept)
        else:
            self.ok(check)

    def summary(self):
        total_bad = 0
        for check in sorted(self.counts):
            nb = len(self.bad.get(check, []))
            total_bad += nb
            print("%-4s %6d cases  %5d with differences" % (check, self.counts[check], nb))
        for check in sorted(self.bad):
            shown = 0
            for case, what in self.bad[check]:
                if shown >= (50 if self.verbose else 8):
                    print("  ... %d more" % (len(self.bad[check]) - shown))
                    break
                shown += 1
                if isinstance(what, str):
                    print("  %s %s: %s" % (check, case, what[:400]))
                else:
                    print("  %s %s: %d differences" % (check, case, len(what)))
                    for path, x, y in what[: (20 if self.verbose else 4)]:
                        print("      %s\n         a=%s\n         b=%s" % (path, short(x), short(y)))
        for c, n in sorted(self.observations.items()):
            print("OBSERVATION %s: %d  e.g. %s" % (c, n, short(list(self.obs_example[c]), 300)))
        return total_bad


def run(args):
    rep = Report(args.verbose)
    work = args.keep or tempfile.mkdtemp(prefix="fontio-selftest-", dir="/dev/shm" if os.path.isdir("/dev/shm") else None)
    if args.keep:
        shutil.rmtree(work, ignore_errors=True)
        os.makedirs(work)
    try:
        # ---------------------------------------------------------------- A
        a_dir = os.path.join(work, "a")
        cmd = [HARNESS, "c05", "--out", a_dir, "--seed", str(args.seed), "--count", str(args.count)]
        if args.gen:
            cmd += ["--gen", args.gen]
        if args.font:
            cmd += ["--font", args.font]
            args.count = 1
        rc, out = sh(cmd)
        if rc != 0:
            print("harness c05 failed:\n" + out[-3000:])
            return 2
        b_dir = os.path.join(work, "b")
        os.makedirs(b_dir)
        style_classes = [s for s in (args.style or "").split(",") if s]
        fonts = {}
        for k in range(args.count):
            case = "case_%d" % k
            cd = os.path.join(a_dir, case)
            font = load(os.path.join(cd, "font.json"))
            fonts[case] = font
            for err in ("build_error.txt", "save_error.txt", "load_error.txt"):
                if os.path.exists(os.path.join(cd, err)):
                    rep.fail("A0", case, err + ": " + open(os.path.join(cd, err)).read())
            if os.path.exists(os.path.join(cd, "built.json")):
                # tol: font info passes through norad's integer-or-float serialiser on its way into the dump
                rep.compare("A1", case, load(os.path.join(cd, "built.json")), font, tol=1e-12, ignore_creator=False)
            loaded = None
            if os.path.exists(os.path.join(cd, "loaded.json")):
                loaded = load(os.path.join(cd, "loaded.json"))
                rep.compare("A3", case, loaded, font)
            if os.path.isdir(os.path.join(cd, "n.ufo")):
                try:
                    r = ufoio.read_ufo(os.path.join(cd, "n.ufo"))
                except (ufoio.UfoError, OSError) as e:
                    rep.fail("A2", case, "read_ufo: %s" % e)
                    r = None
                if r is not None:
                    rep.compare("A2", case, r, font)
                    if loaded is not None:
                        rep.compare("A4", case, r, loaded, tol=0.0)
            # ------------------------------------------------------------ B (writing)
            if hasattr(ufoio, "write_ufo"):
                rng = random.Random(args.seed * 1000003 + k)
                style = ufoio.random_style(rng, **{c: True for c in style_classes})
                wd = os.path.join(b_dir, case)
                os.makedirs(wd)
                with open(os.path.join(wd, "style.json"), "w") as f:
                    json.dump(style, f, indent=1, sort_keys=True)
                try:
                    ufoio.write_ufo(font, os.path.join(wd, "w.ufo"), rng, style)
                except Exception as e:
                    rep.fail("B0", case, "write_ufo raised %r" % (e,))
                    continue
                try:
                    r = ufoio.read_ufo(os.path.join(wd, "w.ufo"))
                    rep.compare("B1", case, r, font, tol=0.0, ignore_creator=False)
                except (ufoio.UfoError, OSError) as e:
                    rep.fail("B1", case, "read_ufo: %s" % e)
        if hasattr(ufoio, "write_ufo"):
            rc, out = sh([HARNESS, "c05", "--load", b_dir])
            if rc != 0:
                print("harness c05 --load failed:\n" + out[-3000:])
                return 2
            for case, font in fonts.items():
                wd = os.path.join(b_dir, case)
                if os.path.exists(os.path.join(wd, "loaded.json")):
                    rep.compare("B2", case, load(os.path.join(wd, "loaded.json")), font, ignore_creator=False)
                elif os.path.exists(os.path.join(wd, "load_error.txt")):
                    rep.fail("B2", case, "Font::load: " + open(os.path.join(wd, "load_error.txt")).read())
        # ---------------------------------------------------------------- C
        if not args.no_testdata:
            ufos = []
            for root, ds, fs in os.walk(os.path.join(REPO, "testdata")):
                for d in list(ds):
                    if d.endswith(".ufo"):
                        ufos.append(os.path.join(root, d))
                        ds.remove(d)
            for u in sorted(ufos):
                rel = os.path.relpath(u, REPO)
                try:
                    md = ufoio.read_plist_file(os.path.join(u, "metainfo.plist"), "metainfo.plist")
                    fv = md["v"].get("formatVersion", {}).get("v")
                except Exception as e:
                    fv = None
                if fv != 3:
                    rep.counts["C-skipped-not-ufo3"] += 1
                    continue
                dump = os.path.join(work, "dump.json")
                rc, out = sh([HARNESS, "c05", "--dump", u, "--to", dump])
                n = load(dump) if rc == 0 else {"__load_error__": out}
                try:
                    r = ufoio.read_ufo(u)
                except (ufoio.UfoError, OSError) as e:
                    if "__load_error__" in n:
                        rep.counts["C-both-reject"] += 1
                    else:
                        rep.fail("C", rel, "read_ufo rejects, norad loads: %s" % e)
                    continue
                if "__load_error__" in n:
                    rep.fail("C", rel, "norad rejects, read_ufo reads: %s" % n["__load_error__"][:300])
                    continue
                rep.compare("C", rel, r, n, tol=0.0, ignore_creator=False)
                # C2: the fixture re-rendered by the independent writer loads to the same values
                if hasattr(ufoio, "write_ufo"):
                    rng = random.Random(args.seed)
                    w = os.path.join(work, "c2.ufo")
                    shutil.rmtree(w, ignore_errors=True)
                    try:
                        ufoio.write_ufo(r, w, rng, ufoio.random_style(rng, **{c: True for c in style_classes}))
                    except Exception as e:
                        rep.fail("C2", rel, "write_ufo raised %r" % (e,))
                        continue
                    rc, out = sh([HARNESS, "c05", "--dump", w, "--to", dump])
                    n2 = load(dump) if rc == 0 else {"__load_error__": out}
                    if "__load_error__" in n2:
                        rep.fail("C2", rel, "norad rejects the re-rendered fixture: %s" % n2["__load_error__"][:300])
                    else:
                        rep.compare("C2", rel, n2, r, tol=0.0, ignore_creator=False)
        bad = rep.summary()
        print("RESULT: %s (%d cases with differences)" % ("clean" if bad == 0 else "DIFFERENCES", bad))
        return 0 if bad == 0 else 1
    finally:
        if not args.keep:
            shutil.rmtree(work, ignore_errors=True)


def main():
    ap = argparse.ArgumentParser()
    ap.add_argument("--seed", type=int, default=1)
    ap.add_argument("--count", type=int, default=200)
    ap.add_argument("--gen", default="")
    ap.add_argument("--style", default="")
    ap.add_argument("--keep", default="")
    ap.add_argument("--font", default="", help="run A and B for the single abstract font in this JSON file")
    ap.add_argument("--no-testdata", action="store_true")
    ap.add_argument("-v", "--verbose", action="store_true")
    sys.exit(run(ap.parse_args()))


if __name__ == "__main__":
    main()
