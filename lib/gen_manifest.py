#!/usr/bin/python3
"""Regenerate MANIFEST.json from lib/props/*.py (META) and properties.jsonl."""
import importlib, json, os, sys
V = os.path.dirname(os.path.dirname(os.path.abspath(__file__)))
sys.path.insert(0, os.path.join(V, "lib"))
props = [json.loads(l)["id"] for l in open(os.path.join(V, "properties.jsonl")) if l.strip()]
NA = json.load(open(os.path.join(V, "lib", "not_applicable.json")))
checks, na = [], []
for p in props:
    f = os.path.join(V, "lib", "props", p.lower() + ".py")
    if not os.path.exists(f) or p in NA:
        na.append({"property_id": p, "reason": NA.get(p, "no check is registered for this property yet (model and theorems not written); nothing is claimed")})
        continue
    m = importlib.import_module("props." + p.lower()).META
    checks.append({
        "property_id": p,
        "quick_cmd": "./check %s --tier quick" % p,
        "thorough_cmd": "./check %s --tier thorough" % p,
        "evidence_file": "/verif/evidence/%s.json" % p,
        "replay_cmd_template": "./check %s --replay {path}" % p,
        "engine": "coq-proof+correspondence",
        "level_claimed": {"category": m.get("level", "proof"), "text": m["text"], "design_ref": m.get("design_ref", "DESIGN.md section 8")},
        "level_note": m["note"],
        "technique": m["technique"],
    })
man = {
    "version": 1,
    "setup_cmd": "./setup.sh",
    "hooks": {"guard": "norad_verif", "enable": "no hooks are needed: every modelled mechanism is reachable through the public API (RUSTFLAGS=\"--cfg norad_verif\" is reserved, unused)",
              "baseline_off_cmd": "cd /repo && cargo test --workspace --no-fail-fast --offline", "source_commits": [], "add_only": True},
    "engines": [{"name": "coq-proof+correspondence", "path": "/verif/check", "serves_properties": [c["property_id"] for c in checks],
                 "kind_free_text": "Coq 8.16 theorems over hand-written Gallina models (coq/), tied to /repo on every run by anchors regenerated from the source (lib/anchors.py) and by a differential correspondence run: Rust harness (harness/) against /repo's working tree vs the model evaluated by vm_compute"}],
    "checks": checks,
    "not_applicable": na,
    "notes": "See DESIGN.md. known_findings.txt lists genuine defects that are recorded rather than repaired.",
}
json.dump(man, open(os.path.join(V, "MANIFEST.json"), "w"), indent=1)
print("checks:", [c["property_id"] for c in checks], "not claimed:", len(na))
