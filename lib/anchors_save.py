"""Effect-order skeletons of Font::save_impl, Layer::save_with_options, Glyph::save_with_options
and Font::load_impl / LayerContents::load / Layer::load_impl, regenerated from the Rust source.

A skeleton is the ordered list of (kind, name) of
  * the validator / refusal tests,
  * the loop that forces the stores,
  * every call that touches the file system (exists, metadata, remove_dir_all, create_dir,
    create_dir_all, write*, File::create, from_file, read*, read_dir, DataStore::new ...), with its
    path argument resolved to the file-name static it is built from,
  * the emptiness / request guards in front of them.
Purely syntactic (regular expressions + bracket matching), no Rust parser.  A call of one of
the listed families that the patterns cannot classify is still emitted (kind "unknown"), so it
can never be dropped silently.  Used by props/c08.py, c09.py (save side) and c17.py (load side).
"""
import os
import re


def _strip_comments(src):
    out = []
    i = 0
    n = len(src)
    while i < n:
        if src.startswith("//", i):
            j = src.find("\n", i)
            i = n if j < 0 else j
        elif src.startswith("/*", i):
            j = src.find("*/", i)
            i = n if j < 0 else j + 2
        elif src[i] == '"':
            j = i + 1
            while j < n and src[j] != '"':
                j += 2 if src[j] == "\\" else 1
            out.append(src[i:j + 1])
            i = j + 1
        else:
            out.append(src[i])
            i += 1
    return "".join(out)


def statics(src):
    """static NAME: &str = "value";"""
    return dict(re.findall(r'static\s+([A-Z_]+)\s*:\s*&str\s*=\s*"([^"]*)"', src))


def fn_body(src, header_re):
    m = re.search(header_re, src)
    if not m:
        raise ValueError("function not found: " + header_re)
    i = src.index("{", m.end())
    depth = 0
    j = i
    while j < len(src):
        c = src[j]
        if c == '"':
            j += 1
            while src[j] != '"':
                j += 2 if src[j] == "\\" else 1
        elif c == "{":
            depth += 1
        elif c == "}":
            depth -= 1
            if depth == 0:
                return src[i + 1:j]
        j += 1
    raise ValueError("unbalanced braces after " + header_re)


def _cut_tests(src):
    m = re.search(r"#\[cfg\(test\)\]\s*mod\s+tests\s*\{", src)
    return src if not m else src[:m.start()]


def _resolve(arg, pos, lets, consts):
    """path expression -> the file-name statics / variables it is built from ('' = the base path).
    `lets` = [(position, name, expression)]: the nearest preceding binding of a name is used."""
    expr = arg.strip().lstrip("&").strip()
    for _ in range(6):
        def sub(m):
            d = [e for (p, n, e) in lets if n == m.group(0) and p < pos]
            return "(" + d[-1] + ")" if d else m.group(0)
        new = re.sub(r"(?<![\w.])[a-z_][a-z_0-9]*\b(?!\s*[(:!])", sub, expr)
        if new == expr:
            break
        expr = new
    parts = []
    for m in re.finditer(r"\b([A-Z][A-Z_]+)\b|join\(\s*&?\s*([a-z_.]+)\s*\)", expr):
        if m.group(1):
            if m.group(1) in consts:
                parts.append(consts[m.group(1)])
        elif m.group(2):
            parts.append("<" + m.group(2) + ">")
    key = "/".join(parts)
    if ".parent()" in expr:
        key += "/.."
    return key


CALLS = [
    (r"\bfs::remove_dir_all\s*\(", "remove_dir_all"),
    (r"\bfs::remove_dir\s*\(", "remove_dir"),
    (r"\bfs::remove_file\s*\(", "remove_file"),
    (r"\bfs::rename\s*\(", "rename"),
    (r"\bfs::copy\s*\(", "copy"),
    (r"\bfs::create_dir_all\s*\(", "create_dir_all"),
    (r"\bfs::create_dir\s*\(", "create_dir"),
    (r"\bclose_already::fs::write\s*\(", "write"),
    (r"(?<!already::)\bfs::write\s*\(", "write"),
    (r"\bFile::create\s*\(", "write"),
    (r"\bwrite_xml_to_file\s*\(", "write_xml"),
    (r"\bfs::read_to_string\s*\(", "read"),
    (r"\bfs::read_dir\s*\(", "read_dir"),
    (r"\bfs::read\s*\(", "read"),
    (r"\bplist::from_file\s*\(", "read_plist"),
    (r"\bplist::Value::from_file\s*\(", "read_plist"),
    (r"\bFontInfo::from_file\s*\(", "read_plist"),
]


def _first_arg(body, pos):
    depth = 0
    j = pos
    while j < len(body):
        c = body[j]
        if c in "([{":
            depth += 1
        elif c in ")]}":
            if depth == 0:
                break
            depth -= 1
        elif c == "," and depth == 0:
            break
        j += 1
    return body[pos:j]


def skeleton(body, consts, extra_patterns=()):
    """ordered (kind, name) list of one function body"""
    lets = [(m.start(), m.group(1), m.group(2))
            for m in re.finditer(r"(?=\blet\s+(?:mut\s+)?(\w+)\s*(?::[^=;]+)?=\s*([^;]+?);)", body)]
    items = []
    for rx, kind in CALLS:
        for m in re.finditer(rx, body):
            arg = _first_arg(body, m.end())
            items.append((m.start(), kind, _resolve(arg, m.start(), lets, consts)))
    for m in re.finditer(r"([\w.]+(?:\([^()]*\))?)\.exists\(\)", body):
        items.append((m.start(), "exists", _resolve(m.group(1), m.start(), lets, consts)))
    for m in re.finditer(r"\b(\w+)\.metadata\(\)", body):
        items.append((m.start(), "metadata", _resolve(m.group(1), m.start(), lets, consts)))
    for m in re.finditer(r"\b(?:FontWriteError|LayerWriteError|GlifWriteError|FontLoadError|LayerLoadError|GlifLoadError)::(\w+)", body):
        items.append((m.start(), "err", m.group(1)))
    for rx, kind, name in extra_patterns:
        for m in re.finditer(rx, body):
            if name == "@cond":
                # the complete condition between `if` and the `{` that opens the block, so that a
                # condition that was extended or narrowed no longer matches the model's
                j = body.index("{", m.end() - 1) if body[m.end() - 1] != "{" else m.end() - 1
                k = body.index("if", m.start()) + 2
                items.append((m.start(), kind, " ".join(body[k:j].split())))
                continue
            if name == "@seen":
                # the key expression that goes into a `seen_*` set (what duplicates are compared by)
                items.append((m.start(), kind, m.group(1) + ": " + " ".join(_first_arg(body, m.end()).split())))
                continue
            nm = name if isinstance(name, str) else name(m)
            if kind == "call" and rx.endswith("\\("):
                a = _resolve(_first_arg(body, m.end()), m.start(), lets, consts)
                nm = nm + (" " + a if a else "")
            items.append((m.start(), kind, nm))
    items.sort()
    out = []
    for _, k, n in items:
        if out and out[-1] == (k, n):
            continue        # the two arms of an if/else writing the same file
        out.append((k, n))
    return out


SAVE_EXTRA = [
    (r"self\.meta\.format_version\s*!=\s*FormatVersion::V3", "check", "format_version"),
    (r"self\.lib\.contains_key\(PUBLIC_OBJECT_LIBS_KEY\)", "check", "public.objectLibs"),
    (r"validate_groups\(&self\.groups\)", "check", "validate_groups"),
    (r"self\.font_info\.validate\(\)", "check", "font_info.validate"),
    (r"self\.data\.iter\(\)\.chain\(self\.images\.iter\(\)\)", "force", "data+images"),
    (r"if\s+!\s*self\.font_info\.is_empty\(\)", "guard", "@cond"),
    (r"if\s+!\s*lib\.is_empty\(\)", "guard", "@cond"),
    (r"if\s+!\s*self\.(groups|kerning|features|data|images)\.is_empty\(\)", "guard", "@cond"),
    (r"if\s+path\b[^{;]*\{", "guard", "@cond"),
    (r"layer\.save_with_options\(", "layer", "save_with_options"),
]
LAYER_SAVE_EXTRA = [
    (r"self\.layerinfo_to_file_if_needed\(", "call", "layerinfo_to_file_if_needed"),
    (r"glyph\.save_with_options\(", "glyph", "save_with_options"),
    (r"if\s+self\.color\.is_none\(\)", "guard", "@cond"),
]
GLYPH_SAVE_EXTRA = [
    (r"self\.lib\.contains_key\(PUBLIC_OBJECT_LIBS_KEY\)", "check", "public.objectLibs"),
]


def consts_of(repo):
    c = {}
    for f in ("font.rs", "layer.rs"):
        c.update(statics(open(os.path.join(repo, "src", f)).read()))
    return c


def save_skeletons(repo):
    font = _cut_tests(_strip_comments(open(os.path.join(repo, "src", "font.rs")).read()))
    layer = _cut_tests(_strip_comments(open(os.path.join(repo, "src", "layer.rs")).read()))
    glyph = _cut_tests(_strip_comments(open(os.path.join(repo, "src", "glyph", "mod.rs")).read()))
    consts = consts_of(repo)
    sk = {}
    sk["save_impl"] = skeleton(fn_body(font, r"fn\s+save_impl\s*\("), consts, SAVE_EXTRA)
    sk["layer_save"] = skeleton(fn_body(layer, r"fn\s+save_with_options\s*\("), consts, LAYER_SAVE_EXTRA)
    sk["layerinfo"] = skeleton(fn_body(layer, r"fn\s+layerinfo_to_file_if_needed\s*\("), consts, LAYER_SAVE_EXTRA)
    sk["glyph_save"] = skeleton(fn_body(glyph, r"fn\s+save_with_options\s*\("), consts, GLYPH_SAVE_EXTRA)
    return sk


LOAD_EXTRA = [
    (r"if\s+request\.(lib|groups|kerning|features|data|images)\b", "guard", "@cond"),
    (r"load_lib\(", "call", "load_lib"),
    (r"load_fontinfo\(", "call", "load_fontinfo"),
    (r"load_groups\(", "call", "load_groups"),
    (r"load_kerning\(", "call", "load_kerning"),
    (r"load_features\(", "call", "load_features"),
    (r"load_layer_set\(", "call", "load_layer_set"),
    (r"DataStore::new\(", "open_store", "data"),
    (r"ImageStore::new\(", "open_store", "images"),
    (r"upconvert_ufov1_robofab_data\(", "call", "upconvert_ufov1_robofab_data"),
    (r"if\s+meta\.format_version\s*==\s*FormatVersion::V1", "guard", "@cond"),
]
LAYERSET_EXTRA = [
    (r"if\s+meta\.format_version\s*==\s*FormatVersion::V3", "guard", "@cond"),
    (r"LayerContents::load\(", "call", "LayerContents::load"),
]
LAYERCONTENTS_EXTRA = [
    (r"seen_(\w+)\.insert\(", "seen", "@seen"),
    (r"filter\.should_load\(", "guard", "filter.should_load"),
    (r"Layer::load_impl\(", "call", "Layer::load_impl"),
    (r"if\s+!\s*filter\.includes_default_layer\(\)", "guard", "@cond"),
]
LAYERLOAD_EXTRA = [
    (r"seen_(\w+)\.insert\(", "seen", "@seen"),
    (r"Glyph::load_with_names\(", "call", "Glyph::load_with_names"),
    (r"Self::parse_layer_info\(", "call", "parse_layer_info"),
]


def load_skeletons(repo):
    font = _cut_tests(_strip_comments(open(os.path.join(repo, "src", "font.rs")).read()))
    layer = _cut_tests(_strip_comments(open(os.path.join(repo, "src", "layer.rs")).read()))
    glyph = _cut_tests(_strip_comments(open(os.path.join(repo, "src", "glyph", "mod.rs")).read()))
    dreq = _cut_tests(_strip_comments(open(os.path.join(repo, "src", "data_request.rs")).read()))
    consts = consts_of(repo)
    sk = {}
    sk["load_impl"] = skeleton(fn_body(font, r"fn\s+load_impl\s*\(\s*path"), consts, LOAD_EXTRA)
    for fn in ("load_lib", "load_fontinfo", "load_groups", "load_kerning", "load_features"):
        sk[fn] = skeleton(fn_body(font, r"fn\s+%s\s*\(" % fn), consts, [])
    sk["load_layer_set"] = skeleton(fn_body(font, r"fn\s+load_layer_set\s*\("), consts, LAYERSET_EXTRA)
    sk["layercontents_load"] = skeleton(fn_body(layer, r"pub\(crate\)\s+fn\s+load\s*\(\s*base_dir"), consts, LAYERCONTENTS_EXTRA)
    sk["layer_load"] = skeleton(fn_body(layer, r"fn\s+load_impl\s*\(\s*path"), consts, LAYERLOAD_EXTRA)
    sk["parse_layer_info"] = skeleton(fn_body(layer, r"fn\s+parse_layer_info\s*\("), consts, [])
    sk["glyph_load"] = skeleton(fn_body(glyph, r"fn\s+load_with_names\s*\("), consts, [])
    # the filter itself: which conjuncts decide
    body = fn_body(dreq, r"fn\s+should_load\s*\(")
    sk["should_load"] = [("expr", " ".join(body.split()))]
    body = fn_body(dreq, r"fn\s+includes_default_layer\s*\(")
    sk["includes_default_layer"] = [("expr", " ".join(body.split()))]
    return sk


def gallina(name, sk):
    def q(s):
        return '"' + s.replace('"', '""') + '"'
    return "Definition %s : list (string * string) :=\n  [%s].\n" % (
        name, ";\n   ".join("(%s, %s)" % (q(k), q(n)) for k, n in sk))


def gen_file(sks, prefix="x_"):
    out = ["From Coq Require Import String List.", "Import ListNotations.", "Open Scope string_scope.", ""]
    for k, v in sks.items():
        out.append(gallina(prefix + k, v))
    return "\n".join(out)


if __name__ == "__main__":
    import sys
    repo = sys.argv[1] if len(sys.argv) > 1 else "/repo"
    for k, v in list(save_skeletons(repo).items()) + list(load_skeletons(repo).items()):
        print(k)
        for it in v:
            print("   ", it)
