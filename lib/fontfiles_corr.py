"""Correspondence of the tree-level codecs of the seven plist files (coq/Model/FontRealPlist.v,
coq/Model/FontRealFiles.v, run through coq/Run/FontFiles.v) with files on disk.

For a file norad WROTE, the value the file denotes is read with the independent reader (ufoio) and
the model must (1) write exactly the XML tree found on disk for that value -- element kinds, key
order, which keys are present, <integer> versus <real> -- and (2) read that tree back as the value.
For a foreign file norad LOADED, the model's reader must return the value norad's dump shows.

The text of a number is the library's, not the model's (hypotheses H_ff / H_fi / H_ff3 of the
theorems): the tables handed to the model are taken from the file (number text <-> the binary64 value
Python reads it as); a colour channel's three-decimal text is Python's '%.3f' of the value, which the
model then trims.  Blank text between the children of <plist>, <dict>, <array> is layout and dropped, and so
are the blanks inside <data> (the writer wraps and indents base64 text).

  checks_written(ufo)          -> [(label, gallina bool-ish expr)]   for a UFO norad wrote
  checks_loaded(ufo, dump)     -> the same for a foreign UFO norad loaded (dump = harness dump of the font)
  eval_codes(ctx, name, exprs) -> list of int codes (0 = agreement) or ("error", text)
"""
import os
import re
import struct
import sys
import xml.parsers.expat

sys.path.insert(0, os.path.dirname(os.path.abspath(__file__)))
import ufoio  # noqa: E402

CONTAINERS = {"plist", "dict", "array"}
WS = " \t\r\n"
HEADER = ("Require Import Norad.Run.FontFiles Norad.Model.FontRT Norad.Model.GlifSpec Norad.Model.FontInfoFile.\n"
          "Open Scope N_scope.\n")
CODES = {6: "the deserialisers' checks / validate on the view of the value refuse a file norad loaded",
         5: "the value is not a value of the schema (driver conversion)", 1: "the model writes another tree", 2: "the model does not read the tree",
         3: "the model reads another value", 4: "the model reads a tree norad refuses"}


# ------------------------------------------------------------------------------------------------
# the XML tree on disk
def xml_value_node(data):
    """the single value element below <plist>, as nested lists: [0,name,attrs] (self-closing),
    [1,name,attrs,kids], [2,text]"""
    p = xml.parsers.expat.ParserCreate()
    p.ordered_attributes = True
    p.buffer_text = True
    stack = [[None, None, [], False]]

    def start(name, attrs):
        a = [[attrs[i], attrs[i + 1]] for i in range(0, len(attrs), 2)]
        i = p.CurrentByteIndex
        quote = None
        while i < len(data):
            c = data[i:i + 1]
            if quote:
                if c == quote:
                    quote = None
            elif c in (b'"', b"'"):
                quote = c
            elif c == b">":
                break
            i += 1
        stack.append([name, a, [], data[i - 1:i] == b"/"])

    def end(name):
        nm, a, kids, selfclosing = stack.pop()
        if nm in CONTAINERS:
            kids = [k for k in kids if not (k[0] == 2 and k[1].strip(WS) == "")]
        if nm == "data":        # base64 text is wrapped and indented by the writer: layout
            if all(k[0] == 2 for k in kids):
                t = "".join(k[1] for k in kids)
                t = "".join(c for c in t if c not in WS + "\x0c")
                kids = [[2, t]] if t else []
        stack[-1][2].append([0, nm, a] if selfclosing else [1, nm, a, kids])

    cdata = [False]

    def chars(s):
        kids = stack[-1][2]
        kind = 3 if cdata[0] else 2
        if kids and kids[-1][0] == kind and not (kind == 3 and kids[-1][2]):
            kids[-1][1] += s
        else:
            kids.append([kind, s, False])

    def cdata_start():
        cdata[0] = True
        stack[-1][2].append([3, "", False])

    def cdata_end():
        cdata[0] = False
        kids = stack[-1][2]
        if kids and kids[-1][0] == 3:
            kids[-1][2] = True          # closed: a following section is a new node

    p.StartElementHandler = start
    p.EndElementHandler = end
    p.CharacterDataHandler = chars
    p.StartCdataSectionHandler = cdata_start
    p.EndCdataSectionHandler = cdata_end
    p.CommentHandler = lambda s: stack[-1][2].append([4, s])
    p.ProcessingInstructionHandler = lambda t, d: stack[-1][2].append([7, (t + " " + d).strip()])
    p.Parse(data, True)
    roots = [k for k in stack[0][2] if k[0] in (0, 1)]
    if len(roots) != 1 or roots[0][1] != "plist" or roots[0][0] != 1:
        return None
    vals = [k for k in roots[0][3] if k[0] in (0, 1)]
    return vals[0] if len(vals) == 1 else None


def walk(n):
    yield n
    if n[0] == 1:
        for k in n[3]:
            if k[0] in (0, 1):
                yield from walk(k)


def node_text(n):
    return "".join(k[1] for k in (n[3] if n[0] == 1 else []) if k[0] == 2)


# ------------------------------------------------------------------------------------------------
# Gallina printing
def g_str(s):
    return "[" + ";".join(str(ord(c)) for c in s) + "]"


def g_list(xs):
    return "[" + ";".join(xs) + "]"


def g_opt(x, f):
    return "None" if x is None else "(Some %s)" % f(x)


def g_z(z):
    return "(%d)%%Z" % z


def g_fl(x):
    """a binary64 value as [FFin neg m e] with m odd (or 0)"""
    if x != x:
        return "FNaN"
    if x in (float("inf"), float("-inf")):
        return "(FInf %s)" % ("true" if x < 0 else "false")
    neg = struct.pack(">d", x)[0] >> 7 == 1
    if x == 0:
        return "(FFin %s 0 0%%Z)" % ("true" if neg else "false")
    n, d = abs(x).as_integer_ratio()
    e = 0
    if d > 1:
        e = -(d.bit_length() - 1)
    else:
        while n % 2 == 0:
            n //= 2
            e += 1
    return "(FFin %s %d (%d)%%Z)" % ("true" if neg else "false", n, e)


def bits(x):
    return struct.unpack(">Q", struct.pack(">d", x))[0]


def g_node(n):
    if n[0] == 2:
        return "(Text %s)" % g_str(n[1])
    if n[0] == 3:
        return "(CData %s)" % g_str(n[1])
    if n[0] == 4:
        return "(Comment %s)" % g_str(n[1])
    if n[0] == 7:
        return "(PI %s)" % g_str(n[1])
    a = g_list(["(%s,%s)" % (g_str(k), g_str(v)) for k, v in n[2]])
    if n[0] == 0:
        return "(Empty %s %s)" % (g_str(n[1]), a)
    return "(Elem %s %s %s)" % (g_str(n[1]), a, g_list([g_node(k) for k in n[3]]))


def g_pv(pv):
    t, v = pv["t"], pv["v"]
    if t == "str":
        return "(PStr %s)" % g_str(v)
    if t == "int":
        return "(PInt %s)" % g_z(v)
    if t == "real":
        return "(PReal %s)" % g_fl(ufoio.val(v))
    if t == "bool":
        return "(PBool %s)" % ("true" if v else "false")
    if t == "data":
        return "(PData %s)" % g_list([str(b) for b in bytes.fromhex(v)])
    if t == "date":
        return "(PDate %s)" % g_str(v)
    if t == "array":
        return "(PArr %s)" % g_list([g_pv(x) for x in v])
    return "(PDict %s)" % g_dict(v)


def g_dict(d):
    return g_list(["(%s,%s)" % (g_str(k), g_pv(x)) for k, x in d.items()])


def g_pairs(l):
    return g_list(["(%s,%s)" % (g_str(a), g_str(b)) for a, b in l])


def parse_float(t):
    s = t.strip().lower()
    if s in ("nan", "+nan", "-nan"):
        return float("nan")
    return float(s)


def tables(node, colors=()):
    """the library tables for one file: number texts found in the tree, three-decimal channel texts"""
    ff, fi, pf, bt = [], [], [], []
    seen = set()
    for n in walk(node):
        if n[1] == "real":
            t = node_text(n)
            try:
                x = parse_float(t)
            except ValueError:
                continue
            if ("r", t) not in seen:
                seen.add(("r", t))
                ff.append("(%s,%s)" % (g_fl(x), g_str(t)))
                pf.append("(%s,%s)" % (g_str(t), g_fl(x)))
                bt.append("(%d,%s)" % (bits(x), g_fl(x)))
        elif n[1] == "integer":
            t = node_text(n)
            s = t.strip()
            try:
                z = int(s, 16) if s.lower().startswith("0x") else int(s)
            except ValueError:
                continue
            if ("i", t) not in seen:
                seen.add(("i", t))
                fi.append("(%s,%s)" % (g_z(z), g_str(t)))
                if abs(z) < 2 ** 64:
                    x = float(z)
                    bt.append("(%d,%s)" % (bits(x), g_fl(x)))
    ff3 = []
    for c in colors:
        for x, t in c:
            ff3.append("(%s,%s)" % (g_fl(x), g_str("%.3f" % x)))
            pf.append("(%s,%s)" % (g_str(t), g_fl(x)))
    return "(Build_tabs %s %s %s %s %s)" % (g_list(ff), g_list(ff3), g_list(fi), g_list(pf), g_list(bt))


def color_channels(s):
    """'r,g,b,a' -> [(value, text)] or None"""
    parts = s.split(",")
    if len(parts) != 4:
        return None
    out = []
    for t in parts:
        try:
            out.append((parse_float(t), t))
        except ValueError:
            return None
    return out


def g_color(ch):
    return "(%s,%s,%s,%s)" % tuple(g_fl(x) for x, _ in ch)


# ------------------------------------------------------------------------------------------------
# values of the files, from the independent reader
def _dictv(pv, what):
    if pv["t"] != "dict":
        raise ufoio.UfoError("%s: not a dictionary" % what)
    return pv["v"]


def v_meta(pv):
    d = _dictv(pv, "metainfo")
    c = d["creator"]["v"] if "creator" in d else None
    return "(Build_meta %s %d %d)" % (g_opt(c, g_str), d["formatVersion"]["v"],
                                      d["formatVersionMinor"]["v"] if "formatVersionMinor" in d else 0)


def v_lc(pv):
    return g_pairs([(e["v"][0]["v"], e["v"][1]["v"]) for e in pv["v"]])


def v_ct(pv):
    return g_pairs([(k, v["v"]) for k, v in _dictv(pv, "contents").items()])


def v_groups(pv):
    return g_list(["(%s,%s)" % (g_str(k), g_list([g_str(m["v"]) for m in v["v"]]))
                   for k, v in _dictv(pv, "groups").items()])


def _knum(pv):
    if pv["t"] == "int":
        return bits(float(pv["v"]))
    if pv["t"] == "real":
        return bits(ufoio.val(pv["v"]))
    raise ufoio.UfoError("kerning value is not a number")


def v_kerning(pv):
    return g_list(["(%s,%s)" % (g_str(k), g_list(["(%s,%d)" % (g_str(k2), _knum(x))
                                                  for k2, x in _dictv(v, "kerning").items()]))
                   for k, v in _dictv(pv, "kerning").items()])


def v_li(pv):
    d = _dictv(pv, "layerinfo")
    ch = None
    if "color" in d:
        ch = color_channels(d["color"]["v"])
        if ch is None:
            raise ufoio.UfoError("layerinfo: bad colour")
    lib = _dictv(d["lib"], "layerinfo lib") if "lib" in d else None
    return "(%s,%s)" % (g_opt(ch, g_color), g_opt(lib, g_dict)), ([ch] if ch else [])


# ---- fontinfo.plist: a tagged plist value -> the value of the schema (lib/anchors_fontinfo.py)
_SCHEMA = {}


def fontinfo_schema():
    if "s" not in _SCHEMA:
        import anchors_fontinfo
        import driver
        _SCHEMA["s"] = anchors_fontinfo.extract(driver.REPO)
    return _SCHEMA["s"]


def to_sval(s, pv, what="fontinfo"):
    """Gallina [sval] term of a tagged plist value read as schema s; raises UfoError when it is none"""
    k = s[0]
    t, v = pv["t"], pv["v"]

    def need(*ts):
        if t not in ts:
            raise ufoio.UfoError("%s: expected %s, found %s" % (what, "/".join(ts), t))
    if k in ("str", "enums"):
        need("str")
        return "(VStr %s)" % g_str(v)
    if k == "bool":
        need("bool")
        return "(VBool %s)" % ("true" if v else "false")
    if k in ("int", "enumi"):
        need("int")
        return "(VInt %s)" % g_z(v)
    if k in ("num", "float"):
        need("int", "real")
        return "(VNum %s)" % g_fl(float(v) if t == "int" else ufoio.val(v))
    if k in ("list", "fix"):
        need("array")
        return "(VList %s)" % g_list([to_sval(s[-1], x, what) for x in v])
    need("dict")
    keys = {f[0] for f in s[2]}
    extra = [x for x in v if x not in keys]
    if extra and s[1]:
        raise ufoio.UfoError("%s: unknown key %r" % (what, extra[0]))
    out = []
    for key, (opt, skip, dflt), fs in s[2]:
        if key in v:
            x = to_sval(fs, v[key], what + "/" + key)
            out.append("(VOpt (Some %s))" % x if opt else x)
        elif opt:
            out.append("(VOpt None)")
        elif dflt and fs[0] == "list":
            out.append("(VList [])")
        else:
            raise ufoio.UfoError("%s: missing key %r" % (what, key))
    return "(VRec %s)" % g_list(out)


def v_info(pv):
    return to_sval(fontinfo_schema(), pv)


FILES = [("fontinfo.plist", "k_info", v_info), ("metainfo.plist", "k_meta", v_meta), ("lib.plist", "k_lib", lambda pv: g_dict(_dictv(pv, "lib"))),
         ("groups.plist", "k_groups", v_groups), ("kerning.plist", "k_kerning", v_kerning),
         ("layercontents.plist", "k_lc", v_lc)]


def _layer_dirs(ufo):
    p = os.path.join(ufo, "layercontents.plist")
    if os.path.exists(p):
        try:
            return [e["v"][1]["v"] for e in ufoio.read_plist_file(p, "layercontents.plist")["v"]]
        except Exception:
            return []
    return ["glyphs"] if os.path.isdir(os.path.join(ufo, "glyphs")) else []


def perturb(node):
    """a tree that differs from what norad wrote in one of the things the writer models decide: the first
    <integer> below a nested dictionary becomes a <real> (kerning), or the first two entries of the top
    dictionary / array are swapped; None when the tree offers neither"""
    import copy
    q = copy.deepcopy(node)
    if q[0] != 1:
        return None
    if q[1] == "dict":
        for k in q[3]:
            if k[0] == 1 and k[1] == "dict":
                for x in k[3]:
                    if x[0] == 1 and x[1] == "integer":
                        x[1] = "real"
                        return q
        if len(q[3]) >= 4 and q[3][0] != q[3][2]:
            q[3][0:4] = q[3][2:4] + q[3][0:2]
            return q
    if q[1] == "array" and len(q[3]) >= 2 and q[3][0] != q[3][1]:
        q[3][0:2] = [q[3][1], q[3][0]]
        return q
    return None


def checks_written(ufo, perturbed=None, fontinfo=True):
    """[(label, expr)] for every plist file of a UFO norad wrote; raises on files the independent
    reader cannot read (the caller reports).  With a list [perturbed], appends to it the same checks
    on perturbed trees (each must come out non-zero: the self-test of the comparison)."""
    out = []

    def one(rel, fn, value_of):
        path = os.path.join(ufo, rel)
        if not os.path.exists(path):
            return
        data = open(path, "rb").read()
        node = xml_value_node(data)
        if node is None:
            raise ufoio.UfoError("%s: no single value below <plist>" % rel)
        pv = ufoio.read_plist_bytes(data, rel)
        v = value_of(pv)
        colors = ()
        if isinstance(v, tuple):
            v, colors = v
        out.append((rel, "%s %s %s %s" % (fn, tables(node, colors), v, g_node(node))))
        if perturbed is not None:
            q = perturb(node)
            if q is not None:
                perturbed.append((rel + " (perturbed)", "%s %s %s %s" % (fn, tables(node, colors), v, g_node(q))))

    for rel, fn, value_of in FILES:
        if rel == "fontinfo.plist" and not fontinfo:       # (slow to elaborate: the caller samples)
            continue
        one(rel, fn, value_of)
    for d in _layer_dirs(ufo):
        one(d + "/contents.plist", "k_ct", v_ct)
        one(d + "/layerinfo.plist", "k_li", v_li)
    return out


# ------------------------------------------------------------------------------------------------
# values norad loaded (harness dump, the abstract font JSON of ufoio)
def checks_loaded(ufo, dump, fontinfo=True):
    """reader direction on a foreign format-3 UFO norad loaded: metainfo, groups, kerning,
    layercontents, contents and layerinfo against the dump of the loaded font.  (lib.plist is
    compared with the independent reading: the loaded lib has had public.objectLibs moved out.)"""
    out = []

    def one(rel, fn, v, colors=()):
        path = os.path.join(ufo, rel)
        if not os.path.exists(path):
            return
        node = xml_value_node(open(path, "rb").read())
        if node is None:
            return
        out.append((rel, "%s %s %s %s" % (fn, tables(node, colors), v, g_node(node))))

    meta = dump.get("meta") or {}
    one("metainfo.plist", "r_meta", "(Build_meta %s %d %d)" % (
        g_opt(meta.get("creator"), g_str), meta.get("formatVersion", 3), meta.get("formatVersionMinor", 0)))
    p = os.path.join(ufo, "lib.plist")
    if os.path.exists(p):
        try:
            one("lib.plist", "r_lib", g_dict(_dictv(ufoio.read_plist_file(p, "lib.plist"), "lib")))
        except ufoio.UfoError:
            pass
    p = os.path.join(ufo, "fontinfo.plist")
    if fontinfo and os.path.exists(p):
        try:
            raw = _dictv(ufoio.read_plist_file(p, "fontinfo.plist"), "fontinfo")
            merged = dict(dump.get("info") or {})
            if "guidelines" in raw:          # (the dump holds guidelines as objects with their libs and colour values)
                merged["guidelines"] = raw["guidelines"]
            if set(merged) == set(raw):
                one("fontinfo.plist", "r_info", to_sval(fontinfo_schema(), {"t": "dict", "v": merged}))
        except ufoio.UfoError:
            pass
    groups = dump.get("groups") or {}
    one("groups.plist", "r_groups",
        g_list(["(%s,%s)" % (g_str(k), g_list([g_str(m) for m in groups[k]])) for k in sorted(groups, key=_bytes_key)]))
    kerning = dump.get("kerning") or {}
    one("kerning.plist", "r_kerning",
        g_list(["(%s,%s)" % (g_str(k), g_list(["(%s,%d)" % (g_str(k2), bits(ufoio.val(kerning[k][k2])))
                                               for k2 in sorted(kerning[k], key=_bytes_key)]))
                for k in sorted(kerning, key=_bytes_key)]))
    layers = dump.get("layers") or []
    if all(l.get("dir") for l in layers):
        # the default layer is moved to the front on loading: compare as sets of pairs through the file order
        p = os.path.join(ufo, "layercontents.plist")
        if os.path.exists(p):
            try:
                order = [(e["v"][0]["v"], e["v"][1]["v"]) for e in ufoio.read_plist_file(p, "lc")["v"]]
                if sorted(order) == sorted((l["name"], l["dir"]) for l in layers):
                    one("layercontents.plist", "r_lc", g_pairs(order))
            except Exception:
                pass
        for l in layers:
            gl = [(g["name"], g["file"]) for g in l.get("glyphs", []) if g.get("file")]
            if len(gl) == len(l.get("glyphs", [])):
                one(l["dir"] + "/contents.plist", "r_ct", g_pairs(sorted(gl, key=lambda e: _bytes_key(e[0]))))
            rel = l["dir"] + "/layerinfo.plist"
            path = os.path.join(ufo, rel)
            if os.path.exists(path):
                try:
                    d = _dictv(ufoio.read_plist_file(path, rel), rel)
                    ch = color_channels(d["color"]["v"]) if "color" in d else None
                except Exception:
                    continue
                col = l.get("color")
                colv = None if col is None else "(%s,%s,%s,%s)" % tuple(g_fl(ufoio.val(x)) for x in col)
                lib = l.get("lib") or None
                # key presence is what the file says (an empty <dict/> under lib loads as the empty lib)
                libt = ("(Some %s)" % g_dict(lib)) if lib else ("(Some [])" if "lib" in d else "None")
                one(rel, "r_li", "(%s,%s)" % ("None" if colv is None else "(Some %s)" % colv, libt),
                    [ch] if ch else [])
    return out


def _bytes_key(s):
    return s.encode("utf-8")


# ------------------------------------------------------------------------------------------------
def eval_codes(ctx, name, exprs, shard=40):
    d = os.path.join(ctx.scratch, "coq_" + name)
    os.makedirs(d, exist_ok=True)
    files = []
    for b in range(0, len(exprs), shard):
        vf = os.path.join(d, "%s_%d.v" % (name, b))
        with open(vf, "w") as f:
            f.write(HEADER)
            for e in exprs[b:b + shard]:
                f.write("Eval vm_compute in %s.\n" % e)
        files.append((b, vf))
    res = ctx.coq_eval_many([vf for _, vf in files], timeout=1500)
    out = [("error", "not evaluated")] * len(exprs)
    for b, vf in files:
        rc, o = res[vf]
        n = min(shard, len(exprs) - b)
        vals = re.findall(r"^\s*= (\d+)\s*$", o, re.M) if rc == 0 else []
        if rc != 0 or len(vals) != n:
            for i in range(n):
                out[b + i] = ("error", "rc=%d, %d of %d values: %s" % (rc, len(vals), n, o[-600:]))
            continue
        for i, v in enumerate(vals):
            out[b + i] = int(v)
    return out
