"""C19 anchor: inventory of every parallel / shared-state site of norad, regenerated from
<repo>/src on every run.

A site is a source line (outside comments and outside `#[cfg(test)] mod` blocks) that mentions one
of: the `rayon` feature gate, a rayon parallel iterator (`par_iter`, `into_par_iter`,
`par_bridge`, any `.par_*(`, `rayon::`), a lock or interior-mutability or sharing primitive
(`RwLock`, `Mutex`, `RefCell`, `Cell<`, `Arc`, `Rc<`, `Atomic*`, `OnceLock`/`OnceCell`,
`thread_local!`, `static mut`), or threads (`thread::`, `spawn(`).  For a `cfg(feature = "rayon")`
attribute the site is the attribute together with the item / statement it gates.
Key: "file|enclosing item|normalised text" (+ "#n" for the n-th identical line of one item).

`python3 lib/anchors_c19.py [repo]` prints the inventory as the Coq list used in
coq/Model/SitesPar.v (paste + assign a cover to every new line).
"""
import os
import re
import sys

PATTERNS = [
    r'feature\s*=\s*"rayon"', r"\bpar_iter\b", r"\binto_par_iter\b", r"\bpar_bridge\b", r"\.par_\w+\s*\(",
    r"\brayon::", r"\bRwLock\b", r"\bMutex\b", r"\bRefCell\b", r"\bCell<", r"\bArc\b", r"\bRc<",
    r"\bAtomic\w+", r"\bOnce(Lock|Cell)\b", r"\bthread_local!", r"\bstatic\s+mut\b", r"\bthread::", r"\bspawn\s*\(",
    # lock / borrow operations
    r"\.(?:try_)?(?:read|write|lock)\(\)", r"\.(?:try_)?borrow(?:_mut)?\(\)",
    # the interner and every place it is handed to or called
    r"\bNameList\b", r"(?<![.\w])names\.", r"\bself\.names\b", r"\bnames\s*[,)}]", r"\bglyph_names\b", r"\bglyph_set\b",
]
PAT = re.compile("|".join("(?:%s)" % p for p in PATTERNS))
ITEM = re.compile(r"^\s*(?:pub(?:\([^)]*\))?\s+)?(?:unsafe\s+)?(?:async\s+)?(?:const\s+)?"
                  r"(fn|struct|enum|trait|mod|impl)\b\s*(.*)$")


def strip_line_comment(line):
    """cut a trailing // comment (not inside a string literal)"""
    out = []
    i = 0
    instr = False
    while i < len(line):
        c = line[i]
        if instr:
            out.append(c)
            if c == "\\" and i + 1 < len(line):
                out.append(line[i + 1])
                i += 1
            elif c == '"':
                instr = False
        else:
            if c == '"':
                instr = True
                out.append(c)
            elif line.startswith("//", i):
                break
            else:
                out.append(c)
        i += 1
    return "".join(out)


def norm(s):
    return " ".join(s.split())


def item_label(kind, rest):
    rest = rest.strip()
    if kind == "impl":
        rest = re.sub(r"^<[^>]*>\s*", "", rest)          # impl<T: ..> X
        m = re.match(r"(.*?)\s*(?:\{|where\b|$)", rest)
        return "impl " + norm(m.group(1))
    m = re.match(r"([A-Za-z_]\w*)", rest)
    return "%s %s" % (kind, m.group(1) if m else "?")


def scan_file(path, rel):
    """[(key, line_no)]"""
    lines = open(path, encoding="utf-8").read().split("\n")
    sites = []
    stack = []          # (depth before the item's opening brace, label, is_test_mod)
    depth = 0
    in_block_comment = False
    pending_test = False
    pending_label = None    # item header seen, brace not yet
    i = 0
    seen = {}
    while i < len(lines):
        raw = lines[i]
        line = raw
        if in_block_comment:
            if "*/" in line:
                line = line.split("*/", 1)[1]
                in_block_comment = False
            else:
                i += 1
                continue
        if "/*" in line and "*/" not in line.split("/*", 1)[1]:
            line = line.split("/*", 1)[0]
            in_block_comment = True
        code = strip_line_comment(line)
        s = code.strip()
        in_test = any(t for _, _, t in stack)
        if re.match(r"#\[cfg\(test\)\]", s):
            pending_test = True
        m = ITEM.match(code)
        if m and not s.startswith("#"):
            pending_label = (item_label(m.group(1), m.group(2)), pending_test and m.group(1) == "mod")
            if m.group(1) != "mod" or "{" in s or s.endswith(";"):
                pass
            pending_test = False
        elif s and not s.startswith("#"):
            pending_test = False
        if s and not in_test and PAT.search(s):
            text = norm(s)
            # an attribute gating the next item / statement: join with what it gates
            if s.startswith("#[") and 'feature' in s:
                j = i + 1
                while j < len(lines) and (not lines[j].strip() or lines[j].strip().startswith("#[")
                                          or lines[j].strip().startswith("//")):
                    j += 1
                if j < len(lines):
                    text = text + " " + norm(strip_line_comment(lines[j]))
            fn = None
            for _, lab, _ in reversed(stack):
                if lab.startswith("fn "):
                    fn = lab
                    break
            encl = fn or (stack[-1][1] if stack else "<top>")
            if fn and len(stack) >= 2:
                # qualify a method by its impl
                for _, lab, _ in reversed(stack):
                    if lab.startswith("impl ") or lab.startswith("trait "):
                        encl = lab + "::" + fn
                        break
            if m and not s.startswith("#") and pending_label:
                # the line is itself an item header (struct X(RwLock<..>), fn f(a: Arc<..>))
                encl = (stack[-1][1] if stack else "<top>")
            key = "%s|%s|%s" % (rel, encl, text)
            seen[key] = seen.get(key, 0) + 1
            if seen[key] > 1:
                key = "%s#%d" % (key, seen[key])
            sites.append((key, i + 1))
        # brace tracking (strings stripped roughly)
        nostr = re.sub(r'"(?:[^"\\]|\\.)*"', '""', code)
        nostr = re.sub(r"'(?:[^'\\]|\\.)'", "' '", nostr)
        for c in nostr:
            if c == "{":
                if pending_label is not None:
                    stack.append((depth, pending_label[0], pending_label[1]))
                    pending_label = None
                depth += 1
            elif c == "}":
                depth -= 1
                while stack and stack[-1][0] >= depth:
                    stack.pop()
            elif c == ";" and pending_label is not None and depth == (stack[-1][0] + 1 if stack else 0):
                pending_label = None        # `struct X(..);`, `mod x;`, trait method without body
        i += 1
    return sites


# the three pieces of code the model transliterates: their normalised text is part of the anchor
REGIONS = [
    ("src/names.rs", "ParNameList::get", r"^#\[cfg\(feature = \"rayon\"\)\]\s*$", r"^impl ParNameList \{", r"^\}"),
    ("src/names.rs", "SeqNameList::get", r"^#\[cfg\(not\(feature = \"rayon\"\)\)\]\s*$", r"^impl SeqNameList \{", r"^\}"),
    ("src/layer.rs", "Layer::load_impl/parallel map", None, r"^\s*let glyphs = iter\s*$", r"\.collect::<Result<_, _>>\(\)\?;"),
    ("src/layer.rs", "Layer::save_with_options/parallel for_each", None, r"^\s*iter\.try_for_each\(", r"^    \}\s*$"),
]


def region_text(repo, rel, label, pre, start, end):
    lines = open(os.path.join(repo, rel), encoding="utf-8").read().split("\n")
    for i, ln in enumerate(lines):
        if re.search(start, ln) and (pre is None or (i > 0 and re.search(pre, lines[i - 1]))):
            out = []
            for j in range(i, len(lines)):
                if j > i and re.search(end, lines[j]):
                    out.append(lines[j])
                    body = " ".join(norm(strip_line_comment(x)) for x in out if norm(strip_line_comment(x)))
                    return "%s|%s|%s" % (rel, label, body)
                out.append(lines[j])
    raise RuntimeError("region %s of %s not found: the code the model transliterates has moved" % (label, rel))


def inventory(repo):
    src = os.path.join(repo, "src")
    res = []
    for rel, label, pre, start, end in REGIONS:
        res.append((region_text(repo, rel, label, pre, start, end), 0))
    for root, dirs, files in os.walk(src):
        dirs.sort()
        for f in sorted(files):
            if f.endswith(".rs"):
                p = os.path.join(root, f)
                res += scan_file(p, os.path.relpath(p, repo))
    # Cargo.toml: the feature and the optional dependency
    ct = os.path.join(repo, "Cargo.toml")
    sect = ""
    for ln in open(ct, encoding="utf-8").read().split("\n"):
        s = ln.strip()
        if s.startswith("["):
            sect = s
        elif "rayon" in s and not s.startswith("#"):
            res.append(("Cargo.toml|%s|%s" % (sect, norm(s)), 0))
    return res


def coq_string(s):
    return '"' + s.replace('"', '""') + '"'


def gen_coq(repo):
    inv = inventory(repo)
    if not inv:
        raise RuntimeError("no parallel site found at all: extraction is broken")
    body = ";\n  ".join(coq_string(k) for k, _ in inv)
    return ("From Coq Require Import String List.\nImport ListNotations.\nOpen Scope string_scope.\n"
            "(* regenerated from %s/src by lib/anchors_c19.py *)\n"
            "Definition extracted_sites : list string := [\n  %s ].\n" % (repo, body)), inv


if __name__ == "__main__":
    repo = sys.argv[1] if len(sys.argv) > 1 else os.environ.get("VERIF_REPO", "/repo")
    for k, ln in inventory(repo):
        print("  (%s, TODO);   (* line %d *)" % (coq_string(k), ln))
