#!/usr/bin/python3
"""record_seeded.py <id> <caught|missed> <by/notes...>: copy a verified seeded change from /root/mutants/<id>
into seeded/<id>/ with meta.json extended by what was run and what the checks said."""
import json, os, shutil, sys
V = os.path.dirname(os.path.dirname(os.path.abspath(__file__)))
mid, status, notes = sys.argv[1], sys.argv[2], " ".join(sys.argv[3:])
src = "/root/mutants/" + mid
dst = os.path.join(V, "seeded", mid)
os.makedirs(dst, exist_ok=True)
for f in ("patch.diff", "demo.rs"):
    shutil.copy(os.path.join(src, f), os.path.join(dst, f))
meta = json.load(open(os.path.join(src, "meta.json")))
ver = open(os.path.join(src, "verify.txt")).read().split("\n") if os.path.exists(os.path.join(src, "verify.txt")) else []
meta["confirmed_in_scratch_worktree"] = [l for l in ver if l]
meta["checks"] = {"status": status, "notes": notes}
json.dump(meta, open(os.path.join(dst, "meta.json"), "w"), indent=1)
print("recorded", mid, status)
