"""Shared by props/c08.py and props/c09.py: evaluate `SCase` lines (coq/Run/SaveRun.v) against the
save model in parallel shards and report the mismatching ones."""
import json
import os

HDR = """From stdpp Require Import gmap strings.
From Norad.Model Require Import Fs Save.
From Norad.Run Require Import SaveRun.
Open Scope string_scope. Open Scope list_scope. Open Scope N_scope.
Set Printing Width 100000. Set Printing Depth 1000000.
"""


def shard_cases(lines, target_bytes=110000):
    """split case lines into shards of roughly target_bytes"""
    shards, cur, size = [], [], 0
    for i, ln in enumerate(lines):
        cur.append((i, ln))
        size += len(ln)
        if size >= target_bytes:
            shards.append(cur)
            cur, size = [], 0
    if cur:
        shards.append(cur)
    return shards


def eval_cases(ctx, outdir, lines, built, tag, classes=None):
    """returns (list of (case index, model outcome, model tree) mismatches, number of shards, ok shards).
    If `classes` is a dict it is filled with {case index: model's in_F8 bit}."""
    from driver import coq_values, parse_term
    shards = shard_cases(lines)
    files = {}
    for k, sh in enumerate(shards):
        vf = os.path.join(outdir, "%s_%d.v" % (tag, k))
        with open(vf, "w") as f:
            f.write(HDR)
            f.write("Definition cs : list scase := [\n" + ";\n".join(ln for _, ln in sh) + "].\n")
            f.write("Eval vm_compute in smismatches cs.\n")
            if classes is not None:
                f.write("Eval vm_compute in f8_bits cs.\n")
        files[vf] = sh
    if not built:
        ctx.disagreements.append({"what": "Coq development does not build; correspondence not evaluated"})
        return [], len(shards), 0
    res = ctx.coq_eval_many(list(files), timeout=1800)
    mism = []
    ok = 0
    for vf, (rc, o) in sorted(res.items()):
        sh = files[vf]
        if rc != 0:
            ctx.disagreements.append({"what": "correspondence shard failed to evaluate", "shard": os.path.basename(vf),
                                      "cases": [i for i, _ in sh][:3], "output": o[-800:]})
            continue
        vals = coq_values(o)
        if len(vals) != (2 if classes is not None else 1):
            ctx.disagreements.append({"what": "unparsable shard output", "shard": os.path.basename(vf), "output": o[-600:]})
            continue
        ok += 1
        for item in parse_term(vals[0]):
            (j, outcome, tree) = item
            mism.append((sh[j][0], outcome, tree))
        if classes is not None:
            for j, b in enumerate(parse_term(vals[1])):
                classes[sh[j][0]] = bool(b)
    return mism, len(shards), ok


def fmt_outcome(o):
    if isinstance(o, tuple):
        return " ".join(fmt_outcome(x) for x in o)
    return str(o)


def tree_paths(tree):
    """model tree (list of (path list, None|('Some',(tok,png)))) -> {joined path: 'dir'|tok}"""
    d = {}
    for ent in tree:
        p, n = ent
        key = "/".join(p)
        if n == "None":
            d[key] = "dir"
        else:
            d[key] = n[1][0] if isinstance(n, tuple) else n
    return d
