"""Anchors of C14, regenerated from norad's source on every run (DESIGN.md 4.1).

Reads src/fontinfo.rs, src/upconversion.rs and src/font.rs with regular expressions and bracket
matching (no Rust parser) and produces Gallina constants:

  extracted_v3_schema   every field of `pub struct FontInfo` as (serde key, type class)
  extracted_v2_schema   every field of `struct FontInfoV2`   as (key, type class)
  extracted_v1_schema   every field of `struct FontInfoV1`   as (key, type class)
  extracted_v2_map      every line `field: expr` of the V2 struct literal as (legacy key, v3 key, shape)
  extracted_v1_map      the same for the V1 struct literal
  extracted_font_style / extracted_ms_char_set / extracted_width_name   the three match tables
  extracted_weight_rule the weightValue arm (-1 dropped, otherwise unsigned_abs)
  extracted_panose      `impl From<Os2PanoseV2> for Os2Panose`: per component (target, source, op)
  extracted_hint_map    the assignments of upconvert_ufov1_robofab_data (v3 key, hint key, shape)
  extracted_lib_keys    the serde renames of `LibData` and the keys removed from the lib
  extracted_version_set `meta.format_version = FormatVersion::V3` present and unconditional

Every step raises AnchorError when the source no longer has the expected shape: a silent
fall-back would untie the model from the code.
"""
import os
import re


class AnchorError(Exception):
    pass


def need(cond, msg):
    if not cond:
        raise AnchorError(msg)


def strip_comments(src):
    """remove // comments (not inside string literals) and /* */ comments"""
    out = []
    i = 0
    n = len(src)
    while i < n:
        c = src[i]
        if c == '"':
            j = i + 1
            while j < n and src[j] != '"':
                j += 2 if src[j] == "\\" else 1
            out.append(src[i:j + 1])
            i = j + 1
        elif src.startswith("//", i):
            j = src.find("\n", i)
            i = n if j < 0 else j
        elif src.startswith("/*", i):
            j = src.find("*/", i)
            need(j >= 0, "unterminated block comment")
            i = j + 2
        else:
            out.append(c)
            i += 1
    return "".join(out)


def match_brace(src, i, open_c="{", close_c="}"):
    """src[i] is an opening bracket; returns the index of its partner (string literals skipped)"""
    need(src[i] == open_c, "expected %r at %d" % (open_c, i))
    depth = 0
    n = len(src)
    while i < n:
        c = src[i]
        if c == '"':
            i += 1
            while i < n and src[i] != '"':
                i += 2 if src[i] == "\\" else 1
        elif c == open_c:
            depth += 1
        elif c == close_c:
            depth -= 1
            if depth == 0:
                return i
        i += 1
    raise AnchorError("unbalanced %s" % open_c)


def split_top(body, sep=","):
    """split at separators that are not nested inside (), [], {} or string literals"""
    parts = []
    depth = 0
    cur = []
    i = 0
    n = len(body)
    while i < n:
        c = body[i]
        if c == '"':
            j = i + 1
            while j < n and body[j] != '"':
                j += 2 if body[j] == "\\" else 1
            cur.append(body[i:j + 1])
            i = j + 1
            continue
        if c in "([{":
            depth += 1
        elif c in ")]}":
            depth -= 1
        if c == sep and depth == 0:
            parts.append("".join(cur))
            cur = []
        elif c == "=" and sep == "=>" and False:
            pass
        else:
            cur.append(c)
        i += 1
    if "".join(cur).strip():
        parts.append("".join(cur))
    return [p.strip() for p in parts if p.strip()]


def squeeze(s):
    return re.sub(r"\s+", "", s)


def camel(snake):
    """serde's rename_all = "camelCase" applied to a snake_case field name"""
    parts = snake.split("_")
    return parts[0] + "".join(p[:1].upper() + p[1:] for p in parts[1:])


# ------------------------------------------------------------------------------------------ types
TYPE_CLASS = {
    "f64": "TNum", "IntegerOrFloat": "TNum", "Float": "TNum",
    "Integer": "TI32", "i32": "TI32",
    "NonNegativeInteger": "TU32", "u32": "TU32",
    "NonNegativeIntegerOrFloat": "TNonNegNum",
    "String": "TStr", "bool": "TBool",
    "Bitlist": "TBits", "Vec<u8>": "TBits",
    "Vec<IntegerOrFloat>": "TNums", "Vec<f64>": "TNums", "Vec<Float>": "TNums",
    "Os2FamilyClass": "TFamilyClass", "Os2Panose": "TPanose", "Os2PanoseV2": "TPanoseV2",
    "StyleMapStyle": "TStyle", "Os2WidthClass": "TWidth",
    "PostscriptWindowsCharacterSet": "TCharSet",
}
# v3-only structured attributes that no legacy conversion can produce
COMPLEX = {"Vec<Guideline>", "Vec<GaspRangeRecord>", "Vec<NameRecord>", "WoffMetadataCopyright",
           "WoffMetadataCredits", "WoffMetadataDescription", "Vec<WoffMetadataExtensionRecord>",
           "WoffMetadataLicense", "WoffMetadataLicensee", "WoffMetadataTrademark",
           "WoffMetadataUniqueId", "WoffMetadataVendor"}


def struct_fields(src, header_re, what):
    m = re.search(header_re, src)
    need(m, "struct %s not found" % what)
    i = src.index("{", m.end() - 1)
    j = match_brace(src, i)
    attrs = src[max(0, m.start() - 400):m.start()]
    body = src[i + 1:j]
    fields = []
    pending_rename = None
    # walk the items: attributes #[...] and `pub? name: Option<T>,`
    pos = 0
    item_re = re.compile(r"\s*(#\[(?P<attr>[^\]]*)\]|(?P<vis>pub(\([a-z]+\))?\s+)?(?P<name>[A-Za-z_][A-Za-z0-9_]*)\s*:\s*(?P<ty>[^,]+),)")
    while True:
        mm = item_re.match(body, pos)
        if not mm:
            need(body[pos:].strip() == "", "unexpected text in struct %s: %r" % (what, body[pos:pos + 60]))
            break
        pos = mm.end()
        if mm.group("attr") is not None:
            a = mm.group("attr")
            r = re.search(r'serde\s*\(\s*rename\s*=\s*"([^"]+)"', a)
            if r:
                pending_rename = r.group(1)
            continue
        ty = squeeze(mm.group("ty"))
        mo = re.match(r"^Option<(.+)>$", ty)
        need(mo, "field %s of %s is not an Option: %s" % (mm.group("name"), what, ty))
        fields.append((mm.group("name"), pending_rename, mo.group(1)))
        pending_rename = None
    return attrs, fields


def type_aliases(src):
    al = {}
    for m in re.finditer(r"pub type (\w+) = ([^;]+);", src):
        al[m.group(1)] = squeeze(m.group(2))
    return al


def classify_type(ty, aliases, what):
    if ty in COMPLEX:
        return "TComplex"
    if ty in TYPE_CLASS:
        c = TYPE_CLASS[ty]
        # the alias must still mean what the class says
        if ty in aliases:
            base = aliases[ty]
            need(TYPE_CLASS.get(base) == c, "type alias %s = %s no longer has class %s" % (ty, base, c))
        return c
    raise AnchorError("unknown field type %s (%s)" % (ty, what))


# -------------------------------------------------------------------------------- struct literals
SHAPES = [
    (r"^{p}\.(\w+)$", "KCopy"),
    (r"^{p}\.(\w+)\.map\(\|v\|v\.round\(\)asInteger\)$", "KRoundI32"),
    (r"^{p}\.(\w+)\.map\(\|v\|v\.round\(\)\.abs\(\)asNonNegativeInteger\)$", "KRoundAbsU32"),
    (r"^{p}\.(\w+)\.map\(\|v\|NonNegativeIntegerOrFloat::new\(v\.abs\(\)\)\.unwrap\(\)\)$", "KAbsNum"),
    (r"^{p}\.(\w+)\.map\(\|v\|v\.unsigned_abs\(\)\)$", "KAbsInt"),
    (r"^{p}\.(\w+)\.map\(Os2Panose::from\)$", "KAbsInts"),
]


def literal_entries(src, version, var):
    m = re.search(r"FormatVersion::%s\s*=>\s*\{" % version, src)
    need(m, "arm FormatVersion::%s not found" % version)
    arm_end = match_brace(src, m.end() - 1)
    arm = src[m.end():arm_end]
    need(re.search(r"let\s+%s\s*:\s*FontInfo%s\s*=\s*plist::from_file\(path\)" % (var, version), arm),
         "the %s arm no longer deserialises FontInfo%s from the file" % (version, version))
    m2 = re.search(r"let\s+fontinfo\s*=\s*FontInfo\s*\{", arm)
    need(m2, "struct literal of the %s arm not found" % version)
    lit_end = match_brace(arm, m2.end() - 1)
    body = arm[m2.end():lit_end]
    after = arm[lit_end:]
    need(re.search(r"fontinfo\s*\.validate\(\)\s*\.map_err\(FontInfoLoadError::FontInfoUpconversion\)\?\s*;\s*Ok\(fontinfo\)",
                   after), "the %s arm no longer validates the converted info before returning it" % version)
    items = split_top(body)
    need(items and squeeze(items[-1]) == "..FontInfo::default()", "the %s literal does not end with ..FontInfo::default()" % version)
    entries = []
    for it in items[:-1]:
        mm = re.match(r"^([a-z_0-9]+)\s*:\s*(.*)$", it, re.S)
        need(mm, "unexpected item in the %s literal: %r" % (version, it[:80]))
        entries.append((mm.group(1), mm.group(2)))
    return entries


def parse_match_arms(expr, scrutinee_re, what):
    """`match <scrutinee> { Some(v) => match v[.as_ref()] { arms }, None => None, }` -> arms text list"""
    e = expr.strip()
    m = re.match(r"^match\s+%s\s*\{" % scrutinee_re, e)
    need(m, "%s: outer match not found" % what)
    end = match_brace(e, m.end() - 1)
    need(e[end + 1:].strip() == "", "%s: trailing text after the match" % what)
    outer = split_top(e[m.end():end])
    need(len(outer) == 2, "%s: outer match must have the arms Some(v) and None" % what)
    need(squeeze(outer[1]) == "None=>None", "%s: second outer arm is not None => None" % what)
    mm = re.match(r"^Some\(v\)\s*=>\s*match\s+(v|v\.as_ref\(\))\s*\{", outer[0])
    need(mm, "%s: first outer arm is not Some(v) => match v {" % what)
    iend = match_brace(outer[0], mm.end() - 1)
    need(outer[0][iend + 1:].strip() == "", "%s: trailing text after the inner match" % what)
    return split_top(outer[0][mm.end():iend])


def enum_discriminants(src, name):
    m = re.search(r"pub enum %s\s*\{" % name, src)
    need(m, "enum %s not found" % name)
    end = match_brace(src, m.end() - 1)
    body = re.sub(r"#\[[^\]]*\]", "", src[m.end():end])
    d = {}
    for it in split_top(body):
        mm = re.match(r"^(\w+)\s*=\s*(\d+)$", it)
        need(mm, "enum %s: variant without explicit discriminant: %r" % (name, it))
        d[mm.group(1)] = int(mm.group(2))
    need(re.search(r"Deserialize_repr[^\]]*\]\s*#\[repr\(u8\)\]\s*pub enum %s\b" % name, src),
         "enum %s is no longer a repr(u8) serde_repr enum" % name)
    return d


def style_names(src):
    m = re.search(r"impl Serialize for StyleMapStyle\s*\{", src)
    need(m, "impl Serialize for StyleMapStyle not found")
    end = match_brace(src, m.end() - 1)
    d = dict(re.findall(r'StyleMapStyle::(\w+)\s*=>\s*serializer\.serialize_str\("([^"]*)"\)', src[m.end():end]))
    need(len(d) == 4, "StyleMapStyle serialisation: expected 4 arms")
    m = re.search(r"impl<'de> Deserialize<'de> for StyleMapStyle\s*\{", src)
    need(m, "impl Deserialize for StyleMapStyle not found")
    end = match_brace(src, m.end() - 1)
    dd = {v: k for k, v in re.findall(r'"([^"]*)"\s*=>\s*Ok\(StyleMapStyle::(\w+)\)', src[m.end():end])}
    need(dd == d, "StyleMapStyle: serialised and deserialised names differ")
    return d


def gstr(s):
    need('"' not in s and "\\" not in s, "unexpected character in %r" % s)
    return '"%s"' % s


def glist(items):
    return "[" + ";\n   ".join(items) + "]"


def gz(n):
    return "(%d)" % n if n < 0 else "%d" % n


def extract(repo):
    fi_path = os.path.join(repo, "src", "fontinfo.rs")
    up_path = os.path.join(repo, "src", "upconversion.rs")
    font_path = os.path.join(repo, "src", "font.rs")
    raw = open(fi_path).read()
    # the test module is not part of the mechanism
    cut = raw.find("#[cfg(test)]")
    src = strip_comments(raw if cut < 0 else raw[:cut])
    aliases = type_aliases(src)
    need(aliases.get("Integer") == "i32" and aliases.get("NonNegativeInteger") == "u32"
         and aliases.get("IntegerOrFloat") == "f64" and aliases.get("Float") == "f64"
         and aliases.get("Bitlist") == "Vec<u8>", "the numeric type aliases changed: %r" % aliases)
    need(re.search(r"pub struct NonNegativeIntegerOrFloat\(f64\);", src), "NonNegativeIntegerOrFloat is no longer a f64 newtype")
    m = re.search(r"pub fn new\(value: f64\) -> Option<Self>\s*\{", src)
    need(m, "NonNegativeIntegerOrFloat::new not found")
    body = squeeze(src[m.end():match_brace(src, m.end() - 1)])
    need(body == "ifvalue.is_sign_positive(){Some(NonNegativeIntegerOrFloat(value))}else{None}",
         "NonNegativeIntegerOrFloat::new changed: %s" % body)

    out = {}
    # ---- the three structs
    attrs, f3 = struct_fields(src, r"pub struct FontInfo\s*\{", "FontInfo")
    need('rename_all = "camelCase"' in attrs and "deny_unknown_fields" in attrs,
         "FontInfo lost rename_all/deny_unknown_fields")
    v3 = []
    v3key = {}
    for name, ren, ty in f3:
        key = ren if ren else camel(name)
        v3key[name] = key
        v3.append((key, classify_type(ty, aliases, "FontInfo." + name)))
    out["v3_schema"] = v3
    for ver in ("V2", "V1"):
        attrs, fs = struct_fields(src, r"struct FontInfo%s\s*\{" % ver, "FontInfo" + ver)
        need("deny_unknown_fields" in attrs and "rename_all" not in attrs, "FontInfo%s serde attributes changed" % ver)
        sch = []
        for name, ren, ty in fs:
            need(ren is None, "FontInfo%s.%s has a serde rename" % (ver, name))
            sch.append((name, classify_type(ty, aliases, "FontInfo%s.%s" % (ver, name))))
        out[ver.lower() + "_schema"] = sch

    # ---- enumerations
    width = enum_discriminants(src, "Os2WidthClass")
    charset = enum_discriminants(src, "PostscriptWindowsCharacterSet")
    styles = style_names(src)
    out["width_codes"] = sorted(width.values())
    out["charset_codes"] = sorted(charset.values())
    out["style_names"] = sorted(styles.values())

    # ---- the two struct literals
    tables = {}
    for ver, var in (("V2", "fontinfo_v2"), ("V1", "fontinfo_v1")):
        rows = []
        legacy_fields = dict(out[ver.lower() + "_schema"])
        for field, expr in literal_entries(src, ver, var):
            need(field in v3key, "%s literal sets an unknown FontInfo field %s" % (ver, field))
            sq = squeeze(expr)
            shape = None
            legacy = None
            for pat, sh in SHAPES:
                mm = re.match(pat.format(p=var), sq)
                if mm:
                    shape, legacy = sh, mm.group(1)
                    break
            if shape is None and sq.startswith("match" + var + "."):
                legacy = re.match(r"^match%s\.(\w+)\{" % var, sq).group(1)
                arms = parse_match_arms(expr, r"%s\s*\.\s*%s" % (var, legacy), "%s.%s" % (ver, field))
                if legacy == "weightValue":
                    need([squeeze(a) for a in arms] == ["-1=>None", "_=>Some(v.unsigned_abs())"],
                         "weightValue arms changed: %r" % arms)
                    shape = "KWeight"
                else:
                    kind = {"widthName": ("KWidthName", "Os2WidthClass", "UnknownWidthClass(v.clone())", width),
                            "msCharSet": ("KCharSet", "PostscriptWindowsCharacterSet", "UnknownMsCharSet(v)", charset),
                            "fontStyle": ("KFontStyle", "StyleMapStyle", "UnknownFontStyle(v)", styles)}.get(legacy)
                    need(kind, "unexpected match on legacy field %s" % legacy)
                    shape, enum, errk, codes = kind
                    tab = []
                    need(arms, "empty match")
                    default = squeeze(arms[-1])
                    need(default == "_=>{returnErr(FontInfoLoadError::FontInfoUpconversion(FontInfoErrorKind::%s,))}" % errk
                         or default == "_=>{returnErr(FontInfoLoadError::FontInfoUpconversion(FontInfoErrorKind::%s))}" % errk,
                         "default arm of the %s table changed: %s" % (legacy, default))
                    for a in arms[:-1]:
                        mm = re.match(r"^(.*?)\s*=>\s*Some\(%s::(\w+)\)$" % enum, a.strip(), re.S)
                        need(mm, "unexpected arm in the %s table: %r" % (legacy, a))
                        need(mm.group(2) in codes, "unknown variant %s::%s" % (enum, mm.group(2)))
                        for pat in mm.group(1).split("|"):
                            pat = pat.strip()
                            if legacy == "widthName":
                                ms = re.match(r'^"([^"\\]*)"$', pat)
                                need(ms, "width name pattern is not a string literal: %r" % pat)
                                tab.append((ms.group(1), codes[mm.group(2)]))
                            else:
                                need(re.match(r"^-?\d+$", pat), "pattern is not an integer literal: %r" % pat)
                                tab.append((int(pat), codes[mm.group(2)]))
                    tables[legacy] = tab
            need(shape is not None, "%s literal: unrecognised conversion for %s: %s" % (ver, field, sq[:120]))
            need(legacy in legacy_fields, "%s literal reads unknown legacy field %s" % (ver, legacy))
            rows.append((legacy, v3key[field], shape))
        out[ver.lower() + "_map"] = rows
    for k in ("widthName", "msCharSet", "fontStyle"):
        need(k in tables, "table %s not found in the V1 literal" % k)
    out["tables"] = tables

    # ---- panose conversion
    m = re.search(r"impl From<Os2PanoseV2> for Os2Panose\s*\{", src)
    need(m, "impl From<Os2PanoseV2> for Os2Panose not found")
    body = src[m.end():match_brace(src, m.end() - 1)]
    comps = re.findall(r"(\w+)\s*:\s*value\.(\w+)\.(\w+)\(\)", body)
    order3 = re.search(r"pub struct Os2Panose\s*\{", src)
    b3 = src[order3.end():match_brace(src, order3.end() - 1)]
    names3 = re.findall(r"pub (\w+)\s*:\s*NonNegativeInteger", b3)
    order2 = re.search(r"struct Os2PanoseV2\s*\{", src)
    b2 = src[order2.end():match_brace(src, order2.end() - 1)]
    names2 = re.findall(r"(\w+)\s*:\s*Integer", b2)
    need(len(names3) == 10 and names3 == names2, "panose component lists changed")
    need(len(comps) == 10, "panose conversion: expected 10 components")
    pan = []
    for (t, s, op) in comps:
        pan.append((names3.index(t), names2.index(s), op))
    out["panose"] = pan
    # deserialisers and serialiser of the panose structs keep the positional order
    for nm, names in (("Os2PanoseV2", names2), ("Os2Panose", names3)):
        mm = re.search(r"impl<'de> Deserialize<'de> for %s\s*\{" % nm, src)
        need(mm, "deserialiser of %s not found" % nm)
        bb = src[mm.end():match_brace(src, mm.end() - 1)]
        pos = re.findall(r"(\w+)\s*:\s*values\[(\d+)\]", bb)
        need([p[0] for p in pos] == names and [int(p[1]) for p in pos] == list(range(10)),
             "positional order of %s changed" % nm)
        need("values.len() != 10" in bb, "length check of %s changed" % nm)

    # ---- upconversion.rs
    usrc = open(up_path).read()
    cut = usrc.find("#[cfg(test)]")
    usrc = strip_comments(usrc if cut < 0 else usrc[:cut])
    m = re.search(r"pub\(crate\) fn upconvert_ufov1_robofab_data\s*\(", usrc)
    need(m, "upconvert_ufov1_robofab_data not found")
    i = usrc.index("{", match_brace(usrc, m.end() - 1, "(", ")"))
    fn = usrc[i + 1:match_brace(usrc, i)]
    m = re.search(r"struct LibData\s*\{", fn)
    need(m, "struct LibData not found")
    lib_body = fn[m.end():match_brace(fn, m.end() - 1)]
    libkeys = re.findall(r'#\[serde\(rename\s*=\s*"([^"]+)"\)\]\s*(\w+)\s*:\s*Option<(.+)>,', lib_body)
    need(len(libkeys) == 4, "LibData: expected 4 renamed optional fields")
    out["lib_keys"] = [(k, squeeze(t)) for k, _, t in libkeys]
    libfield = {f: k for k, f, _ in libkeys}
    m = re.search(r'#\[serde\(rename_all\s*=\s*"camelCase"\)\]\s*struct PsHintingData\s*\{', fn)
    need(m, "struct PsHintingData (camelCase) not found")
    hb = fn[m.end():match_brace(fn, m.end() - 1)]
    hfields = [(n, squeeze(t)) for n, t in re.findall(r"(\w+)\s*:\s*Option<(.+)>,", hb)]
    hty = {"f64": "TNum", "bool": "TBool", "Vec<f64>": "TNums", "Vec<Vec<f64>>": "TNumss"}
    for n, t in hfields:
        need(t in hty, "PsHintingData.%s has unexpected type %s" % (n, t))
    out["hint_schema"] = [(camel(n), hty[t]) for n, t in hfields]
    need("deny_unknown_fields" not in fn, "LibData/PsHintingData now deny unknown fields")
    m = re.search(r"if let Some\(ps_hinting_data\)\s*=\s*lib_data\.ps_hinting_data\s*\{", fn)
    need(m, "hint data block not found")
    blk_end = match_brace(fn, m.end() - 1)
    blk = fn[m.end():blk_end]
    hint_rows = []
    pos = 0
    stmt_re = re.compile(
        r"\s*(?:font_info\.(?P<t1>\w+)\s*=\s*ps_hinting_data\.(?P<s1>\w+)\s*;"
        r"|if let Some\((?P<b>\w+)\)\s*=\s*ps_hinting_data\.(?P<s2>\w+)\s*\{\s*font_info\.(?P<t2>\w+)\s*=\s*"
        r"Some\((?P<b2>\w+)\.into_iter\(\)\.flatten\(\)\.collect\(\)\)\s*;\s*\}\s*;?"
        r"|font_info\.validate\(\)\.map_err\(FontLoadError::FontInfoV1Upconversion\)\?\s*;)")
    saw_validate = False
    while True:
        mm = stmt_re.match(blk, pos)
        if not mm:
            need(blk[pos:].strip() == "", "unexpected statement in the hint data block: %r" % blk[pos:pos + 80])
            break
        pos = mm.end()
        need(not saw_validate, "statements after validate() in the hint data block")
        if mm.group("t1"):
            hk = camel(mm.group("s1"))
            ht = dict(out["hint_schema"]).get(hk)
            need(ht in ("TNum", "TBool", "TNums"), "hint field %s is assigned directly but has type %s" % (hk, ht))
            hint_rows.append((v3key.get(mm.group("t1")), hk, "(HAssign H%s)" % ht[1:]))
        elif mm.group("t2"):
            need(mm.group("b") == mm.group("b2"), "flatten of a different binding")
            hk = camel(mm.group("s2"))
            need(dict(out["hint_schema"]).get(hk) == "TNumss", "hint field %s is flattened but is not a list of lists" % hk)
            hint_rows.append((v3key.get(mm.group("t2")), hk, "HFlatten"))
        else:
            saw_validate = True
    need(saw_validate, "the hint data block no longer re-validates the font info")
    need(all(r[0] for r in hint_rows), "hint data assigned to an unknown FontInfo field")
    out["hint_map"] = hint_rows
    removed = re.findall(r'lib\.remove\("([^"]+)"\)\s*;', fn[blk_end:])
    out["lib_removed"] = removed
    need(libfield.get("ps_hinting_data") and libfield.get("feature_classes") and libfield.get("feature_order")
         and libfield.get("features"), "LibData field names changed")
    out["lib_roles"] = [("hint", libfield["ps_hinting_data"]), ("classes", libfield["feature_classes"]),
                        ("order", libfield["feature_order"]), ("features", libfield["features"])]
    # feature text assembly
    feat = squeeze(fn[:m.start()])
    need("ifletSome(feature_classes)=lib_data.feature_classes{features.push_str(&feature_classes);}" in feat,
         "feature classes are no longer pushed first")
    need("features.push('\\n');" in feat, "the newline between classes and feature blocks moved")
    need("ifletSome(txt)=features_split.get(&key){features.push_str(txt);}" in feat,
         "feature blocks are no longer concatenated by key lookup")
    need("letorder:Vec<String>=ifletSome(feature_order)=lib_data.feature_order{feature_order}else{"
         "features_split.keys().cloned().collect::<Vec<String>>()};" in feat,
         "the block order is no longer: the order list if present, else the keys of the features map")
    need("forkeyinorder{" in feat, "the blocks are no longer emitted by iterating the order")
    fty = dict(out["lib_keys"]).get(libfield["features"])
    if fty == "BTreeMap<String,String>":
        out["feature_order_mode"] = "OrderSorted"      # keys() of a BTreeMap: ascending
    elif fty == "HashMap<String,String>":
        out["feature_order_mode"] = "OrderHash"        # hash iteration order
    else:
        raise AnchorError("features map has unexpected type %s" % fty)
    need(squeeze(fn[blk_end:]).endswith("iffeatures.is_empty(){Ok(None)}else{Ok(Some(features))}"),
         "the function no longer returns None for an empty feature text")

    # ---- font.rs: call site and version
    fsrc = open(font_path).read()
    cut = fsrc.find("#[cfg(test)]")
    fsrc = strip_comments(fsrc if cut < 0 else fsrc[:cut])
    m = re.search(r"fn load_impl\s*\(", fsrc)
    need(m, "Font::load_impl not found")
    i = fsrc.index("{", match_brace(fsrc, m.end() - 1, "(", ")"))
    li = fsrc[i + 1:match_brace(fsrc, i)]
    sq = squeeze(li)
    need("ifmeta.format_version==FormatVersion::V1&&lib_path.exists(){ifletSome(features_upgraded)="
         "upconversion::upconvert_ufov1_robofab_data(&lib_path,&mutlib,&mutfont_info)?{if!features_upgraded.is_empty(){"
         "features=features_upgraded;}}}" in sq, "call site of upconvert_ufov1_robofab_data changed")
    need(sq.count("meta.format_version=FormatVersion::V3;") == 1, "format version is no longer set to V3 exactly once")
    # the assignment is a top-level statement of load_impl (depth 0)
    idx = li.index("meta.format_version = FormatVersion::V3;") if "meta.format_version = FormatVersion::V3;" in li else -1
    need(idx >= 0, "format version assignment has an unexpected layout")
    depth = 0
    for c in li[:idx]:
        depth += c == "{"
        depth -= c == "}"
    need(depth == 0, "format version assignment is now conditional")
    need("load_fontinfo(&fontinfo_path,&meta,&mutlib)?" in sq and
         "FontInfo::from_file(fontinfo_path,meta.format_version,lib).map_err(FontLoadError::FontInfo)?" in squeeze(fsrc),
         "fontinfo loading call chain changed")
    # what the request switches select, and what they do not: the lib and features.fea are read on
    # request; the RoboFab step above is guarded by the FILE's existence, not by request.lib
    need("letmutlib=ifrequest.lib&&lib_path.exists(){load_lib(&lib_path)?}else{Plist::new()};" in sq,
         "the lib is no longer loaded exactly when requested and present")
    need("letmutfeatures=ifrequest.features&&features_path.exists(){load_features(&features_path)?}else{Default::default()};" in sq,
         "features.fea is no longer loaded exactly when requested and present")
    need(sq.count("lib.remove(PUBLIC_OBJECT_LIBS_KEY);") == 1, "public.objectLibs is no longer removed from the lib exactly once")
    need(sq.index("load_fontinfo(&fontinfo_path,&meta,&mutlib)?") < sq.index("lib.remove(PUBLIC_OBJECT_LIBS_KEY);")
         < sq.index("upconversion::upconvert_ufov1_robofab_data("), "order of font info / objectLibs removal / lib data changed")
    need("request" not in sq[sq.index("ifmeta.format_version==FormatVersion::V1&&lib_path.exists()"):
                            sq.index("meta.format_version=FormatVersion::V3;")],
         "the lib data step now depends on the request")
    st = strip_comments(open(os.path.join(repo, "src", "shared_types.rs")).read())
    mk = re.search(r'pub static PUBLIC_OBJECT_LIBS_KEY\s*:\s*&str\s*=\s*"([^"]+)"\s*;', st)
    need(mk, "PUBLIC_OBJECT_LIBS_KEY not found")
    out["object_libs_key"] = mk.group(1)
    need(re.search(r"pub fn load<P: AsRef<Path>>\(path: P\) -> Result<Font, FontLoadError>\s*\{\s*"
                   r"Self::load_requested_data\(path, DataRequest::all\(\)\)\s*\}", fsrc),
         "Font::load is no longer load_requested_data(DataRequest::all())")
    out["version_set"] = True
    return out


def render(a):
    L = []
    L.append("(* generated by lib/anchors_c14.py from norad's src/ -- do not edit *)")
    L.append("Require Import Norad.Model.SpecTables Norad.Model.Upconv.")
    L.append("Open Scope string_scope. Open Scope Z_scope.")

    def schema(name, rows):
        L.append("Definition %s : list (string * vty) :=\n  %s." % (name, glist(["(%s, %s)" % (gstr(k), t) for k, t in rows])))
    schema("extracted_v3_schema", a["v3_schema"])
    schema("extracted_v2_schema", a["v2_schema"])
    schema("extracted_v1_schema", a["v1_schema"])
    for ver in ("v2", "v1"):
        L.append("Definition extracted_%s_map : list (string * string * kind) :=\n  %s." % (
            ver, glist(["(%s, %s, %s)" % (gstr(l), gstr(k), s) for l, k, s in a[ver + "_map"]])))
    t = a["tables"]
    L.append("Definition extracted_font_style : list (Z * string) :=\n  %s." % glist(
        ["(%s, %s)" % (gz(c), gstr(n)) for c, n in t["fontStyle"]]))
    L.append("Definition extracted_ms_char_set : list (Z * Z) :=\n  %s." % glist(
        ["(%s, %s)" % (gz(c), gz(n)) for c, n in t["msCharSet"]]))
    L.append("Definition extracted_width_name : list (string * Z) :=\n  %s." % glist(
        ["(%s, %s)" % (gstr(c), gz(n)) for c, n in t["widthName"]]))
    L.append("Definition extracted_width_codes : list Z := %s." % glist([gz(c) for c in a["width_codes"]]))
    L.append("Definition extracted_charset_codes : list Z := %s." % glist([gz(c) for c in a["charset_codes"]]))
    L.append("Definition extracted_style_names : list string := %s." % glist([gstr(c) for c in a["style_names"]]))
    L.append("Definition extracted_panose : list (Z * Z * string) := %s." % glist(
        ["(%d, %d, %s)" % (t_, s_, gstr(op)) for t_, s_, op in a["panose"]]))
    L.append("Definition extracted_hint_schema : list (string * hty) :=\n  %s." % glist(
        ["(%s, H%s)" % (gstr(k), t_[1:]) for k, t_ in a["hint_schema"]]))
    L.append("Definition extracted_hint_map : list (string * string * hshape) :=\n  %s." % glist(
        ["(%s, %s, %s)" % (gstr(k), gstr(h), s) for k, h, s in a["hint_map"]]))
    L.append("Definition extracted_lib_roles : list (string * string) := %s." % glist(
        ["(%s, %s)" % (gstr(r), gstr(k)) for r, k in a["lib_roles"]]))
    L.append("Definition extracted_lib_types : list (string * string) := %s." % glist(
        ["(%s, %s)" % (gstr(k), gstr(t_)) for k, t_ in a["lib_keys"]]))
    L.append("Definition extracted_lib_removed : list string := %s." % glist([gstr(k) for k in a["lib_removed"]]))
    L.append("Definition extracted_feature_order_mode : order_mode := %s." % a["feature_order_mode"])
    L.append("Definition extracted_version_set : bool := %s." % ("true" if a["version_set"] else "false"))
    L.append("Definition extracted_object_libs_key : string := %s." % gstr(a["object_libs_key"]))
    return "\n".join(L) + "\n"


if __name__ == "__main__":
    import sys
    a = extract(sys.argv[1] if len(sys.argv) > 1 else "/repo")
    if len(sys.argv) > 2 and sys.argv[2] == "--json":
        import json
        print(json.dumps(a, indent=1))
    else:
        print(render(a))
