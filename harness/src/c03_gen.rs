//! C03 generators: corpus mutation (bytes, XML tokens, directory trees) and API histories.
use super::{fnv, CaseLog};
use crate::util::Rng;
use norad::designspace::DesignSpaceDocument;
use norad::{
    AffineTransform, Anchor, Color, Component, Contour, ContourPoint, DataRequest, Font, FormatVersion, Glyph, Guideline,
    Identifier, Image, Layer, LayerContents, Line, Name, PointType, QuoteChar, WriteOptions,
};
use std::collections::BTreeMap;
use std::ffi::OsString;
use std::os::unix::ffi::{OsStrExt, OsStringExt};
use std::path::{Path, PathBuf};

// ------------------------------------------------------------------------------------ corpus
#[derive(Clone)]
pub enum Node {
    File(Vec<u8>),
    Dir,
    Symlink(Vec<u8>),
}
pub type Tree = BTreeMap<Vec<u8>, Node>;

pub struct Env {
    pub work: PathBuf,
    pub glifs: Vec<(String, Vec<u8>)>,
    pub dss: Vec<(String, Vec<u8>)>,
    pub ufos: Vec<(String, Tree)>,
    pub plists: Vec<(String, Vec<u8>)>,
    counter: u64,
}

fn read_tree(root: &Path, rel: &Path, t: &mut Tree) {
    if let Ok(rd) = std::fs::read_dir(root.join(rel)) {
        let mut ents: Vec<_> = rd.filter_map(|e| e.ok()).collect();
        ents.sort_by_key(|e| e.file_name());
        for e in ents {
            let r = rel.join(e.file_name());
            let key = r.as_os_str().as_bytes().to_vec();
            match e.file_type() {
                Ok(ft) if ft.is_dir() => {
                    t.insert(key, Node::Dir);
                    read_tree(root, &r, t);
                }
                Ok(ft) if ft.is_file() => {
                    if let Ok(b) = std::fs::read(e.path()) {
                        t.insert(key, Node::File(b));
                    }
                }
                _ => {}
            }
        }
    }
}

fn find_files(dir: &Path, out: &mut Vec<PathBuf>, ufos: &mut Vec<PathBuf>) {
    if let Ok(rd) = std::fs::read_dir(dir) {
        let mut ents: Vec<_> = rd.filter_map(|e| e.ok()).collect();
        ents.sort_by_key(|e| e.file_name());
        for e in ents {
            let p = e.path();
            if p.is_dir() {
                if p.extension().map(|x| x == "ufo").unwrap_or(false) {
                    ufos.push(p.clone());
                }
                find_files(&p, out, ufos);
            } else {
                out.push(p);
            }
        }
    }
}

impl Env {
    pub fn new(repo: &Path, work: &Path) -> Env {
        let td = repo.join("testdata");
        let mut files = vec![];
        let mut ufod = vec![];
        find_files(&td, &mut files, &mut ufod);
        let mut env = Env { work: work.to_path_buf(), glifs: vec![], dss: vec![], ufos: vec![], plists: vec![], counter: 0 };
        for f in files {
            let name = f.strip_prefix(&td).unwrap_or(&f).to_string_lossy().to_string();
            let Ok(b) = std::fs::read(&f) else { continue };
            if b.len() > 200_000 {
                continue;
            }
            match f.extension().and_then(|x| x.to_str()) {
                Some("glif") => env.glifs.push((name, b)),
                Some("xml") if name.contains("glyph") => env.glifs.push((name, b)),
                Some("designspace") => env.dss.push((name, b)),
                Some("plist") => env.plists.push((name, b)),
                _ => {}
            }
        }
        for u in ufod {
            let mut t = Tree::new();
            read_tree(&u, Path::new(""), &mut t);
            env.ufos.push((u.strip_prefix(&td).unwrap_or(&u).to_string_lossy().to_string(), t));
        }
        if env.glifs.is_empty() || env.ufos.is_empty() || env.dss.is_empty() {
            eprintln!("c03: corpus not found under {}", td.display());
            std::process::exit(2);
        }
        env
    }
    /// a fresh directory `<work>/c<k>/l1/l2/l3` (deep, so that `../..` escapes stay inside scratch)
    fn case_dir(&mut self) -> (PathBuf, PathBuf) {
        self.counter += 1;
        let top = self.work.join(format!("c{}", self.counter));
        let deep = top.join("l1").join("l2").join("l3");
        let _ = std::fs::create_dir_all(&deep);
        (top, deep)
    }
}

fn os(b: &[u8]) -> OsString {
    OsString::from_vec(b.to_vec())
}

fn write_tree(root: &Path, t: &Tree) {
    let _ = std::fs::create_dir_all(root);
    for (k, n) in t {
        let p = root.join(os(k));
        match n {
            Node::Dir => {
                let _ = std::fs::create_dir_all(&p);
            }
            Node::File(b) => {
                if let Some(par) = p.parent() {
                    let _ = std::fs::create_dir_all(par);
                }
                let _ = std::fs::write(&p, b);
            }
            Node::Symlink(target) => {
                if let Some(par) = p.parent() {
                    let _ = std::fs::create_dir_all(par);
                }
                let _ = std::os::unix::fs::symlink(os(target), &p);
            }
        }
    }
}

// ------------------------------------------------------------------------------------ byte mutators
const HUGE: &[&str] = &[
    "1e999", "-1e999", "99999999999999999999999999", "-99999999999999999999999999", "1e-400", "NaN", "nan", "inf", "-inf", "infinity",
    "-0", "0x10", "1e", "+1", "1.", ".5", "1_000", "4294967296", "2147483648", "-2147483649", "18446744073709551616", "٣", "1e308",
    "1.7976931348623157e309", "", " 1 ", "١٢٣",
];
const BAD_UTF8: &[&[u8]] = &[b"\xff", b"\xc0\x80", b"\xe2\x82", b"\xf0\x9f\x92", b"\xed\xa0\x80", b"\xfe\xff", b"\x80", b"\xf8\x88\x80\x80\x80"];
const XML_BITS: &[&str] = &[
    "<!-- c -->", "<![CDATA[x]]>", "<?pi x?>", "&amp;", "&#0;", "&#xD800;", "&bogus;", "&#x110000;", "&lt;", "]]>", "<", ">", "&", "\"", "'",
    "<!DOCTYPE x [<!ENTITY a \"aaaaaaaaaa\"><!ENTITY b \"&a;&a;&a;&a;&a;&a;&a;&a;\"><!ENTITY c \"&b;&b;&b;&b;&b;&b;&b;&b;\">]>", "&c;", "<a/>", "</a>", "<lib>",
    "</lib>", "<lib/>", "<note/>", "<outline/>", "<dict>", "</dict>", "<array>", "</array>", "<key>public.objectLibs</key>", "<true/>", "<data>!!!</data>",
    "<date>not a date</date>", "<date>9999-99-99T99:99:99Z</date>", "<integer>1.5</integer>", "<real>x</real>", "<string>\n</plist></string>",
    "<plist version=\"1.0\">\n", "\n</plist>", "xmlns:x=\"y\"", "format=\"1\"", "format=\"2\"", "format=\"3\"", "formatMinor=\"x\"", "\r\n", "\r", "\u{0}", "\u{feff}",
    "\u{2028}", "\u{85}",
];
const SWAPS: &[(&str, &str)] = &[
    ("format=\"2\"", "format=\"1\""), ("format=\"1\"", "format=\"2\""), ("<dict>", "<array>"), ("</dict>", "</array>"), ("<integer>", "<real>"), ("</integer>", "</real>"),
    ("<string>", "<data>"), ("</string>", "</data>"), ("<true/>", "<false/>"), ("<real>", "<integer>"), ("</real>", "</integer>"), ("curve", "qcurve"), ("line", "move"),
    ("offcurve", "curve"), ("move", "offcurve"), ("yes", "no"), ("<array>", "<dict>"), ("</array>", "</dict>"), ("<key>", "<string>"), ("</key>", "</string>"),
    ("contour", "component"), ("glyph", "glif"), ("<string>", "<integer>"), ("</string>", "</integer>"), ("UTF-8", "UTF-16"), ("UTF-8", "latin1"), ("1.0", "1.1"),
];

fn find_all(h: &[u8], n: &[u8]) -> Vec<usize> {
    let mut v = vec![];
    if n.is_empty() || h.len() < n.len() {
        return v;
    }
    let mut i = 0;
    while i + n.len() <= h.len() {
        if &h[i..i + n.len()] == n {
            v.push(i);
            i += n.len();
        } else {
            i += 1;
        }
    }
    v
}

/// spans of `<...>` tags
fn tags(b: &[u8]) -> Vec<(usize, usize)> {
    let mut v = vec![];
    let mut i = 0;
    while i < b.len() {
        if b[i] == b'<' {
            if let Some(j) = b[i..].iter().position(|c| *c == b'>') {
                v.push((i, i + j + 1));
                i += j + 1;
                continue;
            }
        }
        i += 1;
    }
    v
}

fn to_utf16(b: &[u8], le: bool, bom: bool) -> Vec<u8> {
    let s = String::from_utf8_lossy(b);
    let mut out = vec![];
    if bom {
        out.extend_from_slice(if le { b"\xff\xfe" } else { b"\xfe\xff" });
    }
    for u in s.encode_utf16() {
        out.extend_from_slice(&if le { u.to_le_bytes() } else { u.to_be_bytes() });
    }
    out
}

pub fn nest_xml(depth: usize, open: &str, close: &str, inner: &str) -> String {
    let mut s = String::with_capacity(depth * (open.len() + close.len()) + inner.len());
    for _ in 0..depth {
        s.push_str(open);
    }
    s.push_str(inner);
    for _ in 0..depth {
        s.push_str(close);
    }
    s
}

/// one mutation step; `other` is another corpus item for splicing
pub fn mutate_once(rng: &mut Rng, b: &mut Vec<u8>, other: &[u8], desc: &mut String) {
    let n = b.len();
    let k = rng.below(24);
    desc.push_str(&format!(" m{}", k));
    match k {
        0 => {
            let at = rng.below(n as u64 + 1) as usize;
            b.truncate(at);
        }
        1 => {
            for _ in 0..=rng.below(4) {
                if !b.is_empty() {
                    let at = rng.below(b.len() as u64) as usize;
                    b[at] ^= 1 << rng.below(8);
                }
            }
        }
        2 => {
            if n > 0 {
                let a = rng.below(n as u64) as usize;
                let l = (rng.below(64) as usize).min(n - a);
                b.drain(a..a + l);
            }
        }
        3 => {
            if n > 0 {
                let a = rng.below(n as u64) as usize;
                let l = (rng.below(200) as usize).min(n - a);
                let chunk = b[a..a + l].to_vec();
                let at = rng.below(n as u64 + 1) as usize;
                b.splice(at..at, chunk);
            }
        }
        4 => {
            let at = rng.below(n as u64 + 1) as usize;
            let l = rng.below(8) + 1;
            let bytes: Vec<u8> = (0..l).map(|_| rng.below(256) as u8).collect();
            b.splice(at..at, bytes);
        }
        5 | 6 => {
            // swap / duplicate / delete tags
            let tg = tags(b);
            if tg.len() >= 2 {
                let (a0, a1) = tg[rng.below(tg.len() as u64) as usize];
                let (c0, c1) = tg[rng.below(tg.len() as u64) as usize];
                let ta = b[a0..a1].to_vec();
                match rng.below(3) {
                    0 => {
                        b.splice(c0..c0, ta);
                    }
                    1 => {
                        b.drain(a0..a1);
                    }
                    _ => {
                        if a1 <= c0 {
                            let tc = b[c0..c1].to_vec();
                            b.splice(c0..c1, ta);
                            b.splice(a0..a1, tc);
                        }
                    }
                }
            }
        }
        7 => {
            // shuffle / duplicate attributes inside one tag
            let tg = tags(b);
            if !tg.is_empty() {
                let (a0, a1) = tg[rng.below(tg.len() as u64) as usize];
                let inner = String::from_utf8_lossy(&b[a0..a1]).to_string();
                let mut parts: Vec<&str> = inner.trim_start_matches('<').trim_end_matches('>').split(' ').collect();
                if parts.len() > 2 {
                    let i = 1 + rng.below(parts.len() as u64 - 1) as usize;
                    let j = 1 + rng.below(parts.len() as u64 - 1) as usize;
                    if rng.chance(1, 2) {
                        parts.swap(i, j);
                    } else {
                        let p = parts[i];
                        parts.insert(j, p);
                    }
                    let s = format!("<{}>", parts.join(" "));
                    b.splice(a0..a1, s.into_bytes());
                }
            }
        }
        8 | 9 => {
            // replace a number
            let mut starts = vec![];
            let mut i = 0;
            while i < n {
                if b[i].is_ascii_digit() {
                    let s = i;
                    while i < n && (b[i].is_ascii_digit() || b[i] == b'.' || b[i] == b'-' || b[i] == b'e') {
                        i += 1;
                    }
                    starts.push((s, i));
                } else {
                    i += 1;
                }
            }
            if !starts.is_empty() {
                let (s, e) = starts[rng.below(starts.len() as u64) as usize];
                let rep = rng.pick(HUGE).as_bytes().to_vec();
                b.splice(s..e, rep);
            }
        }
        10 => {
            let at = rng.below(n as u64 + 1) as usize;
            b.splice(at..at, rng.pick(BAD_UTF8).to_vec());
        }
        11 => {
            let bom: &[u8] = *rng.pick(&[&b"\xef\xbb\xbf"[..], &b"\xff\xfe"[..], &b"\xfe\xff"[..], &b"\xff\xfe\x00\x00"[..], &b"\xef\xbb\xbf\xef\xbb\xbf"[..]]);
            b.splice(0..0, bom.to_vec());
        }
        12 => {
            *b = to_utf16(b, rng.chance(1, 2), rng.chance(3, 4));
        }
        13 => {
            if !other.is_empty() {
                let a = rng.below(n as u64 + 1) as usize;
                let c = rng.below(other.len() as u64) as usize;
                let mut nb = b[..a].to_vec();
                nb.extend_from_slice(&other[c..]);
                *b = nb;
            }
        }
        14 | 15 | 16 => {
            let at = rng.below(n as u64 + 1) as usize;
            b.splice(at..at, rng.pick(XML_BITS).as_bytes().to_vec());
        }
        17 | 18 => {
            let (from, to) = *rng.pick(SWAPS);
            let occ = find_all(b, from.as_bytes());
            if !occ.is_empty() {
                let at = occ[rng.below(occ.len() as u64) as usize];
                b.splice(at..at + from.len(), to.as_bytes().to_vec());
            }
        }
        19 => {
            // moderate nesting inside an existing array/dict/lib (deep nesting runs in child processes)
            let d = *rng.pick(&[5usize, 20, 60, 120]); // at most 4 steps: the total stays below DEPTH_CLASS
            let (open, close, inner) = *rng.pick(&[
                ("<array>", "</array>", "<integer>1</integer>"),
                ("<dict><key>k</key>", "</dict>", "<string>s</string>"),
                ("<a>", "</a>", "x"),
                ("<contour>", "</contour>", ""),
                ("<lib><dict><key>k</key>", "</dict></lib>", "<true/>"),
            ]);
            let s = nest_xml(d, open, close, inner);
            let anchors = [&b"<dict>"[..], &b"<array>"[..], &b"</outline>"[..], &b"<lib>"[..], &b"</glyph>"[..], &b"</designspace>"[..]];
            let an = *rng.pick(&anchors);
            let occ = find_all(b, an);
            let at = if occ.is_empty() { rng.below(n as u64 + 1) as usize } else { occ[rng.below(occ.len() as u64) as usize] + if an.starts_with(b"</") { 0 } else { an.len() } };
            b.splice(at..at, s.into_bytes());
        }
        22 | 23 => {
            // change the length of a flat plist array: drop or duplicate one scalar child
            let opens = find_all(b, b"<array>");
            if !opens.is_empty() {
                let a0 = opens[rng.below(opens.len() as u64) as usize] + 7;
                if let Some(rel) = find_all(&b[a0..], b"</array>").first() {
                    let a1 = a0 + rel;
                    let kids: Vec<(usize, usize)> = tags(&b[a0..a1]).into_iter().map(|(s, e)| (a0 + s, a0 + e)).collect();
                    // children = pairs <x>..</x> of scalars
                    let mut spans = vec![];
                    let mut i = 0;
                    while i + 1 < kids.len() {
                        let open = &b[kids[i].0..kids[i].1];
                        if !open.starts_with(b"</") && b[kids[i + 1].0..kids[i + 1].1].starts_with(b"</") {
                            spans.push((kids[i].0, kids[i + 1].1));
                            i += 2;
                        } else {
                            i += 1;
                        }
                    }
                    if !spans.is_empty() {
                        let (s0, s1) = spans[rng.below(spans.len() as u64) as usize];
                        if rng.chance(2, 3) {
                            b.drain(s0..s1);
                        } else {
                            let kid = b[s0..s1].to_vec();
                            b.splice(s0..s0, kid);
                        }
                    }
                }
            }
        }
        20 => {
            // replace the content of a string/key element
            let occ = find_all(b, b"<string>");
            if !occ.is_empty() {
                let at = occ[rng.below(occ.len() as u64) as usize] + 8;
                let end = b[at..].iter().position(|c| *c == b'<').map(|p| at + p).unwrap_or(at);
                let reps: &[&str] = &["", "..", "../..", "/", ".", "glyphs/..", "a/b", "\u{0}", "public.default", "glyphs", "CON", "a\nb", "\u{202e}", "x".repeat(300).leak()];
                b.splice(at..end, rng.pick(reps).as_bytes().to_vec());
            }
        }
        _ => {
            // attribute value replacement
            let occ = find_all(b, b"=\"");
            if !occ.is_empty() {
                let at = occ[rng.below(occ.len() as u64) as usize] + 2;
                let end = b[at..].iter().position(|c| *c == b'"').map(|p| at + p).unwrap_or(at);
                let reps: &[&str] = &["", " ", "0", "-1", "1e999", "NaN", "yes", "no", "true", "1,0,0", "1,1,1,1", "2,0,0,0", "move", "offcurve", "qcurve", "curve", "line", "a\u{0}b", "&#0;", "FFFFFFFF", "110000", "D800", "-41", "x".repeat(101).leak(), "é", "\u{7f}"];
                b.splice(at..end, rng.pick(reps).as_bytes().to_vec());
            }
        }
    }
}

pub fn mutate(rng: &mut Rng, src: &[u8], other: &[u8], desc: &mut String) -> Vec<u8> {
    let mut b = src.to_vec();
    let steps = match rng.below(10) {
        0 => 0,
        1..=5 => 1,
        6..=8 => 2,
        _ => 4,
    };
    for _ in 0..steps {
        mutate_once(rng, &mut b, other, desc);
        if b.len() > 400_000 {
            b.truncate(400_000);
        }
    }
    b
}

fn max_depth(b: &[u8]) -> usize {
    // nesting depth of XML elements (approximation on tags; used only for the class tag)
    let mut d: isize = 0;
    let mut m: isize = 0;
    for (s, e) in tags(b) {
        let t = &b[s..e];
        if t.starts_with(b"</") {
            d -= 1;
        } else if t.ends_with(b"/>") || t.starts_with(b"<?") || t.starts_with(b"<!") {
        } else {
            d += 1;
            m = m.max(d);
        }
    }
    m.max(0) as usize
}

// ------------------------------------------------------------------------------------ exercising values
fn opts_from(rng: &mut Rng) -> WriteOptions {
    let c = if rng.chance(1, 2) { WriteOptions::TAB } else { WriteOptions::SPACE };
    let n = rng.below(9) as usize;
    let q = if rng.chance(1, 2) { QuoteChar::Double } else { QuoteChar::Single };
    WriteOptions::new().indent(c, n).quote_char(q)
}

fn exercise_glyph(log: &mut CaseLog, g: &Glyph, opts: &WriteOptions, reparse: bool) {
    if let Some(Ok(bytes)) = log.guard("Glyph::encode_xml_with_options", || g.encode_xml_with_options(opts), |r| r.is_ok()) {
        if reparse {
            log.guard("Glyph::parse_raw(encoded)", || Glyph::parse_raw(&bytes), |r| r.is_ok());
        }
    }
    for c in &g.contours {
        log.guard("Contour::to_kurbo", || c.to_kurbo(), |r| r.is_ok());
        log.guard("Contour::is_closed", || c.is_closed(), |_| true);
    }
}

fn exercise_font(env_dir: &Path, log: &mut CaseLog, font: &Font, rng: &mut Rng, reload: bool) {
    log.guard("FontInfo::validate", || font.font_info.validate(), |r| r.is_ok());
    log.guard("Font::default_layer", || font.default_layer().len(), |_| true);
    log.guard("DataStore::iter", || font.data.iter().filter(|(_, r)| r.is_ok()).count(), |_| true);
    log.guard("ImageStore::iter", || font.images.iter().filter(|(_, r)| r.is_ok()).count(), |_| true);
    let opts = opts_from(rng);
    let target = env_dir.join("out.ufo");
    let saved = log.guard("Font::save_with_options", || font.save_with_options(&target, &opts), |r| r.is_ok());
    let mut n = 0;
    for layer in font.iter_layers() {
        for g in layer.iter() {
            if n < 12 {
                exercise_glyph(log, g, &opts, n < 3);
            }
            n += 1;
        }
    }
    if reload {
        if let Some(Ok(())) = saved {
            log.guard("Font::load(saved)", || Font::load(&target), |r| r.is_ok());
        }
    }
}

// ------------------------------------------------------------------------------------ streams
pub fn run_case(env: &mut Env, stream: &str, idx: u64, rng: &mut Rng, log: &mut CaseLog, keep: bool) {
    match stream {
        "glif" => case_glif(env, idx, rng, log, keep),
        "ufo" => case_ufo(env, idx, rng, log, keep),
        "ds" => case_ds(env, idx, rng, log, keep),
        "api" => api::case_api(env, idx, rng, log, keep),
        "names" => case_names(env, idx, rng, log),
        "values" => case_values(env, idx, rng, log, keep),
        _ => {}
    }
}

fn case_glif(env: &mut Env, idx: u64, rng: &mut Rng, log: &mut CaseLog, keep: bool) {
    let i = if (idx as usize) < env.glifs.len() { idx as usize } else { rng.below(env.glifs.len() as u64) as usize };
    let j = rng.below(env.glifs.len() as u64) as usize;
    let mut desc = format!("glif corpus={}", env.glifs[i].0);
    let bytes = if (idx as usize) < env.glifs.len() { env.glifs[i].1.clone() } else { mutate(rng, &env.glifs[i].1, &env.glifs[j].1, &mut desc) };
    log.hash = fnv(&bytes);
    log.desc = desc;
    if max_depth(&bytes) > DEPTH_CLASS {
        log.tag("deep-nesting");
    }
    if keep {
        log.files.push(("input.glif".into(), bytes.clone()));
    }
    let r = if rng.chance(1, 8) {
        let (top, deep) = env.case_dir();
        let p = deep.join("g.glif");
        let _ = std::fs::write(&p, &bytes);
        let r = log.guard("Glyph::load", || Glyph::load(&p), |r| r.is_ok());
        let _ = std::fs::remove_dir_all(top);
        r
    } else {
        log.guard("Glyph::parse_raw", || Glyph::parse_raw(&bytes), |r| r.is_ok())
    };
    if let Some(Ok(g)) = r {
        log.deep = true;
        let opts = opts_from(rng);
        exercise_glyph(log, &g, &opts, true);
    }
}

/// class predicate `ds-doctype-in-text`, on the bytes alone: a `<!DOCTYPE` (any letter case) that
/// comes after the start tag of the root element, i.e. inside the document body, where XML does
/// not allow one (the panic needs text or CDATA on both sides of it inside one element, possibly
/// with comments or further declarations in between; the class is the simpler superset)
pub fn doctype_in_text(b: &[u8]) -> bool {
    // the first `<` that opens an element (not `<?`, `<!`, `</`)
    let mut root = None;
    let mut i = 0;
    while i + 1 < b.len() {
        if b[i] == b'<' && (b[i + 1].is_ascii_alphabetic() || b[i + 1] == b'_' || b[i + 1] >= 0x80) {
            root = Some(i);
            break;
        }
        i += 1;
    }
    let Some(root) = root else { return false };
    let body = &b[root..];
    let lower: Vec<u8> = body.iter().map(|c| c.to_ascii_lowercase()).collect();
    !find_all(&lower, b"<!doctype").is_empty()
}

fn case_ds(env: &mut Env, idx: u64, rng: &mut Rng, log: &mut CaseLog, keep: bool) {
    let i = if (idx as usize) < env.dss.len() { idx as usize } else { rng.below(env.dss.len() as u64) as usize };
    let j = rng.below(env.dss.len() as u64) as usize;
    let mut desc = format!("designspace corpus={}", env.dss[i].0);
    let bytes = if (idx as usize) < env.dss.len() { env.dss[i].1.clone() } else { mutate(rng, &env.dss[i].1, &env.dss[j].1, &mut desc) };
    log.hash = fnv(&bytes);
    log.desc = desc;
    if max_depth(&bytes) > DEPTH_CLASS {
        log.tag("deep-nesting");
    }
    if doctype_in_text(&bytes) {
        log.tag("ds-doctype-in-text");
    }
    if keep {
        log.files.push(("input.designspace".into(), bytes.clone()));
    }
    let (top, deep) = env.case_dir();
    let p = deep.join("in.designspace");
    let _ = std::fs::write(&p, &bytes);
    if let Some(Ok(d)) = log.guard("DesignSpaceDocument::load", || DesignSpaceDocument::load(&p), |r| r.is_ok()) {
        log.deep = true;
        let q = deep.join("out.designspace");
        if let Some(Ok(())) = log.guard("DesignSpaceDocument::save", || d.save(&q), |r| r.is_ok()) {
            log.guard("DesignSpaceDocument::load(saved)", || DesignSpaceDocument::load(&q), |r| r.is_ok());
        }
    }
    if !keep {
        let _ = std::fs::remove_dir_all(top);
    }
}

const PLIST_HEAD: &str = "<?xml version=\"1.0\" encoding=\"UTF-8\"?>\n<!DOCTYPE plist PUBLIC \"-//Apple//DTD PLIST 1.0//EN\" \"http://www.apple.com/DTDs/PropertyList-1.0.dtd\">\n<plist version=\"1.0\">\n";

fn xml_escape(s: &str) -> String {
    s.replace('&', "&amp;").replace('<', "&lt;").replace('>', "&gt;")
}

fn layercontents(entries: &[(String, String)]) -> Vec<u8> {
    let mut s = String::from(PLIST_HEAD);
    s.push_str("<array>\n");
    for (n, d) in entries {
        s.push_str(&format!("<array><string>{}</string><string>{}</string></array>\n", xml_escape(n), xml_escape(d)));
    }
    s.push_str("</array>\n</plist>\n");
    s.into_bytes()
}

fn contents_plist(entries: &[(String, String)]) -> Vec<u8> {
    let mut s = String::from(PLIST_HEAD);
    s.push_str("<dict>\n");
    for (n, d) in entries {
        s.push_str(&format!("<key>{}</key><string>{}</string>\n", xml_escape(n), xml_escape(d)));
    }
    s.push_str("</dict>\n</plist>\n");
    s.into_bytes()
}

const LAYER_DIRS: &[&str] = &[
    "..", "glyphs/..", ".", "", "glyphs/../glyphs", "../l3x", "glyphs", "glyphs.background", "glyphs/", "./glyphs", "glyphs//", "../..", "glyphs/../..", "nonexistent",
    "/nonexistent_c03_dir", "glyphs\u{0}", "GLYPHS", "metainfo.plist", "data", "glyphs/sub/..", "a/../..",
];
const LAYER_NAMES: &[&str] = &["public.default", "public.background", "foreground", "", "a\u{0}", "x", "x", "glyphs", "Ünï", "public.default"];

fn tree_mutate(rng: &mut Rng, t: &mut Tree, env: &Env, log: &mut CaseLog, parent_extra: &mut Tree) {
    let k = rng.below(20);
    log.desc.push_str(&format!(" t{}", k));
    let files: Vec<Vec<u8>> = t.iter().filter(|(_, n)| matches!(n, Node::File(_))).map(|(k, _)| k.clone()).collect();
    match k {
        0..=5 => {
            // mutate the bytes of one file (plists more often than glifs)
            let pl: Vec<&Vec<u8>> = files.iter().filter(|f| f.ends_with(b".plist") || f.ends_with(b".fea")).collect();
            let pick = if !pl.is_empty() && rng.chance(3, 4) { pl[rng.below(pl.len() as u64) as usize].clone() } else if !files.is_empty() { files[rng.below(files.len() as u64) as usize].clone() } else { return };
            let other = &env.plists[rng.below(env.plists.len() as u64) as usize].1;
            if let Some(Node::File(b)) = t.get(&pick).cloned() {
                let mut d = String::new();
                let nb = mutate(rng, &b, other, &mut d);
                log.desc.push_str(&format!("[{}{}]", String::from_utf8_lossy(&pick), d));
                t.insert(pick, Node::File(nb));
            }
        }
        6 | 7 => {
            // layercontents.plist with adversarial directories / names
            let n = 1 + rng.below(3);
            let mut ents = vec![];
            for _ in 0..n {
                ents.push((rng.pick(LAYER_NAMES).to_string(), rng.pick(LAYER_DIRS).to_string()));
            }
            if rng.chance(2, 3) {
                ents.insert(rng.below(ents.len() as u64 + 1) as usize, ("public.default".into(), "glyphs".into()));
            }
            log.desc.push_str(&format!("[layercontents {:?}]", ents));
            t.insert(b"layercontents.plist".to_vec(), Node::File(layercontents(&ents)));
            // where a directory without a final name component resolves to, a contents.plist may exist
            for (_, d) in &ents {
                if Path::new("base").join(d).file_name().is_none() && rng.chance(2, 3) {
                    let c = contents_plist(&[]);
                    match d.as_str() {
                        ".." | "glyphs/../.." | "a/../.." => {
                            if d.starts_with("a/") {
                                t.insert(b"a".to_vec(), Node::Dir);
                            }
                            parent_extra.insert(b"contents.plist".to_vec(), Node::File(c));
                            log.desc.push_str("[contents.plist in the parent of the UFO]");
                        }
                        "glyphs/.." => {
                            t.insert(b"contents.plist".to_vec(), Node::File(c));
                            log.desc.push_str("[contents.plist in UFO root]");
                        }
                        "glyphs/sub/.." => {
                            t.insert(b"glyphs/sub".to_vec(), Node::Dir);
                        }
                        _ => {}
                    }
                }
            }
            // metainfo must say format 3 for layercontents to matter; keep whatever it says
        }
        8 => {
            // a contents.plist where a `..` layer directory would look for it
            let c = contents_plist(&[]);
            let src = t.get(&b"glyphs/contents.plist".to_vec()).cloned().unwrap_or(Node::File(c.clone()));
            match rng.below(3) {
                0 => {
                    t.insert(b"contents.plist".to_vec(), src);
                    log.desc.push_str("[contents.plist in UFO root]");
                }
                1 => {
                    parent_extra.insert(b"contents.plist".to_vec(), Node::File(c));
                    log.desc.push_str("[empty contents.plist in the parent of the UFO]");
                }
                _ => {
                    t.insert(b"contents.plist".to_vec(), Node::File(c));
                    log.desc.push_str("[empty contents.plist in UFO root]");
                }
            }
        }
        9 => {
            // glif paths in contents.plist
            let paths = ["..", "../x.glif", "a.glif", "", ".", "sub/a.glif", "/nonexistent_c03/x.glif", "contents.plist", "a_.glif", "A_.glif", "../contents.plist", "a.glif/"];
            let names = ["a", "A", "b", "", "a\u{0}", "a", ".notdef"];
            let n = 1 + rng.below(4);
            let mut ents = vec![];
            for _ in 0..n {
                ents.push((rng.pick(&names).to_string(), rng.pick(&paths).to_string()));
            }
            let dir: &[u8] = if rng.chance(3, 4) { b"glyphs" } else { b"glyphs.background" };
            let mut key = dir.to_vec();
            key.extend_from_slice(b"/contents.plist");
            log.desc.push_str(&format!("[{} {:?}]", String::from_utf8_lossy(&key), ents));
            t.insert(key, Node::File(contents_plist(&ents)));
            if rng.chance(1, 2) {
                let g = &env.glifs[rng.below(env.glifs.len() as u64) as usize].1;
                let mut gk = dir.to_vec();
                gk.extend_from_slice(b"/a.glif");
                t.insert(gk, Node::File(g.clone()));
            }
        }
        10 | 11 => {
            // data / images entries: non-UTF-8 names, symlinks, sub-directories, deep trees
            let store: &[u8] = if rng.chance(1, 2) { b"data" } else { b"images" };
            let mut key = store.to_vec();
            key.push(b'/');
            match rng.below(9) {
                0 => {
                    key.extend_from_slice(b"bad\xff\xfename.bin");
                    t.insert(key, Node::File(b"\x89PNG\r\n\x1a\nxx".to_vec()));
                    log.desc.push_str("[non-UTF-8 file name in store]");
                }
                1 => {
                    key.extend_from_slice(b"link");
                    t.insert(key, Node::Symlink(b"../metainfo.plist".to_vec()));
                    log.desc.push_str("[symlink to file in store]");
                }
                2 => {
                    key.extend_from_slice(b"loop");
                    t.insert(key, Node::Symlink(b".".to_vec()));
                    log.desc.push_str("[symlink loop in store]");
                }
                3 => {
                    key.extend_from_slice(b"up");
                    t.insert(key, Node::Symlink(b"..".to_vec()));
                    log.desc.push_str("[symlink to parent in store]");
                }
                4 => {
                    key.extend_from_slice(b"dangling");
                    t.insert(key, Node::Symlink(b"nowhere".to_vec()));
                    log.desc.push_str("[dangling symlink in store]");
                }
                5 => {
                    key.extend_from_slice(b"sub/dir/file.png");
                    t.insert(key, Node::File(b"\x89PNG\r\n\x1a\nxx".to_vec()));
                    log.desc.push_str("[sub-directory in store]");
                }
                6 => {
                    for _ in 0..150 {
                        key.extend_from_slice(b"d/");
                    }
                    key.extend_from_slice(b"f");
                    t.insert(key, Node::File(vec![1, 2, 3]));
                    log.desc.push_str("[150-level directory in store]");
                }
                7 => {
                    key.extend_from_slice(b"not-a-png.png");
                    t.insert(key, Node::File(b"GIF89a".to_vec()));
                    log.desc.push_str("[non-PNG in store]");
                }
                _ => {
                    key.extend_from_slice(b"\xc3\x28 \n\t");
                    t.insert(key, Node::File(vec![]));
                    log.desc.push_str("[odd file name in store]");
                }
            }
        }
        12 => {
            // file <-> directory confusion
            let what: &[&[u8]] = &[b"glyphs", b"metainfo.plist", b"data", b"images", b"features.fea", b"fontinfo.plist", b"lib.plist", b"layercontents.plist", b"glyphs/contents.plist", b"groups.plist", b"kerning.plist"];
            let w = rng.pick(what).to_vec();
            let is_dir = matches!(t.get(&w), Some(Node::Dir)) || t.keys().any(|k| k.starts_with(&[&w[..], b"/"].concat()));
            let keys: Vec<Vec<u8>> = t.keys().filter(|k| **k == w || k.starts_with(&[&w[..], b"/"].concat())).cloned().collect();
            for k in keys {
                t.remove(&k);
            }
            if is_dir {
                t.insert(w.clone(), Node::File(b"x".to_vec()));
            } else {
                t.insert(w.clone(), Node::Dir);
            }
            log.desc.push_str(&format!("[{} becomes {}]", String::from_utf8_lossy(&w), if is_dir { "a file" } else { "a directory" }));
        }
        13 => {
            if !files.is_empty() {
                let f = files[rng.below(files.len() as u64) as usize].clone();
                log.desc.push_str(&format!("[delete {}]", String::from_utf8_lossy(&f)));
                t.remove(&f);
            }
        }
        14 => {
            if !files.is_empty() {
                let f = files[rng.below(files.len() as u64) as usize].clone();
                log.desc.push_str(&format!("[empty {}]", String::from_utf8_lossy(&f)));
                t.insert(f, Node::File(vec![]));
            }
        }
        15 => {
            // a top-level directory replaced by a symlink
            let w: &[u8] = *rng.pick(&[&b"glyphs"[..], &b"data"[..], &b"images"[..]]);
            let keys: Vec<Vec<u8>> = t.keys().filter(|k| **k == w || k.starts_with(&[w, b"/"].concat())).cloned().collect();
            for k in keys {
                t.remove(&k);
            }
            let target: &[u8] = *rng.pick(&[&b"."[..], &b".."[..], &b"nowhere"[..], &b"glyphs.background"[..], &b"/"[..]]);
            t.insert(w.to_vec(), Node::Symlink(target.to_vec()));
            log.desc.push_str(&format!("[{} -> symlink {}]", String::from_utf8_lossy(w), String::from_utf8_lossy(target)));
        }
        16 => {
            let v = *rng.pick(&["1", "2", "3", "4", "0", "-1", "99999999999", "3.0", "x"]);
            let mi = format!("{}<dict><key>creator</key><string>c</string><key>formatVersion</key><integer>{}</integer>{}</dict></plist>", PLIST_HEAD, v,
                if rng.chance(1, 3) { "<key>formatVersionMinor</key><integer>7</integer>" } else { "" });
            t.insert(b"metainfo.plist".to_vec(), Node::File(mi.into_bytes()));
            log.desc.push_str(&format!("[formatVersion {}]", v));
        }
        17 => {
            // copy a plist from another corpus UFO over this one's
            let (_, o) = &env.ufos[rng.below(env.ufos.len() as u64) as usize];
            let of: Vec<&Vec<u8>> = o.iter().filter(|(k, n)| matches!(n, Node::File(_)) && !k.contains(&b'/')).map(|(k, _)| k).collect();
            if !of.is_empty() {
                let f = of[rng.below(of.len() as u64) as usize].clone();
                if let Some(n) = o.get(&f) {
                    log.desc.push_str(&format!("[graft {}]", String::from_utf8_lossy(&f)));
                    t.insert(f, n.clone());
                }
            }
        }
        18 => {
            // a glif replaced by a mutated corpus glif
            let gl: Vec<&Vec<u8>> = files.iter().filter(|f| f.ends_with(b".glif")).collect();
            if !gl.is_empty() {
                let f = gl[rng.below(gl.len() as u64) as usize].clone();
                let src = &env.glifs[rng.below(env.glifs.len() as u64) as usize].1;
                let other = &env.glifs[rng.below(env.glifs.len() as u64) as usize].1;
                let mut d = String::new();
                let nb = mutate(rng, src, other, &mut d);
                log.desc.push_str(&format!("[{} := corpus glif{}]", String::from_utf8_lossy(&f), d));
                t.insert(f, Node::File(nb));
            }
        }
        _ => {
            // lib.plist with public.objectLibs of odd shapes / groups of odd shapes
            let bodies = [
                "<dict><key>public.objectLibs</key><string>x</string></dict>",
                "<dict><key>public.objectLibs</key><dict><key>id1</key><string>x</string></dict></dict>",
                "<dict><key>public.objectLibs</key><dict><key></key><dict/></dict></dict>",
                "<array/>",
                "<dict><key>a</key><date>2020-01-01T00:00:00Z</date><key>b</key><data>AAAA</data><key>c</key><real>nan</real></dict>",
                "<dict><key>org.robofab.postScriptHintData</key><dict><key>blueValues</key><array><array><integer>1</integer></array></array></dict><key>org.robofab.opentype.features</key><integer>1</integer></dict>",
                "<dict><key>org.robofab.opentype.featureorder</key><array><string>x</string></array><key>org.robofab.opentype.features</key><dict><key>x</key><string>f</string></dict></dict>",
            ];
            let w: &[u8] = *rng.pick(&[&b"lib.plist"[..], &b"groups.plist"[..], &b"kerning.plist"[..], &b"fontinfo.plist"[..], &b"glyphs/layerinfo.plist"[..]]);
            let b = format!("{}{}</plist>", PLIST_HEAD, rng.pick(&bodies));
            log.desc.push_str(&format!("[{} := odd body]", String::from_utf8_lossy(w)));
            t.insert(w.to_vec(), Node::File(b.into_bytes()));
        }
    }
}

fn tree_hash(t: &Tree) -> u64 {
    let mut h = 0u64;
    for (k, n) in t {
        h = h.rotate_left(7) ^ fnv(k);
        match n {
            Node::File(b) => h ^= fnv(b).rotate_left(3),
            Node::Dir => h ^= 1,
            Node::Symlink(s) => h ^= fnv(s).rotate_left(11),
        }
    }
    h
}

fn case_ufo(env: &mut Env, idx: u64, rng: &mut Rng, log: &mut CaseLog, keep: bool) {
    // small templates most of the time
    let small: Vec<usize> = (0..env.ufos.len()).filter(|i| env.ufos[*i].1.len() < 20).collect();
    let i = if (idx as usize) < env.ufos.len() { idx as usize } else if rng.chance(9, 10) && !small.is_empty() { small[rng.below(small.len() as u64) as usize] } else { rng.below(env.ufos.len() as u64) as usize };
    let mut t = env.ufos[i].1.clone();
    log.desc = format!("ufo corpus={}", env.ufos[i].0);
    let mut parent_extra = Tree::new();
    if (idx as usize) >= env.ufos.len() {
        let steps = 1 + rng.below(3);
        for _ in 0..steps {
            tree_mutate(rng, &mut t, env, log, &mut parent_extra);
        }
    }
    log.hash = tree_hash(&t) ^ tree_hash(&parent_extra).rotate_left(1);
    if t.values().any(|n| matches!(n, Node::File(b) if max_depth(b) > DEPTH_CLASS)) {
        log.tag("deep-nesting");
    }
    if keep {
        for (k, n) in &t {
            match n {
                Node::File(b) => log.files.push((String::from_utf8_lossy(k).to_string(), b.clone())),
                Node::Dir => log.desc.push_str(&format!("\nDIR {}", String::from_utf8_lossy(k))),
                Node::Symlink(s) => log.desc.push_str(&format!("\nSYMLINK {} -> {}", String::from_utf8_lossy(k), String::from_utf8_lossy(s))),
            }
        }
        for (k, _) in &parent_extra {
            log.desc.push_str(&format!("\nPARENT-FILE {}", String::from_utf8_lossy(k)));
        }
    }
    let (top, deep) = env.case_dir();
    let ufo = deep.join("font.ufo");
    write_tree(&ufo, &t);
    write_tree(&deep, &parent_extra);
    let r = match rng.below(5) {
        0 => {
            let req = DataRequest::none().lib(rng.chance(1, 2)).groups(rng.chance(1, 2)).kerning(rng.chance(1, 2)).features(rng.chance(1, 2)).data(rng.chance(1, 2)).images(rng.chance(1, 2)).default_layer(rng.chance(1, 2));
            log.guard("Font::load_requested_data", || Font::load_requested_data(&ufo, req), |r| r.is_ok())
        }
        1 => {
            let m = rng.below(3);
            let req = DataRequest::all().filter_layers(move |name, path| match m {
                0 => true,
                1 => name.len() % 2 == 0,
                _ => path.to_string_lossy().len() % 2 == 1,
            });
            log.guard("Font::load_requested_data(filter)", || Font::load_requested_data(&ufo, req), |r| r.is_ok())
        }
        _ => log.guard("Font::load", || Font::load(&ufo), |r| r.is_ok()),
    };
    if let Some(Ok(font)) = r {
        log.deep = true;
        exercise_font(&deep, log, &font, rng, true);
    }
    if !keep {
        let _ = std::fs::remove_dir_all(top);
    }
}

pub fn file_case(path: &Path, work: &Path, rng: &mut Rng, log: &mut CaseLog) {
    if path.is_dir() {
        // copy, so that nothing is ever written next to the committed corpus
        let mut t = Tree::new();
        read_tree(path, Path::new(""), &mut t);
        let deep = work.join("l1").join("l2").join("l3");
        let ufo = deep.join("font.ufo");
        write_tree(&ufo, &t);
        // `parent-contents.plist` next to a corpus UFO stands for a contents.plist in the UFO's parent
        if let Ok(b) = std::fs::read(path.with_extension("parent-contents.plist")) {
            let _ = std::fs::write(deep.join("contents.plist"), b);
        }
        if let Some(Ok(font)) = log.guard("Font::load", || Font::load(&ufo), |r| r.is_ok()) {
            log.deep = true;
            exercise_font(&deep, log, &font, rng, true);
        }
    } else if path.extension().map(|e| e == "designspace").unwrap_or(false) {
        if std::fs::read(path).map(|b| doctype_in_text(&b)).unwrap_or(false) {
            log.tag("ds-doctype-in-text");
        }
        if let Some(Ok(d)) = log.guard("DesignSpaceDocument::load", || DesignSpaceDocument::load(path), |r| r.is_ok()) {
            let q = work.join("out.designspace");
            if let Some(Ok(())) = log.guard("DesignSpaceDocument::save", || d.save(&q), |r| r.is_ok()) {
                log.guard("DesignSpaceDocument::load(saved)", || DesignSpaceDocument::load(&q), |r| r.is_ok());
            }
        }
    } else if let Ok(bytes) = std::fs::read(path) {
        if max_depth(&bytes) > DEPTH_CLASS {
            log.tag("deep-nesting");
        }
        if let Some(Ok(g)) = log.guard("Glyph::parse_raw", || Glyph::parse_raw(&bytes), |r| r.is_ok()) {
            let opts = opts_from(rng);
            exercise_glyph(log, &g, &opts, true);
        }
    }
}

pub fn witness_case(id: &str, work: &Path, log: &mut CaseLog) {
    if id != "image-non-utf8" {
        log.tag(id);
    }
    match id {
        "image-non-utf8" => {
            // regression input (repaired by 2bd9911): the constructor must return an error value
            log.desc = "Image::new(PathBuf from bytes b\"im\\xff.png\", None, identity); if accepted: glyph.image = Some(..); glyph.encode_xml()".into();
            let mut g = Glyph::new("a");
            if let Some(Ok(im)) = log.guard("Image::new", || Image::new(PathBuf::from(os(b"im\xff.png")), None, AffineTransform::default()), |r| r.is_ok()) {
                g.image = Some(im);
            }
            log.guard("Glyph::encode_xml", || g.encode_xml(), |r| r.is_ok());
        }
        "entry-remove" => {
            log.desc = "Font::new(); default_layer_mut().insert_glyph(Glyph::new(\"a\")); if let Entry::Occupied(o) = default_layer_mut().entry(\"a\") { o.remove(); } font.save(..)".into();
            let mut font = Font::new();
            font.default_layer_mut().insert_glyph(Glyph::new("a"));
            log.guard("Layer::entry.remove", || if let std::collections::btree_map::Entry::Occupied(o) = font.default_layer_mut().entry(Name::new("a").unwrap()) { o.remove(); }, |_| true);
            log.guard("Font::save", || font.save(work.join("out.ufo")), |r| r.is_ok());
        }
        "layer-slot-assign" => {
            log.desc = "Font::new(); let l = layers.new_layer(\"x\").clone(); *layers.default_layer_mut() = l; layers.retain(|_| false); font.default_layer()".into();
            let mut font = Font::new();
            let l = font.layers.new_layer("x").map(|l| l.clone()).ok();
            if let Some(l) = l {
                *font.layers.default_layer_mut() = l;
            }
            log.guard("LayerContents::retain", || font.layers.retain(|_| false), |_| true);
            log.guard("Font::default_layer", || font.default_layer().len(), |_| true);
            log.guard("Font::save", || font.save(work.join("out.ufo")), |r| r.is_ok());
        }
        _ => {}
    }
}

// ------------------------------------------------------------------------------------ correspondence with the site models
const CORR_NAMES: [&str; 5] = ["public.default", "a", "b", "c", ""];
fn nidx(s: &str) -> u64 {
    CORR_NAMES.iter().position(|n| *n == s).unwrap_or(4) as u64
}
fn ecode(e: &norad::error::NamingError) -> u64 {
    use norad::error::NamingError::*;
    match e {
        Duplicate(_) => 1,
        Missing(_) => 2,
        ReservedName => 3,
        Invalid(_) => 4,
        _ => 8,
    }
}
fn quiet<T>(f: impl FnOnce() -> T) -> Option<T> {
    std::panic::catch_unwind(std::panic::AssertUnwindSafe(f)).ok()
}

/// cases for Run/C03.v: one `(case, observed)` pair per line, in Gallina syntax
pub fn corr(seed: u64, thorough: bool, out: &Path) {
    use crate::util::{g_str, Tm};
    use std::fmt::Write as _;
    let n = if thorough { 20_000 } else { 1_500 };
    // ---- user_name_to_file_name
    let alpha = ["a", "A", "z", "Z", "0", "9", ".", " ", "_", "/", ":", "é", "É", "ß", "日", "😀", "con", "aux", "COM1", "lpt1"];
    let mut rng = super::case_rng(seed, "corr-u2f", 0);
    let mut s = String::new();
    for _ in 0..n {
        let len = *rng.pick(&[0usize, 1, 2, 3, 4, 8, 60, 120, 126, 127, 128, 200, 245, 250, 251, 252, 253, 254, 255, 256, 257, 258, 300]);
        let mut name = String::new();
        while name.len() < len {
            name.push_str(*rng.pick(&alpha));
        }
        let prefix = rng.pick(&["", "", "glyphs.", "A.", "é", "."]).to_string();
        let suffix = match rng.below(8) {
            0 => String::new(),
            1 => ".é".to_string(),
            2 => "x".repeat(*rng.pick(&[250usize, 253, 254, 255, 256, 300])),
            3 => format!(".{}", "日".repeat(*rng.pick(&[80usize, 83, 84, 85]))),
            _ => ".glif".to_string(),
        };
        let reject = *rng.pick(&[0u64, 0, 1, 1, 2, 5, 50, 99, 100, 120]);
        let mut calls = 0u64;
        let r = quiet(|| {
            norad::user_name_to_file_name(&name, &prefix, &suffix, |_| {
                calls += 1;
                calls > reject
            })
        });
        let obs = match r {
            Some(p) => Tm::L(vec![Tm::N(0), Tm::s(&p.to_string_lossy())]),
            None => Tm::L(vec![Tm::N(1), Tm::N(14)]),
        };
        let _ = writeln!(s, "(({}, {}, {}, {}%nat), {})", g_str(&name), g_str(&prefix), g_str(&suffix), reject, obs.to_string());
    }
    let _ = std::fs::write(out.join("corr_u2f.txt"), s);
    // ---- layer histories
    let mut rng = super::case_rng(seed, "corr-lc", 0);
    let mut s = String::new();
    for _ in 0..n {
        let nops = 1 + rng.below(9);
        let mut font = Font::new();
        let mut ops = vec![];
        let mut codes = vec![];
        let mut panicked = false;
        for _ in 0..nops {
            let a = rng.below(5);
            let b = rng.below(5);
            let ow = rng.chance(1, 2);
            let mask = rng.below(32);
            let (txt, code): (String, Option<u64>) = match rng.below(11) {
                0 | 1 | 2 => (format!("ONew {}", a), quiet(|| match font.layers.new_layer(CORR_NAMES[a as usize]) { Ok(_) => 0, Err(e) => ecode(&e) })),
                3 => (format!("ORemove {}", a), quiet(|| if font.layers.remove(CORR_NAMES[a as usize]).is_some() { 0 } else { 5 })),
                4 | 5 | 6 => (format!("ORename {} {} {}", a, b, ow), quiet(|| match font.layers.rename_layer(CORR_NAMES[a as usize], CORR_NAMES[b as usize], ow) { Ok(_) => 0, Err(e) => ecode(&e) })),
                7 => (format!("OGet {}", a), quiet(|| match font.layers.get_or_create_layer(CORR_NAMES[a as usize]) { Ok(_) => 0, Err(e) => ecode(&e) })),
                8 => (format!("ORetain {}", mask), quiet(|| { font.layers.retain(|l| (mask >> nidx(l.name())) & 1 == 1); 0 })),
                9 => (format!("OAssign {} {}", a, b), quiet(|| {
                    let v = font.layers.get(CORR_NAMES[b as usize]).cloned();
                    match (font.layers.get_mut(CORR_NAMES[a as usize]), v) {
                        (Some(slot), Some(v)) => { *slot = v; 0 }
                        _ => 5,
                    }
                })),
                _ => ("ODefault".to_string(), quiet(|| { let _ = font.layers.default_layer().name(); 0 })),
            };
            ops.push(format!("({})", txt));
            match code {
                Some(c) => codes.push(Tm::N(c)),
                None => { panicked = true; break; }
            }
        }
        let obs = if panicked {
            Tm::L(vec![Tm::L(codes), Tm::L(vec![]), Tm::N(1)])
        } else {
            let st: Vec<Tm> = font.layers.iter().map(|l| Tm::L(vec![Tm::N(nidx(l.name())), Tm::b(l.is_default())])).collect();
            Tm::L(vec![Tm::L(codes), Tm::L(st), Tm::N(0)])
        };
        let _ = writeln!(s, "([{}], {})", ops.join(";"), obs.to_string());
    }
    let _ = std::fs::write(out.join("corr_lc.txt"), s);
    // ---- glyph histories on the default layer, then Font::save
    let mut rng = super::case_rng(seed, "corr-lay", 0);
    let mut s = String::new();
    let tmp = out.join("corr_work");
    let _ = std::fs::create_dir_all(&tmp);
    for _ in 0..n {
        let nops = 1 + rng.below(9);
        let mut font = Font::new();
        let mut ops = vec![];
        let mut codes = vec![];
        let mut panicked = false;
        for _ in 0..nops {
            let a = 1 + rng.below(3);
            let b = 1 + rng.below(4);
            let c = 1 + rng.below(4);
            let ow = rng.chance(1, 2);
            let mask = rng.below(32);
            let layer = font.default_layer_mut();
            let (txt, code): (String, Option<u64>) = match rng.below(12) {
                0 | 1 | 2 | 3 => (format!("PInsert {}", a), quiet(|| { layer.insert_glyph(Glyph::new(CORR_NAMES[a as usize])); 0 })),
                4 => (format!("PRemove {}", b), quiet(|| if layer.remove_glyph(CORR_NAMES[b as usize]).is_some() { 0 } else { 5 })),
                5 | 6 | 7 => (format!("PRename {} {} {}", c, b, ow), quiet(|| match layer.rename_glyph(CORR_NAMES[c as usize], CORR_NAMES[b as usize], ow) { Ok(_) => 0, Err(e) => ecode(&e) })),
                8 => ("PClear".to_string(), quiet(|| { layer.clear(); 0 })),
                9 => (format!("PRetain {}", mask), quiet(|| { layer.retain(|n, _| (mask >> nidx(n)) & 1 == 1); 0 })),
                10 => (format!("PEntryInsert {}", a), quiet(|| { layer.entry(Name::new(CORR_NAMES[a as usize]).unwrap()).or_insert(Glyph::new(CORR_NAMES[a as usize])); 0 })),
                _ => (format!("PEntryRemove {}", a), quiet(|| {
                    if let std::collections::btree_map::Entry::Occupied(o) = layer.entry(Name::new(CORR_NAMES[a as usize]).unwrap()) { o.remove(); 0 } else { 5 }
                })),
            };
            ops.push(format!("({})", txt));
            match code {
                Some(c) => codes.push(Tm::N(c)),
                None => { panicked = true; break; }
            }
        }
        let obs = if panicked {
            Tm::L(vec![Tm::L(codes), Tm::L(vec![]), Tm::N(3)])
        } else {
            let layer = font.default_layer();
            let st: Vec<Tm> = (1..4).map(|i| Tm::L(vec![Tm::b(layer.contains_glyph(CORR_NAMES[i])), Tm::b(layer.get_path(CORR_NAMES[i]).is_some())])).collect();
            let target = tmp.join("o.ufo");
            let sv = match quiet(|| font.save(&target)) { Some(Ok(())) => 0, Some(Err(_)) => 2, None => 1 };
            Tm::L(vec![Tm::L(codes), Tm::L(st), Tm::N(sv)])
        };
        let _ = writeln!(s, "([{}], {})", ops.join(";"), obs.to_string());
    }
    let _ = std::fs::write(out.join("corr_lay.txt"), s);
    let _ = std::fs::remove_dir_all(&tmp);
    println!("CORR done {}", n);
}

// ------------------------------------------------------------------------------------ typed string values
/// multi-byte chars: (char, numeric?) with 2-, 3- and 4-byte encodings; the numeric ones pass
/// `char::is_numeric` / `is_alphanumeric` but not `is_ascii_digit`
const MB: &[&str] = &["\u{0661}", "\u{00B2}", "\u{06F3}", "\u{FF11}", "\u{0967}", "\u{2460}", "\u{1D7CF}", "\u{1D7D8}", "é", "ß", "日", "😀", "\u{FF0C}", "\u{FF0F}", "\u{FF1A}", "\u{00A0}", "\u{2003}"];

/// a variant of the ASCII string `base` with 1-3 multi-byte chars substituted.
/// `same_bytes`: every substituted char replaces as many ASCII bytes as its encoding is long, so the
/// byte length is unchanged (what a `len() == N` guard sees) and char boundaries move inside fields;
/// otherwise it replaces one char (same char count, what a `chars().count()` test would see)
pub fn substitute(rng: &mut Rng, base: &str, same_bytes: bool) -> String {
    let mut cells: Vec<String> = base.chars().map(|c| c.to_string()).collect();
    let k = 1 + rng.below(3);
    for _ in 0..k {
        let ch = *rng.pick(MB);
        let w = if same_bytes { ch.len() } else { 1 };
        if cells.len() < w {
            continue;
        }
        for _try in 0..6 {
            let at = rng.below((cells.len() - w + 1) as u64) as usize;
            if cells[at..at + w].iter().all(|c| c.len() == 1) {
                cells.splice(at..at + w, std::iter::once(ch.to_string()));
                break;
            }
        }
    }
    cells.concat()
}

fn tiny_ufo(dir: &Path, version: u32, fontinfo_body: Option<String>, layerinfo_body: Option<String>, glif: Option<&[u8]>) {
    let _ = std::fs::create_dir_all(dir.join("glyphs"));
    let _ = std::fs::write(dir.join("metainfo.plist"), format!("{}<dict><key>creator</key><string>c</string><key>formatVersion</key><integer>{}</integer></dict>\n</plist>\n", PLIST_HEAD, version));
    if version >= 3 {
        let _ = std::fs::write(dir.join("layercontents.plist"), layercontents(&[("public.default".into(), "glyphs".into())]));
    }
    let ents: Vec<(String, String)> = if glif.is_some() { vec![("a".into(), "a.glif".into())] } else { vec![] };
    let _ = std::fs::write(dir.join("glyphs/contents.plist"), contents_plist(&ents));
    if let Some(g) = glif {
        let _ = std::fs::write(dir.join("glyphs/a.glif"), g);
    }
    if let Some(b) = fontinfo_body {
        let _ = std::fs::write(dir.join("fontinfo.plist"), format!("{}<dict>{}</dict>\n</plist>\n", PLIST_HEAD, b));
    }
    if let Some(b) = layerinfo_body {
        let _ = std::fs::write(dir.join("glyphs/layerinfo.plist"), format!("{}<dict>{}</dict>\n</plist>\n", PLIST_HEAD, b));
    }
}

const NUM_TEXTS: &[&str] = &["nan", "NaN", "-nan", "inf", "-inf", "+inf", "infinity", "-0", "-0.0", "0", "0.0", "1e400", "-1e400", "1e-400", "9223372036854775808",
    "-9223372036854775809", "18446744073709551616", "1.5", "-1.5", "2147483647", "2147483648", "-2147483648", "-2147483649", "4294967295", "4294967296", "255", "256",
    "-1", "1", "1000", "1e3", "0x10", "1e308", "-1e308", "5e-324", "0.9999999999999999", "65535", "65536", "360", "400"];
const V2_SCALARS: &[&str] = &["unitsPerEm", "ascender", "descender", "xHeight", "capHeight", "italicAngle", "macintoshFONDFamilyID", "openTypeHeadLowestRecPPEM",
    "openTypeHheaAscender", "openTypeHheaCaretOffset", "openTypeHheaCaretSlopeRise", "openTypeHheaCaretSlopeRun", "openTypeHheaDescender", "openTypeHheaLineGap",
    "openTypeOS2StrikeoutPosition", "openTypeOS2StrikeoutSize", "openTypeOS2SubscriptXOffset", "openTypeOS2SubscriptXSize", "openTypeOS2SubscriptYOffset",
    "openTypeOS2SubscriptYSize", "openTypeOS2SuperscriptXOffset", "openTypeOS2SuperscriptXSize", "openTypeOS2SuperscriptYOffset", "openTypeOS2SuperscriptYSize",
    "openTypeOS2TypoAscender", "openTypeOS2TypoDescender", "openTypeOS2TypoLineGap", "openTypeOS2WeightClass", "openTypeOS2WidthClass", "openTypeOS2WinAscent",
    "openTypeOS2WinDescent", "openTypeVheaCaretOffset", "openTypeVheaCaretSlopeRise", "openTypeVheaCaretSlopeRun", "openTypeVheaVertTypoAscender",
    "openTypeVheaVertTypoDescender", "openTypeVheaVertTypoLineGap", "postscriptBlueFuzz", "postscriptBlueScale", "postscriptBlueShift", "postscriptDefaultWidthX",
    "postscriptNominalWidthX", "postscriptSlantAngle", "postscriptUnderlinePosition", "postscriptUnderlineThickness", "postscriptUniqueID",
    "postscriptWindowsCharacterSet", "versionMajor", "versionMinor", "year"];
const V2_LISTS: &[&str] = &["postscriptBlueValues", "postscriptOtherBlues", "postscriptFamilyBlues", "postscriptFamilyOtherBlues", "postscriptStemSnapH", "postscriptStemSnapV",
    "openTypeHeadFlags", "openTypeOS2CodePageRanges", "openTypeOS2Selection", "openTypeOS2Type", "openTypeOS2UnicodeRanges", "openTypeOS2FamilyClass", "openTypeOS2Panose"];
const V1_SCALARS: &[&str] = &["unitsPerEm", "ascender", "descender", "xHeight", "capHeight", "italicAngle", "defaultWidth", "fondID", "fontStyle", "msCharSet", "slantAngle",
    "uniqueID", "versionMajor", "versionMinor", "weightValue", "year"];
const HINT_SCALARS: &[&str] = &["blueFuzz", "blueScale", "blueShift"];
const HINT_LISTS: &[&str] = &["hStems", "vStems"];
const HINT_NESTED: &[&str] = &["blueValues", "otherBlues", "familyBlues", "familyOtherBlues"];

fn num_elem(rng: &mut Rng) -> String {
    let t = *rng.pick(NUM_TEXTS);
    let tag = if rng.chance(1, 2) { "real" } else { "integer" };
    format!("<{}>{}</{}>", tag, t, tag)
}

/// every numeric key of fontinfo.plist in the three format versions (scalars, lists, the robofab
/// hint data that format 1 keeps in lib.plist) and kerning.plist values, with non-finite, signed
/// zero, huge, fractional and out-of-range texts through `<real>` and `<integer>`
fn case_legacy_numbers(deep: &Path, rng: &mut Rng, log: &mut CaseLog) {
    let version = *rng.pick(&[1u32, 1, 2, 2, 3]);
    let mut fi = String::new();
    let mut desc = format!("value fontinfo numbers v{}:", version);
    let scalars = if version == 1 { V1_SCALARS } else { V2_SCALARS };
    let mut used: Vec<&str> = vec![];
    for _ in 0..1 + rng.below(3) {
        // unitsPerEm often: it goes through the non-negative conversion of the legacy formats
        let k = if rng.chance(1, 4) { "unitsPerEm" } else { *rng.pick(scalars) };
        if used.contains(&k) {
            continue;
        }
        used.push(k);
        let e = num_elem(rng);
        desc.push_str(&format!(" {}={}", k, e));
        fi.push_str(&format!("<key>{}</key>{}", k, e));
    }
    if version != 1 && rng.chance(1, 3) {
        let k = *rng.pick(V2_LISTS);
        let n = *rng.pick(&[0u64, 1, 2, 3, 9, 10, 11, 14, 15]);
        let items: String = (0..n).map(|_| num_elem(rng)).collect();
        desc.push_str(&format!(" {}=[{} items: {}]", k, n, &items[..items.len().min(120)]));
        fi.push_str(&format!("<key>{}</key><array>{}</array>", k, items));
    }
    let ufo = deep.join("v.ufo");
    tiny_ufo(&ufo, version, Some(fi), None, None);
    if version == 1 && rng.chance(1, 2) {
        let mut h = String::new();
        for _ in 0..1 + rng.below(3) {
            match rng.below(3) {
                0 => h.push_str(&format!("<key>{}</key>{}", *rng.pick(HINT_SCALARS), num_elem(rng))),
                1 => {
                    let n = rng.below(4);
                    let items: String = (0..n).map(|_| num_elem(rng)).collect();
                    h.push_str(&format!("<key>{}</key><array>{}</array>", *rng.pick(HINT_LISTS), items));
                }
                _ => {
                    let n = rng.below(3);
                    let items: String = (0..n).map(|_| format!("<array>{}{}</array>", num_elem(rng), num_elem(rng))).collect();
                    h.push_str(&format!("<key>{}</key><array>{}</array>", *rng.pick(HINT_NESTED), items));
                }
            }
        }
        desc.push_str(&format!(" lib.plist robofab hint data {{{}}}", &h[..h.len().min(300)]));
        let _ = std::fs::write(ufo.join("lib.plist"), format!("{}<dict><key>org.robofab.postScriptHintData</key><dict>{}</dict></dict>\n</plist>\n", PLIST_HEAD, h));
    }
    if rng.chance(1, 3) {
        let (a, b) = (num_elem(rng), num_elem(rng));
        desc.push_str(&format!(" kerning a-b={} @MMK_L_x-b={}", a, b));
        let _ = std::fs::write(ufo.join("kerning.plist"), format!("{}<dict><key>a</key><dict><key>b</key>{}</dict><key>@MMK_L_x</key><dict><key>b</key>{}</dict></dict>\n</plist>\n", PLIST_HEAD, a, b));
        let _ = std::fs::write(ufo.join("groups.plist"), format!("{}<dict><key>@MMK_L_x</key><array><string>a</string></array></dict>\n</plist>\n", PLIST_HEAD));
    }
    log.desc = desc;
    log.hash = fnv(log.desc.as_bytes());
    if let Some(Ok(font)) = log.guard("Font::load", || Font::load(&ufo), |r| r.is_ok()) {
        log.deep = true;
        exercise_font(deep, log, &font, rng, true);
    }
}

/// a leaf text for plist-in-XML glue: a short base (numbers with hex / sign / exponent prefixes in
/// both cases, dates, base64, blanks) with 1-3 multi-byte chars placed so that the byte offsets
/// 1..4 fall inside a character
fn leaf_text(rng: &mut Rng) -> String {
    let bases = ["", " ", "\n\t ", "1", "12", "123", "1234", "12345", "0x", "0X", "0x1", "0X1F", "0xff", "0x1g", "+1", "-1", "+", "-", "+0x1", "-0X1",
        "1e", "1E", "1e5", "1E+5", "1e-5", ".5", "1.", "1.5", "nan", "inf", "-inf", "NaN", "9223372036854775807", "18446744073709551615",
        "18446744073709551616", "-9223372036854775809", "2020-01-01T00:00:00Z", "2020-01-01", "AAAA", "AA==", "A", "true", "s", "0x 1", " 0x1", "0x1 "];
    let base = *rng.pick(&bases);
    match rng.below(6) {
        0 => base.to_string(),
        1 | 2 => {
            // multi-byte chars straddling the first byte offsets: k ASCII bytes, then the char
            let k = rng.below(4) as usize;
            let pre: String = base.chars().filter(|c| c.is_ascii()).take(k).collect();
            let pad = "1".repeat(k.saturating_sub(pre.len()));
            let mut t = format!("{}{}{}", pre, pad, *rng.pick(MB));
            if rng.chance(1, 2) {
                t.push_str(*rng.pick(MB));
            }
            if rng.chance(1, 2) {
                t.push_str(base);
            }
            t
        }
        3 => format!("{}{}", *rng.pick(MB), base),
        4 => {
            let sb = rng.chance(1, 2);
            substitute(rng, base, sb)
        }
        _ => {
            let mut t = String::new();
            for _ in 0..1 + rng.below(3) {
                t.push_str(*rng.pick(MB));
            }
            t
        }
    }
}

/// leaves of the designspace lib glue (norad's serde_xml_plist over quick-xml), numeric XML
/// attributes of designspace elements, and the same leaves read through the plist crate
/// (lib.plist, glif lib); every file is loaded under catch_unwind
fn case_leaf_values(deep: &Path, ds_base: &str, rng: &mut Rng, log: &mut CaseLog) {
    let t = leaf_text(rng);
    let e = xml_escape(&t);
    let kinds = ["integer", "real", "date", "data", "string", "key", "true", "false", "array", "dict"];
    let kind = *rng.pick(&kinds);
    let leaf = match kind {
        "key" => format!("<key>{}</key><string>v</string>", e),
        "true" | "false" => format!("<key>k</key><{}>{}</{}>", kind, e, kind),
        _ => format!("<key>k</key><{}>{}</{}>", kind, e, kind),
    };
    let route = rng.below(5);
    log.desc = format!("value leaf <{}> text={:?} ({} bytes) route={}", kind, t, t.len(), ["designspace lib", "designspace attribute", "lib.plist", "glif lib", "layerinfo lib"][route as usize]);
    log.hash = fnv(log.desc.as_bytes());
    let attr = t.replace('&', "&amp;").replace('<', "&lt;").replace('"', "&quot;");
    match route {
        0 | 1 => {
            // a corpus designspace document without a <lib>: the leaf goes into a new <lib>, or the text
            // replaces the value of one numeric attribute
            let body = if route == 0 {
                ds_base.replacen("</designspace>", &format!("<lib><dict>{}</dict></lib></designspace>", leaf), 1)
            } else {
                let an = *rng.pick(&["xvalue=\"", "minimum=\"", "maximum=\"", "default=\"", "input=\"", "output=\"", "format=\"", "yvalue=\"", "uservalue=\""]);
                match ds_base.find(an) {
                    Some(at) => {
                        let v0 = at + an.len();
                        let v1 = ds_base[v0..].find('"').map(|x| v0 + x).unwrap_or(v0);
                        format!("{}{}{}", &ds_base[..v0], attr, &ds_base[v1..])
                    }
                    None => ds_base.replacen("<axes>", &format!("<axes elidedfallbackname=\"{}\">", attr), 1),
                }
            };
            let p = deep.join("v.designspace");
            let _ = std::fs::write(&p, body);
            if let Some(Ok(d)) = log.guard("DesignSpaceDocument::load", || DesignSpaceDocument::load(&p), |r| r.is_ok()) {
                log.deep = true;
                let q = deep.join("o.designspace");
                if let Some(Ok(())) = log.guard("DesignSpaceDocument::save", || d.save(&q), |r| r.is_ok()) {
                    log.guard("DesignSpaceDocument::load(saved)", || DesignSpaceDocument::load(&q), |r| r.is_ok());
                }
            }
        }
        3 => {
            let glif = format!("<?xml version=\"1.0\" encoding=\"UTF-8\"?>\n<glyph name=\"a\" format=\"2\"><lib><dict>{}</dict></lib></glyph>", leaf);
            if let Some(Ok(g)) = log.guard("Glyph::parse_raw", || Glyph::parse_raw(glif.as_bytes()), |r| r.is_ok()) {
                log.deep = true;
                exercise_glyph(log, &g, &opts_from(rng), true);
            }
        }
        _ => {
            let ufo = deep.join("v.ufo");
            tiny_ufo(&ufo, 3, None, if route == 4 { Some(format!("<key>lib</key><dict>{}</dict>", leaf)) } else { None }, None);
            if route == 2 {
                let _ = std::fs::write(ufo.join("lib.plist"), format!("{}<dict>{}</dict>\n</plist>\n", PLIST_HEAD, leaf));
            }
            if let Some(Ok(font)) = log.guard("Font::load", || Font::load(&ufo), |r| r.is_ok()) {
                log.deep = true;
                exercise_font(deep, log, &font, rng, true);
            }
        }
    }
}

/// structure-aware VALUES for the typed string fields that norad slices or parses by byte offsets
/// or fixed shapes: each value satisfies the length guard in BYTES (or in chars) but not the
/// character class, and would satisfy the class under a weakened test (is_numeric, chars().count())
fn case_values(env: &mut Env, _idx: u64, rng: &mut Rng, log: &mut CaseLog, keep: bool) {
    let (top, deep) = env.case_dir();
    let kind = rng.below(19);
    match kind {
        14..=18 => case_legacy_numbers(&deep, rng, log),
        10..=13 => {
            let base = env.dss.iter().find(|(_, b)| find_all(b, b"<lib").is_empty()).map(|(_, b)| String::from_utf8_lossy(b).to_string()).unwrap_or_default();
            case_leaf_values(&deep, &base, rng, log)
        }
        0..=3 => {
            // openTypeHeadCreated: "YYYY/MM/DD HH:MM:SS", 19 bytes
            let bases = ["2020/01/01 00:00:00", "1999/12/31 23:59:59", "2020/1/01 000:00:00", "0000000000000000000", "2020/01/01 00:00:0", "2020/01/01 00:00:000"];
            let base = *rng.pick(&bases);
            let same_bytes = rng.chance(3, 4);
            let v = match rng.below(8) {
                0 => base.to_string(),
                _ => substitute(rng, base, same_bytes),
            };
            let route = rng.below(5);
            log.desc = format!("value openTypeHeadCreated={:?} ({} bytes, {} chars) route={}", v, v.len(), v.chars().count(),
                ["api", "api", "fontinfo.plist v3", "fontinfo.plist v2", "fontinfo.plist v1"][route as usize]);
            log.hash = fnv(log.desc.as_bytes());
            if route < 2 {
                let mut font = Font::new();
                font.font_info.open_type_head_created = Some(v.clone());
                log.deep = true;
                exercise_font(&deep, log, &font, rng, true);
            } else {
                let ufo = deep.join("v.ufo");
                let ver = [3u32, 2, 1][(route - 2) as usize];
                tiny_ufo(&ufo, ver, Some(format!("<key>openTypeHeadCreated</key><string>{}</string>", xml_escape(&v))), None, None);
                if let Some(Ok(font)) = log.guard("Font::load", || Font::load(&ufo), |r| r.is_ok()) {
                    log.deep = true;
                    exercise_font(&deep, log, &font, rng, true);
                }
            }
        }
        4 | 5 => {
            // colour strings "r,g,b,a"
            let bases = ["1,0,0,1", "0.5,0.25,1,0", "1,1,1,1", "0,0,0", "1,0,0,1,0", "1, 0, 0, 1", ",,,", "1,0,0,1.000"];
            let same_bytes = rng.chance(1, 2);
            let base = *rng.pick(&bases);
            let v = substitute(rng, base, same_bytes);
            log.desc = format!("value color={:?}", v);
            log.hash = fnv(log.desc.as_bytes());
            log.guard("Color::from_str", || v.parse::<Color>().is_ok(), |_| true);
            let glif = format!("<?xml version=\"1.0\" encoding=\"UTF-8\"?>\n<glyph name=\"a\" format=\"2\"><guideline x=\"1\" color=\"{}\"/><anchor x=\"1\" y=\"2\" color=\"{}\"/><image fileName=\"i.png\" color=\"{}\"/></glyph>", v, v, v);
            if let Some(Ok(g)) = log.guard("Glyph::parse_raw", || Glyph::parse_raw(glif.as_bytes()), |r| r.is_ok()) {
                log.deep = true;
                exercise_glyph(log, &g, &opts_from(rng), true);
            }
            let ufo = deep.join("v.ufo");
            tiny_ufo(&ufo, 3, None, Some(format!("<key>color</key><string>{}</string>", xml_escape(&v))), None);
            if let Some(Ok(font)) = log.guard("Font::load", || Font::load(&ufo), |r| r.is_ok()) {
                log.deep = true;
                exercise_font(&deep, log, &font, rng, true);
            }
        }
        6 | 7 => {
            // identifiers around the 100-byte limit, hex code points, names
            let n = *rng.pick(&[1usize, 50, 98, 99, 100, 101, 102, 104]);
            let same_bytes = rng.chance(1, 2);
            let id = substitute(rng, &"a".repeat(n), same_bytes);
            let hb = *rng.pick(&["0041", "10FFFF", "110000", "D800", "FFFFFFFF", "1F600", "00000041", "41"]);
            let hs = rng.chance(1, 2);
            let hex = substitute(rng, hb, hs);
            log.desc = format!("value identifier={:?} ({} bytes, {} chars) hex={:?}", id, id.len(), id.chars().count(), hex);
            log.hash = fnv(log.desc.as_bytes());
            log.guard("Identifier::new", || Identifier::new(&id).is_ok(), |_| true);
            log.guard("Name::new", || Name::new(&id).is_ok(), |_| true);
            let glif = format!("<?xml version=\"1.0\" encoding=\"UTF-8\"?>\n<glyph name=\"a\" format=\"2\"><unicode hex=\"{}\"/><guideline x=\"1\" identifier=\"{}\"/><outline><contour identifier=\"{}x\"><point x=\"0\" y=\"0\" type=\"line\" identifier=\"{}y\"/></contour><component base=\"b\" identifier=\"{}z\"/></outline></glyph>", hex, id, id, id, id);
            if let Some(Ok(g)) = log.guard("Glyph::parse_raw", || Glyph::parse_raw(glif.as_bytes()), |r| r.is_ok()) {
                log.deep = true;
                exercise_glyph(log, &g, &opts_from(rng), true);
            }
            let fi = format!("<key>guidelines</key><array><dict><key>x</key><integer>1</integer><key>identifier</key><string>{}</string></dict></array>", xml_escape(&id));
            let ufo = deep.join("v.ufo");
            tiny_ufo(&ufo, 3, Some(fi), None, None);
            if let Some(Ok(font)) = log.guard("Font::load", || Font::load(&ufo), |r| r.is_ok()) {
                log.deep = true;
                exercise_font(&deep, log, &font, rng, true);
            }
        }
        _ => {
            // numbers in glif attributes (advance, transform, coordinates, angle) and format numbers
            let nums = ["1", "0.5", "-1", "1e3", "360", "0", "1.0", "+1", "100"];
            let (ab, asb) = (*rng.pick(&nums), rng.chance(1, 2));
            let a = substitute(rng, ab, asb);
            let (bb, bsb) = (*rng.pick(&nums), rng.chance(1, 2));
            let b = substitute(rng, bb, bsb);
            let fmt = if rng.chance(1, 4) { substitute(rng, "2", false) } else { (*rng.pick(&["1", "2"])).to_string() };
            log.desc = format!("value numbers a={:?} b={:?} format={:?}", a, b, fmt);
            log.hash = fnv(log.desc.as_bytes());
            let glif = format!("<?xml version=\"1.0\" encoding=\"UTF-8\"?>\n<glyph name=\"a\" format=\"{}\" formatMinor=\"{}\"><advance width=\"{}\" height=\"{}\"/><image fileName=\"i.png\" xScale=\"{}\" xyScale=\"{}\" yOffset=\"{}\"/><guideline x=\"{}\" y=\"{}\" angle=\"{}\"/><outline><contour><point x=\"{}\" y=\"{}\" type=\"line\" smooth=\"{}\"/></contour><component base=\"b\" xScale=\"{}\"/></outline></glyph>", fmt, b, a, b, a, b, a, a, b, a, a, b, a, b);
            let r = log.guard("Glyph::parse_raw", || Glyph::parse_raw(glif.as_bytes()), |r| r.is_ok());
            if let Some(Ok(g)) = r {
                log.deep = true;
                exercise_glyph(log, &g, &opts_from(rng), true);
            }
            let ufo = deep.join("v.ufo");
            let fi = format!("<key>unitsPerEm</key><real>{}</real><key>versionMajor</key><integer>{}</integer><key>openTypeOS2Panose</key><array>{}</array>", xml_escape(&a), xml_escape(&b), format!("<integer>{}</integer>", xml_escape(&b)).repeat(10));
            tiny_ufo(&ufo, 3, Some(fi), None, Some(glif.as_bytes()));
            if let Some(Ok(font)) = log.guard("Font::load", || Font::load(&ufo), |r| r.is_ok()) {
                log.deep = true;
                exercise_font(&deep, log, &font, rng, true);
            }
        }
    }
    if !keep {
        let _ = std::fs::remove_dir_all(top);
    }
}

// ------------------------------------------------------------------------------------ names
const NAME_CHARS: &[&str] = &["a", "A", ".", " ", "_", "/", "é", "É", "ß", "ǅ", "日", "😀", "\u{10FFFF}", "con", "COM1", "aux.", "0", "İ", "ﬃ", "\u{7f}", "\u{0}"];

pub fn gen_name(rng: &mut Rng, target_bytes: usize) -> String {
    let mut s = String::new();
    while s.len() < target_bytes {
        s.push_str(*rng.pick(NAME_CHARS));
    }
    s
}

fn case_names(_env: &mut Env, _idx: u64, rng: &mut Rng, log: &mut CaseLog) {
    let len = *rng.pick(&[0usize, 1, 3, 10, 120, 126, 127, 128, 240, 249, 250, 251, 252, 253, 254, 255, 256, 257, 260, 300, 600]);
    let name = gen_name(rng, len);
    let prefix = match rng.below(6) {
        0 => "glyphs.".to_string(),
        1 => { let l = *rng.pick(&[1usize, 5, 250, 255, 300]); gen_name(rng, l) }
        _ => String::new(),
    };
    let suffix = match rng.below(6) {
        0 => String::new(),
        1 => { let l = *rng.pick(&[1usize, 5, 250, 253, 254, 255, 256, 300]); gen_name(rng, l) }
        _ => ".glif".to_string(),
    };
    let reject = rng.below(120); // number of candidates the closure rejects before accepting
    log.desc = format!("user_name_to_file_name name={:?} prefix={:?} suffix={:?} reject_first={}", name, prefix, suffix, reject);
    log.hash = fnv(log.desc.as_bytes());
    let documented = reject >= 100;
    let mut calls = 0u64;
    let r = log.guard_documented("user_name_to_file_name", documented, || {
        norad::user_name_to_file_name(&name, &prefix, &suffix, |_| {
            calls += 1;
            calls > reject
        })
    });
    if r.is_some() {
        log.deep = true;
    }
    log.guard("Name::new", || Name::new(&name).is_ok(), |_| true);
    log.guard("Identifier::new", || Identifier::new(&name).is_ok(), |_| true);
    let valid = Name::new(&name).is_ok();
    log.guard_documented("Glyph::new", !valid, || Glyph::new(&name));
    let wl = rng.below(4) as usize;
    let ws = gen_name(rng, wl);
    let ws_ok = !ws.is_empty() && ws.bytes().all(|c| c == ws.as_bytes()[0]) && (ws.as_bytes()[0] == b'\t' || ws.as_bytes()[0] == b' ');
    #[allow(deprecated)]
    log.guard_documented("WriteOptions::whitespace", !ws_ok, || WriteOptions::new().whitespace(ws.clone()));
    let ch = rng.below(256) as u8;
    let cnt = *rng.pick(&[0usize, 1, 4, 1000]);
    log.guard_documented("WriteOptions::indent", !(ch == b'\t' || ch == b' '), || WriteOptions::new().indent(ch, cnt));
    let c = [rng.below(5) as f64 / 2.0 - 0.5, f64::NAN, 1.0, 0.0];
    log.guard("Color::new", || Color::new(c[(rng.0 % 4) as usize], c[1], c[2], c[3]).is_ok(), |_| true);
    log.guard("Color::from_str", || name.parse::<Color>().is_ok(), |_| true);
}

// ------------------------------------------------------------------------------------ deep nesting (child processes)
/// nesting depth above which an abort (stack exhaustion inside the plist / serde layers) is the
/// known class `deep-nesting`; far below every measured abort depth (see evidence `nesting`)
pub const DEPTH_CLASS: usize = 512;

fn show<T, E: std::fmt::Debug>(r: &Option<Result<T, E>>) {
    if std::env::var("C03_VERBOSE").is_ok() {
        if let Some(Err(e)) = r {
            let s = format!("{:?}", e);
            eprintln!("error value: {}", &s[..s.len().min(400)]);
        }
    }
}

pub fn depth_case(kind: &str, d: usize, work: &Path, log: &mut CaseLog) {
    log.desc = format!("nesting kind={} depth={}", kind, d);
    match kind {
        "glif-lib-array" | "glif-lib-dict" => {
            let inner = if kind == "glif-lib-array" { nest_xml(d, "<array>", "</array>", "<integer>1</integer>") } else { nest_xml(d, "<dict><key>k</key>", "</dict>", "<integer>1</integer>") };
            let s = format!("<?xml version=\"1.0\" encoding=\"UTF-8\"?>\n<glyph name=\"a\" format=\"2\"><lib><dict><key>k</key>{}</dict></lib></glyph>", inner);
            if let Some(Ok(g)) = log.guard("Glyph::parse_raw", || Glyph::parse_raw(s.as_bytes()), |r| r.is_ok()) {
                log.guard("Glyph::encode_xml", || g.encode_xml(), |r| r.is_ok());
                log.guard("Glyph::clone+drop", || drop(g.clone()), |_| true);
            }
        }
        "glif-elements" => {
            let s = format!("<?xml version=\"1.0\" encoding=\"UTF-8\"?>\n<glyph name=\"a\" format=\"2\">{}</glyph>", nest_xml(d, "<outline>", "</outline>", ""));
            log.guard("Glyph::parse_raw", || Glyph::parse_raw(s.as_bytes()), |r| r.is_ok());
        }
        "api-lib-encode" => {
            let mut v = plist::Value::Integer(1.into());
            for _ in 0..d {
                v = plist::Value::Array(vec![v]);
            }
            let mut g = Glyph::new("a");
            g.lib.insert("k".into(), v);
            log.guard("Glyph::encode_xml", || g.encode_xml(), |r| r.is_ok());
            std::mem::forget(g); // dropping a deeply nested plist::Value recurses too; not norad's code
        }
        "designspace-lib" | "designspace-elements" => {
            let repo = std::env::var("VERIF_REPO").unwrap_or_else(|_| "/repo".to_string());
            let mut base = String::new();
            for f in ["single_wght.designspace", "no_instances.designspace", "optional_instance_names.designspace", "optional_source_names.designspace", "MutatorSans.designspace", "wght.designspace"] {
                let t = std::fs::read_to_string(Path::new(&repo).join("testdata").join(f)).unwrap_or_default();
                if !t.is_empty() && !t.contains("<lib") {
                    base = t;
                    break;
                }
            }
            let inject = if kind == "designspace-lib" {
                format!("<lib><dict><key>k</key>{}</dict></lib>", nest_xml(d, "<array>", "</array>", "<integer>1</integer>"))
            } else {
                nest_xml(d, "<unknown>", "</unknown>", "")
            };
            let s = base.replacen("</designspace>", &format!("{}</designspace>", inject), 1);
            let p = work.join("d.designspace");
            let _ = std::fs::write(&p, s);
            let rr = log.guard("DesignSpaceDocument::load", || DesignSpaceDocument::load(&p), |r| r.is_ok());
            show(&rr);
            if let Some(Ok(doc)) = rr {
                log.guard("DesignSpaceDocument::save", || doc.save(work.join("o.designspace")), |r| r.is_ok());
                std::mem::forget(doc);
            }
        }
        "ufo-lib" | "ufo-fontinfo" | "ufo-groups" | "ufo-layerinfo" => {
            let ufo = work.join("n.ufo");
            let _ = std::fs::create_dir_all(ufo.join("glyphs"));
            let _ = std::fs::write(ufo.join("metainfo.plist"), format!("{}<dict><key>creator</key><string>c</string><key>formatVersion</key><integer>3</integer></dict></plist>", PLIST_HEAD));
            let _ = std::fs::write(ufo.join("glyphs/contents.plist"), contents_plist(&[]));
            let _ = std::fs::write(ufo.join("layercontents.plist"), layercontents(&[("public.default".into(), "glyphs".into())]));
            let nested = nest_xml(d, "<array>", "</array>", "<integer>1</integer>");
            let (file, body) = match kind {
                "ufo-lib" => ("lib.plist", format!("<dict><key>k</key>{}</dict>", nested)),
                "ufo-fontinfo" => ("fontinfo.plist", format!("<dict><key>guidelines</key>{}</dict>", nested)),
                "ufo-groups" => ("groups.plist", format!("<dict><key>g</key>{}</dict>", nested)),
                _ => ("glyphs/layerinfo.plist", format!("<dict><key>lib</key><dict><key>k</key>{}</dict></dict>", nested)),
            };
            let _ = std::fs::write(ufo.join(file), format!("{}{}</plist>", PLIST_HEAD, body));
            let rr = log.guard("Font::load", || Font::load(&ufo), |r| r.is_ok());
            show(&rr);
            if let Some(Ok(f)) = rr {
                log.guard("Font::save", || f.save(work.join("o.ufo")), |r| r.is_ok());
                std::mem::forget(f);
            }
        }
        "data-dirs" => {
            let ufo = work.join("n.ufo");
            let _ = std::fs::create_dir_all(ufo.join("glyphs"));
            let _ = std::fs::write(ufo.join("metainfo.plist"), format!("{}<dict><key>creator</key><string>c</string><key>formatVersion</key><integer>3</integer></dict></plist>", PLIST_HEAD));
            let _ = std::fs::write(ufo.join("glyphs/contents.plist"), contents_plist(&[]));
            let _ = std::fs::write(ufo.join("layercontents.plist"), layercontents(&[("public.default".into(), "glyphs".into())]));
            // a directory chain of depth d under data/ (relative steps: PATH_MAX does not apply to each step)
            let mut cur = ufo.join("data");
            let _ = std::fs::create_dir_all(&cur);
            for _ in 0..d.min(2000) {
                cur = cur.join("d");
                if std::fs::create_dir(&cur).is_err() {
                    break;
                }
            }
            let rr = log.guard("Font::load", || Font::load(&ufo), |r| r.is_ok());
            show(&rr);
            if let Some(Ok(f)) = rr {
                log.guard("Font::save", || f.save(work.join("o.ufo")), |r| r.is_ok());
            }
        }
        _ => {}
    }
}

// ------------------------------------------------------------------------------------ API histories
pub mod api {
    use super::*;

    const GOOD: &[&str] = &["a", "A", "b", "a_", "A_", "con", "com1", ".notdef", "foo.bar", "public.default", "glyphs", "x y", "Ünï", "日本", "aux", "B", "ab", "aB"];
    const BAD: &[&str] = &["", "\u{0}", "a\u{7f}", "\u{85}x", "a\nb"];

    fn nm(rng: &mut Rng) -> String {
        match rng.below(12) {
            0 => rng.pick(BAD).to_string(),
            1 => { let l = *rng.pick(&[250usize, 255, 300]); gen_name(rng, l) }
            _ => rng.pick(GOOD).to_string(),
        }
    }
    fn good(rng: &mut Rng) -> Name {
        Name::new(*rng.pick(GOOD)).unwrap()
    }
    fn fl(rng: &mut Rng) -> f64 {
        *rng.pick(&[0.0, 1.0, -1.0, 0.5, 1e300, -1e300, f64::NAN, f64::INFINITY, f64::NEG_INFINITY, -0.0, 1e-320, 360.0, 400.0, 2147483648.0, 0.999999999999])
    }
    fn ident(rng: &mut Rng) -> Option<Identifier> {
        match rng.below(4) {
            0 => None,
            1 => Identifier::new("dup").ok(),
            2 => Identifier::new(&format!("id{}", rng.below(5))).ok(),
            _ => Some(Identifier::from_uuidv4()),
        }
    }
    fn pvalue(rng: &mut Rng, depth: u32) -> plist::Value {
        match rng.below(if depth > 3 { 7 } else { 9 }) {
            0 => plist::Value::String(rng.pick(&["", "s", "a\nb", "\n</plist>", "<plist version=\"1.0\">\n", "]]>", "\u{0}", "&amp;", "\r\n", " x "]).to_string()),
            1 => plist::Value::Integer((rng.next() as i64).into()),
            2 => plist::Value::Real(fl(rng)),
            3 => plist::Value::Boolean(rng.chance(1, 2)),
            4 => plist::Value::Data((0..rng.below(5)).map(|_| rng.below(256) as u8).collect()),
            5 => plist::Value::Date(std::time::SystemTime::UNIX_EPOCH.into()),
            6 => plist::Value::Uid(plist::Uid::new(rng.below(10))),
            7 => plist::Value::Array((0..rng.below(3)).map(|_| pvalue(rng, depth + 1)).collect()),
            _ => {
                let mut d = plist::Dictionary::new();
                for _ in 0..rng.below(3) {
                    d.insert(rng.pick(&["k", "", "a\nb", "public.objectLibs", "<key>"]).to_string(), pvalue(rng, depth + 1));
                }
                plist::Value::Dictionary(d)
            }
        }
    }
    fn plib(rng: &mut Rng) -> plist::Dictionary {
        let mut d = plist::Dictionary::new();
        for _ in 0..1 + rng.below(3) {
            d.insert(rng.pick(&["k", "com.x", "a\nb", "", "z"]).to_string(), pvalue(rng, 0));
        }
        d
    }
    fn ptype(rng: &mut Rng) -> PointType {
        rng.pick(&[PointType::Move, PointType::Line, PointType::OffCurve, PointType::Curve, PointType::QCurve]).clone()
    }
    fn transform(rng: &mut Rng) -> AffineTransform {
        AffineTransform { x_scale: fl(rng), xy_scale: fl(rng), yx_scale: fl(rng), y_scale: fl(rng), x_offset: fl(rng), y_offset: fl(rng) }
    }
    fn color(rng: &mut Rng) -> Option<Color> {
        if rng.chance(1, 2) {
            Color::new(0.5, 0.25, 1.0, 0.0).ok()
        } else {
            None
        }
    }
    fn guideline(rng: &mut Rng, tags: &mut Vec<String>) -> Guideline {
        let line = match rng.below(3) {
            0 => Line::Vertical(fl(rng)),
            1 => Line::Horizontal(fl(rng)),
            _ => Line::Angle { x: fl(rng), y: fl(rng), degrees: fl(rng) },
        };
        let mut g = Guideline::new(line, if rng.chance(1, 2) { Some(good(rng)) } else { None }, color(rng), ident(rng));
        match rng.below(4) {
            0 => {
                g.replace_lib(plib(rng));
            }
            1 => {
                g.replace_lib(plib(rng));
                g.take_lib();
            }
            _ => {}
        }
        if rng.chance(1, 4) {
            if let Some(i) = ident(rng) {
                g.replace_identifier(i);
            }
        }
        let _ = tags;
        g
    }

    pub fn glyph(rng: &mut Rng, name: &str, tags: &mut Vec<String>, desc: &mut String) -> Option<Glyph> {
        if Name::new(name).is_err() {
            return None; // Glyph::new panics on these (documented); exercised by the `names` stream
        }
        let mut g = Glyph::new(name);
        g.width = fl(rng);
        g.height = fl(rng);
        if rng.chance(1, 3) {
            g.note = Some(rng.pick(&["", "n", " x ", "a\nb", "]]>", "\u{0}", "<note>"]).to_string());
        }
        for _ in 0..rng.below(3) {
            g.codepoints.insert(*rng.pick(&['a', '\u{0}', '\u{10FFFF}', 'é']));
        }
        for _ in 0..rng.below(4) {
            let n = rng.below(7);
            let mut pts = vec![];
            for _ in 0..n {
                let mut p = ContourPoint::new(fl(rng), fl(rng), ptype(rng), rng.chance(1, 2), if rng.chance(1, 4) { Some(good(rng)) } else { None }, if rng.chance(1, 4) { ident(rng) } else { None });
                if rng.chance(1, 8) {
                    p.replace_lib(plib(rng));
                }
                pts.push(p);
            }
            let mut c = Contour::new(pts, if rng.chance(1, 3) { ident(rng) } else { None });
            if rng.chance(1, 5) {
                c.replace_lib(plib(rng));
            }
            g.contours.push(c);
        }
        for _ in 0..rng.below(3) {
            let mut c = Component::new(good(rng), transform(rng), if rng.chance(1, 3) { ident(rng) } else { None });
            if rng.chance(1, 5) {
                c.replace_lib(plib(rng));
            }
            g.components.push(c);
        }
        for _ in 0..rng.below(3) {
            let mut a = Anchor::new(fl(rng), fl(rng), if rng.chance(1, 2) { Some(good(rng)) } else { None }, color(rng), if rng.chance(1, 3) { ident(rng) } else { None });
            if rng.chance(1, 5) {
                a.replace_lib(plib(rng));
                if rng.chance(1, 3) {
                    a.take_lib();
                }
            }
            g.anchors.push(a);
        }
        for _ in 0..rng.below(3) {
            g.guidelines.push(guideline(rng, tags));
        }
        if rng.chance(1, 4) {
            g.lib = plib(rng);
        }
        if rng.chance(1, 6) {
            let path: PathBuf = match rng.below(6) {
                0 => {
                    // a file name that is not valid UTF-8 (rejected by Image::new since 2bd9911)
                    desc.push_str(" <image with non-UTF-8 file name>");
                    PathBuf::from(os(b"im\xff\xfeg.png"))
                }
                1 => PathBuf::from(".."),
                2 => PathBuf::from("a/b.png"),
                3 => PathBuf::from(""),
                4 => PathBuf::from("/abs.png"),
                _ => PathBuf::from("image.png"),
            };
            if let Ok(im) = Image::new(path, color(rng), transform(rng)) {
                g.image = Some(im);
            }
            let _ = &tags;
        }
        Some(g)
    }

    fn store_path(rng: &mut Rng) -> PathBuf {
        match rng.below(14) {
            0 => PathBuf::from(""),
            1 => PathBuf::from("/abs"),
            2 => PathBuf::from(".."),
            3 => PathBuf::from("a/../b"),
            4 => PathBuf::from("a/b"),
            5 => PathBuf::from("a"),
            6 => PathBuf::from("a/b/c"),
            7 => PathBuf::from("./a"),
            8 => PathBuf::from("a/"),
            9 => PathBuf::from(os(b"n\xffn")),
            10 => PathBuf::from("a//b"),
            11 => PathBuf::from("img.png"),
            12 => PathBuf::from("x".repeat(300)),
            _ => PathBuf::from("b"),
        }
    }

    fn layer_pick(rng: &mut Rng, font: &Font) -> Option<String> {
        let names: Vec<String> = font.layers.names().map(|n| n.to_string()).collect();
        if names.is_empty() {
            None
        } else {
            Some(names[rng.below(names.len() as u64) as usize].clone())
        }
    }

    pub fn case_api(env: &mut Env, idx: u64, rng: &mut Rng, log: &mut CaseLog, keep: bool) {
        let (top, deep) = env.case_dir();
        let mut desc = String::from("api history:");
        let mut tags: Vec<String> = vec![];
        // start state: a new font, or a loaded corpus font (lazily loaded stores, loaded layers)
        let mut font = if rng.chance(1, 3) {
            let small: Vec<usize> = (0..env.ufos.len()).filter(|i| env.ufos[*i].1.len() < 20).collect();
            let (name, t) = &env.ufos[small[rng.below(small.len() as u64) as usize]];
            let src = deep.join("src.ufo");
            write_tree(&src, t);
            desc.push_str(&format!(" Font::load({})", name));
            match log.guard("Font::load", || Font::load(&src), |r| r.is_ok()) {
                Some(Ok(f)) => f,
                _ => Font::new(),
            }
        } else {
            desc.push_str(" Font::new()");
            Font::new()
        };
        let nops = 1 + rng.below(24);
        let mut stop = false;
        // C03_SKIP=i,j,..: operations whose effects are discarded (same random stream, so the other
        // operations are unchanged): used by the driver to shrink a failing history
        let skips: Vec<u64> = std::env::var("C03_SKIP").ok().map(|s| s.split(',').filter_map(|x| x.parse().ok()).collect()).unwrap_or_default();
        for opi in 0..nops {
            if stop {
                break;
            }
            let saved = if skips.contains(&opi) { Some((font.clone(), tags.clone(), desc.len())) } else { None };
            log.mute = saved.is_some();
            let before = log.panics.len();
            let op = rng.below(40);
            match op {
                0..=2 => {
                    let n = nm(rng);
                    desc.push_str(&format!(" new_layer({:?})", n));
                    log.guard("LayerContents::new_layer", || font.layers.new_layer(&n).is_ok(), |r| *r);
                }
                3 => {
                    let n = layer_pick(rng, &font).unwrap_or_default();
                    desc.push_str(&format!(" layers.remove({:?})", n));
                    log.guard("LayerContents::remove", || font.layers.remove(&n).is_some(), |r| *r);
                }
                4..=6 => {
                    let old = if rng.chance(4, 5) { layer_pick(rng, &font).unwrap_or_default() } else { nm(rng) };
                    let new = if rng.chance(1, 3) { layer_pick(rng, &font).unwrap_or_default() } else { nm(rng) };
                    let ow = rng.chance(1, 2);
                    desc.push_str(&format!(" rename_layer({:?},{:?},{})", old, new, ow));
                    log.guard("LayerContents::rename_layer", || font.layers.rename_layer(&old, &new, ow).is_ok(), |r| *r);
                }
                7 => {
                    let n = nm(rng);
                    desc.push_str(&format!(" get_or_create_layer({:?})", n));
                    log.guard("LayerContents::get_or_create_layer", || font.layers.get_or_create_layer(&n).is_ok(), |r| *r);
                }
                8 => {
                    let m = rng.below(3);
                    desc.push_str(&format!(" layers.retain(kind {})", m));
                    log.guard("LayerContents::retain", || font.layers.retain(|l| match m { 0 => false, 1 => true, _ => l.name().len() % 2 == 0 }), |_| true);
                }
                9 => {
                    desc.push_str(" remove_empty_layers()");
                    log.guard("LayerContents::remove_empty_layers", || font.layers.remove_empty_layers(), |_| true);
                }
                10 => {
                    // class layer-slot-assign: a whole Layer value written through a `&mut Layer`
                    if rng.chance(1, 2) {
                        let src = layer_pick(rng, &font).and_then(|n| font.layers.get(&n).cloned());
                        let dst = layer_pick(rng, &font);
                        if let (Some(src), Some(dst)) = (src, dst) {
                            desc.push_str(&format!(" *layers.get_mut({:?}) = clone of layer {:?} (path {:?})", dst, src.name().as_str(), src.path()));
                            if !tags.iter().any(|t| t == "layer-slot-assign") {
                                tags.push("layer-slot-assign".into());
                            }
                            if let Some(slot) = font.layers.get_mut(&dst) {
                                *slot = src;
                            }
                        }
                    } else {
                        desc.push_str(" font.layers = LayerContents::default()");
                        font.layers = LayerContents::default();
                    }
                }
                11..=16 => {
                    let n = nm(rng);
                    let l = layer_pick(rng, &font).unwrap_or_default();
                    if let Some(g) = glyph(rng, &n, &mut tags, &mut desc) {
                        desc.push_str(&format!(" layer({:?}).insert_glyph({:?})", l, n));
                        log.guard("Layer::insert_glyph", || if let Some(layer) = font.layers.get_mut(&l) { layer.insert_glyph(g) }, |_| true);
                    }
                }
                17 => {
                    let n = nm(rng);
                    let l = layer_pick(rng, &font).unwrap_or_default();
                    desc.push_str(&format!(" layer({:?}).remove_glyph({:?})", l, n));
                    log.guard("Layer::remove_glyph", || font.layers.get_mut(&l).map(|layer| layer.remove_glyph(&n).is_some()), |_| true);
                }
                18..=20 => {
                    let (a, b) = (nm(rng), nm(rng));
                    let ow = rng.chance(1, 2);
                    let l = layer_pick(rng, &font).unwrap_or_default();
                    desc.push_str(&format!(" layer({:?}).rename_glyph({:?},{:?},{})", l, a, b, ow));
                    log.guard("Layer::rename_glyph", || font.layers.get_mut(&l).map(|layer| layer.rename_glyph(&a, &b, ow).is_ok()).unwrap_or(false), |r| *r);
                }
                21 => {
                    let l = layer_pick(rng, &font).unwrap_or_default();
                    desc.push_str(&format!(" layer({:?}).clear()", l));
                    log.guard("Layer::clear", || if let Some(layer) = font.layers.get_mut(&l) { layer.clear() }, |_| true);
                }
                22 => {
                    let l = layer_pick(rng, &font).unwrap_or_default();
                    let m = rng.below(3);
                    desc.push_str(&format!(" layer({:?}).retain(kind {})", l, m));
                    log.guard("Layer::retain", || if let Some(layer) = font.layers.get_mut(&l) { layer.retain(|n, _| match m { 0 => false, 1 => n.len() % 2 == 0, _ => true }) }, |_| true);
                }
                23 => {
                    let l = layer_pick(rng, &font).unwrap_or_default();
                    let n = good(rng);
                    let other = rng.pick(GOOD).to_string();
                    if let Some(g) = glyph(rng, &other, &mut tags, &mut desc) {
                        desc.push_str(&format!(" layer({:?}).entry({:?}).or_insert(glyph {:?})", l, n.as_str(), other));
                        log.guard("Layer::entry.or_insert", || if let Some(layer) = font.layers.get_mut(&l) { layer.entry(n).or_insert(g); }, |_| true);
                    }
                }
                24 => {
                    // class entry-remove: a glyph removed through the raw map entry
                    let l = layer_pick(rng, &font).unwrap_or_default();
                    let names: Vec<Name> = font.layers.get(&l).map(|la| la.iter().map(|g| g.name().clone()).collect()).unwrap_or_default();
                    if !names.is_empty() {
                        let n = names[rng.below(names.len() as u64) as usize].clone();
                        desc.push_str(&format!(" layer({:?}).entry({:?}) -> OccupiedEntry::remove()", l, n.as_str()));
                        if !tags.iter().any(|t| t == "entry-remove") {
                            tags.push("entry-remove".into());
                        }
                        log.guard("Layer::entry.remove", || if let Some(layer) = font.layers.get_mut(&l) {
                            if let std::collections::btree_map::Entry::Occupied(o) = layer.entry(n) { o.remove(); }
                        }, |_| true);
                    }
                }
                25 | 26 => {
                    // edit a glyph in place through get_glyph_mut / iter_mut
                    let l = layer_pick(rng, &font).unwrap_or_default();
                    let names: Vec<Name> = font.layers.get(&l).map(|la| la.iter().map(|g| g.name().clone()).collect()).unwrap_or_default();
                    if !names.is_empty() {
                        let n = names[rng.below(names.len() as u64) as usize].clone();
                        let other = rng.pick(GOOD).to_string();
                        let repl = glyph(rng, &other, &mut tags, &mut desc);
                        let kind = rng.below(4);
                        desc.push_str(&format!(" layer({:?}).get_glyph_mut({:?}) edit{}", l, n.as_str(), kind));
                        let lib = plib(rng);
                        log.guard("Layer::get_glyph_mut", || {
                            if let Some(g) = font.layers.get_mut(&l).and_then(|la| la.get_glyph_mut(&n)) {
                                match kind {
                                    0 => {
                                        if let Some(r) = repl { *g = r; }
                                    }
                                    1 => {
                                        g.lib.insert("public.objectLibs".into(), plist::Value::Dictionary(lib));
                                    }
                                    2 => {
                                        for c in &mut g.contours { c.points.clear(); }
                                    }
                                    _ => {
                                        for a in &mut g.anchors { a.replace_lib(lib.clone()); a.take_lib(); }
                                    }
                                }
                            }
                        }, |_| true);
                    }
                }
                27 | 28 => {
                    let p = store_path(rng);
                    let data: Vec<u8> = if rng.chance(1, 2) { b"\x89PNG\r\n\x1a\nrest".to_vec() } else { b"plain".to_vec() };
                    let which = rng.chance(1, 2);
                    desc.push_str(&format!(" {}.insert({:?})", if which { "data" } else { "images" }, p));
                    if which {
                        log.guard("DataStore::insert", || font.data.insert(p.clone(), data.clone()).is_ok(), |r| *r);
                    } else {
                        log.guard("ImageStore::insert", || font.images.insert(p.clone(), data.clone()).is_ok(), |r| *r);
                    }
                }
                29 => {
                    let p = store_path(rng);
                    desc.push_str(&format!(" data.remove/get({:?}); images.get", p));
                    log.guard("DataStore::get", || font.data.get(&p).map(|r| r.is_ok()), |_| true);
                    log.guard("ImageStore::get", || font.images.get(&p).map(|r| r.is_ok()), |_| true);
                    if rng.chance(1, 2) {
                        font.data.remove(&p);
                    } else {
                        font.images.remove(&p);
                    }
                    if rng.chance(1, 8) {
                        font.data.clear();
                    }
                }
                30..=32 => {
                    // font info
                    let k = rng.below(9);
                    desc.push_str(&format!(" font_info edit{}", k));
                    let fi = &mut font.font_info;
                    match k {
                        0 => {
                            let dates = ["2020/01/01 00:00:00", "2020/00/00 00:00:00", "2020/13/01 00:00:00", "2020/01/01 24:00:00", "ééééééééé1", "2020/01/01 00:00:0", "                   ", "////////// ::::::::", "2020/01/01 00:00:00\u{0}", "2020/1/01 000:00:00", "99999999999999999999999", "2020/01/01T00:00:00", "٢٠٢٠/٠١/٠١", "2020/01/01 00:00:6é"];
                            let mut d = rng.pick(&dates).to_string();
                            if rng.chance(1, 2) {
                                // a 19-byte string with one multi-byte char somewhere inside a valid date
                                let (ch, w) = *rng.pick(&[("é", 2usize), ("日", 3), ("😀", 4)]);
                                let at = rng.below((19 - w + 1) as u64) as usize;
                                let base = "2020/01/01 00:00:00";
                                d = format!("{}{}{}", &base[..at], ch, &base[at + w..]);
                            }
                            desc.push_str(&format!("[openTypeHeadCreated={:?}]", d));
                            fi.open_type_head_created = Some(d);
                        }
                        1 => {
                            let n = rng.below(4);
                            fi.open_type_gasp_range_records = Some((0..n).map(|_| norad::fontinfo::GaspRangeRecord { range_max_ppem: rng.below(5) as u32 * 1000, range_gasp_behavior: vec![] }).collect());
                        }
                        2 => {
                            let n = rng.below(17);
                            fi.postscript_blue_values = Some((0..n).map(|_| fl(rng)).collect());
                            fi.postscript_other_blues = Some((0..rng.below(12)).map(|_| fl(rng)).collect());
                            fi.postscript_stem_snap_h = Some((0..rng.below(14)).map(|_| fl(rng)).collect());
                        }
                        3 => {
                            let n = rng.below(4);
                            let mut gs = vec![];
                            for _ in 0..n {
                                gs.push(guideline(rng, &mut tags));
                            }
                            fi.guidelines = Some(gs);
                        }
                        4 => {
                            fi.open_type_os2_selection = Some((0..rng.below(4)).map(|_| rng.below(9) as u8).collect());
                            fi.open_type_os2_family_class = Some(norad::fontinfo::Os2FamilyClass { class_id: rng.below(20) as u8, subclass_id: rng.below(20) as u8 });
                        }
                        5 => {
                            fi.units_per_em = norad::fontinfo::NonNegativeIntegerOrFloat::new(fl(rng));
                            fi.ascender = Some(fl(rng));
                            fi.italic_angle = Some(fl(rng));
                        }
                        6 => {
                            fi.woff_metadata_extensions = Some(vec![]);
                        }
                        7 => {
                            fi.family_name = Some(rng.pick(&["", "F", "\u{0}", "a\nb", "]]>"]).to_string());
                            fi.version_major = Some(i32::MIN);
                        }
                        _ => {
                            *fi = Default::default();
                        }
                    }
                }
                33 | 34 => {
                    // groups / kerning
                    let gname = rng.pick(&["public.kern1.a", "public.kern2.a", "public.kern1.b", "public.kern1.", "g", "@MMK_L_x"]).to_string();
                    let members: Vec<Name> = (0..rng.below(3)).map(|_| good(rng)).collect();
                    desc.push_str(&format!(" groups.insert({:?},{:?}); kerning pair", gname, members.iter().map(|m| m.as_str().to_string()).collect::<Vec<_>>()));
                    if let Ok(n) = Name::new(&gname) {
                        font.groups.insert(n, members);
                    }
                    let (a, b) = (good(rng), good(rng));
                    font.kerning.entry(a).or_default().insert(b, fl(rng));
                }
                35 => {
                    desc.push_str(" font.lib edit");
                    if rng.chance(1, 3) {
                        font.lib.insert("public.objectLibs".into(), pvalue(rng, 0));
                    } else {
                        font.lib = plib(rng);
                    }
                }
                36 => {
                    let v = *rng.pick(&[FormatVersion::V1, FormatVersion::V2, FormatVersion::V3]);
                    desc.push_str(&format!(" meta.format_version={:?}", v));
                    font.meta.format_version = v;
                    font.meta.creator = if rng.chance(1, 2) { Some("x".into()) } else { None };
                    font.meta.format_version_minor = if rng.chance(1, 2) { 7 } else { 0 };
                }
                37 => {
                    font.features = rng.pick(&["", "feature a {} a;", "a\r\nb\rc", "\u{0}"]).to_string();
                    desc.push_str(" features edit");
                }
                38 => {
                    desc.push_str(" font.clone()");
                    let c = log.guard("Font::clone", || font.clone(), |_| true);
                    if let Some(c) = c {
                        font = c;
                    }
                }
                _ => {
                    desc.push_str(" guidelines_mut push");
                    let g = guideline(rng, &mut tags);
                    log.guard("Font::guidelines_mut", || font.guidelines_mut().push(g), |_| true);
                }
            }
            if let Some((f, t, dl)) = saved {
                font = f;
                tags = t;
                desc.truncate(dl);
                log.mute = false;
            }
            if log.panics.len() > before {
                stop = true; // a panic inside a mutating call may leave the value half-updated
            }
        }
        for t in &tags {
            log.tag(t);
        }
        desc.push_str(" ; finally validate/save/encode/kurbo/reload");
        log.hash = fnv(desc.as_bytes()) ^ idx.rotate_left(40);
        log.desc = desc;
        log.deep = true;
        if !stop {
            exercise_font(&deep, log, &font, rng, true);
        }
        let _ = keep;
        let _ = std::fs::remove_dir_all(top);
    }
}

#[allow(dead_code)]
fn _unused(_: Layer) {}
