//! C11: contour legality through Glyph::parse_raw on one-contour documents.
use crate::util::*;
use norad::{Glyph, PointType};
use std::fmt::Write as _;

const TYPES: [&str; 5] = ["move", "line", "offcurve", "curve", "qcurve"];

fn doc(digits: &[u8], variant: u64) -> String {
    doc_fmt(digits, variant, false)
}

/// `legacy`: the same contour as a format 1 glif whose points all carry a `name` attribute
/// (a lone named `move` point is an implicit anchor there and is not rendered this way).
fn doc_fmt(digits: &[u8], variant: u64, legacy: bool) -> String {
    let mut s = String::from(if legacy {
        "<?xml version=\"1.0\" encoding=\"UTF-8\"?>\n<glyph name=\"a\" format=\"1\">\n<outline>\n<contour>\n"
    } else {
        "<?xml version=\"1.0\" encoding=\"UTF-8\"?>\n<glyph name=\"a\" format=\"2\">\n<outline>\n<contour>\n"
    });
    for (i, d) in digits.iter().enumerate() {
        let t = (d / 2) as usize;
        let smooth = d % 2 == 1;
        // XML attribute order is insignificant: the variant picks a permutation per point
        let mut attrs: Vec<String> = vec![
            format!("x=\"{}\"", i as i64 + 1),
            format!("y=\"{}\"", -2 * (i as i64) - 1),
        ];
        // an off-curve may be spelled with or without the type attribute
        if t != 2 || (variant >> (i % 60)) & 1 == 1 {
            attrs.push(format!("type=\"{}\"", TYPES[t]));
        }
        if smooth {
            attrs.push("smooth=\"yes\"".to_string());
        } else if (variant >> ((i + 7) % 60)) & 1 == 1 {
            attrs.push("smooth=\"no\"".to_string());
        }
        if legacy {
            attrs.push(format!("name=\"p{}\"", i));
        }
        if variant != 0 && variant != u64::MAX {
            let mut r = Rng::new(variant ^ (i as u64).wrapping_mul(0x9E37_79B9));
            for k in (1..attrs.len()).rev() {
                let j = r.below(k as u64 + 1) as usize;
                attrs.swap(k, j);
            }
        }
        s.push_str("<point");
        for a in &attrs {
            s.push(' ');
            s.push_str(a);
        }
        s.push_str("/>\n");
    }
    s.push_str("</contour>\n</outline>\n</glyph>\n");
    s
}

/// 'A': canonical and permuted rendering of the same sequence got different verdicts.
/// verdict digit: 0 accepted and returned unchanged; 1..5 builder errors; 7 accepted but the
/// returned contour differs from the input; 8 other error; 9 panic
pub fn verdict(digits: &[u8], variant: u64) -> char {
    let a = verdict1(digits, 0);
    // the same sequence in a format 1 glif with named points must be judged and returned alike
    // (except the lone `move`, which format 1 reads as an anchor)
    if !(digits.len() == 1 && digits[0] / 2 == 0) && verdict_doc(digits, &doc_fmt(digits, variant, true)) != a {
        return 'B';
    }
    if variant == 0 {
        return a;
    }
    let b = verdict1(digits, variant);
    if a == b {
        a
    } else {
        'A' // the verdict depends on attribute order / spelling, not on the sequence
    }
}

fn verdict1(digits: &[u8], variant: u64) -> char {
    let d = doc(digits, variant);
    verdict_doc(digits, &d)
}

fn verdict_doc(digits: &[u8], d: &str) -> char {
    let r = catch(|| Glyph::parse_raw(d.as_bytes()));
    match r {
        Err(_) => '9',
        Ok(Err(e)) => {
            let k = format!("{:?}", e);
            if k.contains("UnexpectedMove") {
                '1'
            } else if k.contains("UnexpectedPointAfterOffCurve") {
                '2'
            } else if k.contains("UnexpectedSmooth") {
                '3'
            } else if k.contains("TooManyOffCurves") {
                '4'
            } else if k.contains("TrailingOffCurves") {
                '5'
            } else {
                '8'
            }
        }
        Ok(Ok(g)) => {
            if digits.is_empty() {
                return if g.contours.is_empty() { '0' } else { '7' };
            }
            if g.contours.len() != 1 || g.contours[0].points.len() != digits.len() {
                return '7';
            }
            for (i, (p, d)) in g.contours[0].points.iter().zip(digits).enumerate() {
                let t = match p.typ {
                    PointType::Move => 0,
                    PointType::Line => 1,
                    PointType::OffCurve => 2,
                    PointType::Curve => 3,
                    PointType::QCurve => 4,
                };
                if t != d / 2
                    || p.smooth != (d % 2 == 1)
                    || p.x != (i as f64 + 1.0)
                    || p.y != (-2.0 * i as f64 - 1.0)
                {
                    return '7';
                }
            }
            '0'
        }
    }
}

/// A glif with a first contour `a` (legal by construction), a separator (0 nothing, 1 a component,
/// 2 an empty contour, 3 both) and the contour under test `b`. The builder must judge `b` exactly as
/// it judges it alone: no state may leak from one contour to the next.
fn doc2(a: &[u8], sep: u8, b: &[u8], variant: u64) -> String {
    let one = |digits: &[u8], var: u64| -> String {
        let d = doc(digits, var);
        let i = d.find("<contour>").unwrap();
        let j = d.find("</outline>").unwrap();
        d[i..j].to_string()
    };
    let mut s = String::from(
        "<?xml version=\"1.0\" encoding=\"UTF-8\"?>\n<glyph name=\"a\" format=\"2\">\n<outline>\n",
    );
    s.push_str(&one(a, 0));
    if sep & 1 == 1 {
        s.push_str("<component base=\"b\"/>\n");
    }
    if sep & 2 == 2 {
        s.push_str("<contour>\n</contour>\n");
    }
    s.push_str(&one(b, variant));
    s.push_str("</outline>\n</glyph>\n");
    s
}

/// verdict of the second contour of a two-contour document (same digits as `verdict`)
pub fn verdict2(a: &[u8], sep: u8, b: &[u8], variant: u64) -> char {
    let d = doc2(a, sep, b, variant);
    match catch(|| Glyph::parse_raw(d.as_bytes())) {
        Err(_) => '9',
        Ok(Err(e)) => {
            let k = format!("{:?}", e);
            if k.contains("UnexpectedMove") {
                '1'
            } else if k.contains("UnexpectedPointAfterOffCurve") {
                '2'
            } else if k.contains("UnexpectedSmooth") {
                '3'
            } else if k.contains("TooManyOffCurves") {
                '4'
            } else if k.contains("TrailingOffCurves") {
                '5'
            } else {
                '8'
            }
        }
        Ok(Ok(g)) => {
            let want = (!a.is_empty()) as usize + (!b.is_empty()) as usize;
            if g.contours.len() != want {
                return '7';
            }
            if !b.is_empty() {
                let c = &g.contours[want - 1];
                if c.points.len() != b.len() {
                    return '7';
                }
                for (p, d) in c.points.iter().zip(b) {
                    let t = match p.typ {
                        PointType::Move => 0,
                        PointType::Line => 1,
                        PointType::OffCurve => 2,
                        PointType::Curve => 3,
                        PointType::QCurve => 4,
                    };
                    if t != d / 2 || p.smooth != (d % 2 == 1) {
                        return '7';
                    }
                }
            }
            '0'
        }
    }
}

/// a sequence that is legal with high probability: random walk over "what may come next"
fn gen_mostly_legal(rng: &mut Rng, len: usize) -> Vec<u8> {
    let mut v = Vec::with_capacity(len);
    let open = rng.chance(1, 3);
    let mut offs = 0u32;
    for i in 0..len {
        let t: u8 = if i == 0 && open {
            0
        } else {
            // weights depend on pending off-curves
            let r = rng.below(100);
            if offs == 0 {
                if r < 25 { 1 } else if r < 60 { 2 } else if r < 80 { 3 } else { 4 }
            } else if offs < 2 {
                if r < 40 { 2 } else if r < 75 { 3 } else if r < 98 { 4 } else { 1 }
            } else if r < 10 {
                2
            } else if r < 55 {
                if offs == 2 || rng.chance(1, 10) { 3 } else { 4 }
            } else {
                4
            }
        };
        if t == 2 { offs += 1 } else { offs = 0 }
        let smooth = if t == 2 { rng.chance(1, 60) } else { rng.chance(1, 3) };
        v.push(t * 2 + smooth as u8);
    }
    // small chance of an arbitrary corruption
    if len > 0 && rng.chance(1, 4) {
        let i = rng.below(len as u64) as usize;
        v[i] = rng.below(10) as u8;
    }
    v
}

pub fn main(a: &Args) {
    if let Some(p) = &a.replay {
        // replay file: first line = digit string
        let s = std::fs::read_to_string(p).expect("replay file");
        let mut lines = s.lines();
        let digits: Vec<u8> = lines.next().unwrap_or("").trim().bytes().map(|b| b - b'0').collect();
        if let Some(l2) = lines.next() {
            let mut it = l2.split_whitespace();
            let first: Vec<u8> = it.next().unwrap_or("").bytes().map(|b| b - b'0').collect();
            let sep: u8 = it.next().and_then(|x| x.parse().ok()).unwrap_or(0);
            println!("{}", verdict2(&first, sep, &digits, 0));
            println!("{}", verdict2(&first, sep, &digits, 12345));
            return;
        }
        println!("{}", verdict(&digits, 0));
        println!("{}", verdict(&digits, u64::MAX));
        return;
    }
    let maxlen = if a.thorough() { 7 } else { 5 };
    let mut rng = Rng::new(a.seed);
    let mut total = 0u64;
    let mut accepted = 0u64;
    let mut hist = [0u64; 10];
    for n in 0..=maxlen {
        let count = 10u64.pow(n as u32);
        let mut out = String::with_capacity(count as usize);
        let mut digits = vec![0u8; n];
        for idx in 0..count {
            let mut x = idx;
            for k in (0..n).rev() {
                digits[k] = (x % 10) as u8;
                x /= 10;
            }
            let v = verdict(&digits, rng.next());
            hist[v.to_digit(16).unwrap().min(9) as usize] += 1;
            if v == '0' {
                accepted += 1;
            }
            out.push(v);
            total += 1;
        }
        write_file(&a.out.join(format!("exh_{}.txt", n)), &out);
    }
    // random long sequences
    let nrand = if a.thorough() { 200_000 } else { 6_000 };
    let mut cases = String::new();
    let mut exp = String::new();
    let mut rand_acc = 0u64;
    let mut lens = 0u64;
    for i in 0..nrand {
        let len = if i % 50 == 0 { rng.range(100, 300) } else { rng.range(6, 40) } as usize;
        let seq = if rng.chance(1, 10) {
            (0..len).map(|_| rng.below(10) as u8).collect::<Vec<_>>()
        } else {
            gen_mostly_legal(&mut rng, len)
        };
        let v = verdict(&seq, rng.next());
        hist[v.to_digit(16).unwrap().min(9) as usize] += 1;
        if v == '0' {
            rand_acc += 1;
        }
        lens += len as u64;
        for d in &seq {
            cases.push((b'0' + d) as char);
        }
        cases.push('\n');
        exp.push(v);
    }
    // two-contour documents: every sequence of length <= 3 (thorough: 4) as the SECOND contour after
    // legal first contours that leave the builder in different internal states
    let firsts: [&[u8]; 8] = [
        &[4],             // closed, off-curves only
        &[4, 4],
        &[4, 4, 4],
        &[4, 4, 4, 4, 4],
        &[6, 4, 4],       // curve then two trailing off-curves wrapping around
        &[8, 4, 4, 4],    // qcurve with three trailing off-curves
        &[0, 2, 4, 4, 6], // open contour
        &[2, 3],          // plain lines
    ];
    let mut contexts = String::new();
    for _ in 0..nrand {
        contexts.push('\n');
    }
    let blen = if a.thorough() { 4 } else { 3 };
    let mut multi = 0u64;
    for (fi, first) in firsts.iter().enumerate() {
        for sep in 0..4u8 {
            for n in 0..=blen {
                let count = 10u64.pow(n as u32);
                let mut digits = vec![0u8; n];
                for idx in 0..count {
                    let mut x = idx;
                    for k in (0..n).rev() {
                        digits[k] = (x % 10) as u8;
                        x /= 10;
                    }
                    let v = verdict2(first, sep, &digits, rng.next());
                    hist[v.to_digit(16).unwrap().min(9) as usize] += 1;
                    for d in &digits {
                        cases.push((b'0' + d) as char);
                    }
                    cases.push('\n');
                    exp.push(v);
                    let fs: String = first.iter().map(|d| (b'0' + d) as char).collect();
                    contexts.push_str(&format!("after contour {} (#{}), separator {}\n", fs, fi, sep));
                    multi += 1;
                }
            }
        }
    }
    write_file(&a.out.join("rand_context.txt"), &contexts);
    write_file(&a.out.join("multi_count.txt"), &multi.to_string());
    write_file(&a.out.join("rand_cases.txt"), &cases);
    write_file(&a.out.join("rand_expected.txt"), &exp);
    let summary = format!(
        "{{\"maxlen\":{},\"exhaustive_sequences\":{},\"exhaustive_accepted\":{},\"random_sequences\":{},\"random_accepted\":{},\"random_mean_len\":{:.1},\"verdict_histogram\":{{\"accepted\":{},\"UnexpectedMove\":{},\"UnexpectedPointAfterOffCurve\":{},\"UnexpectedSmooth\":{},\"TooManyOffCurves\":{},\"TrailingOffCurves\":{},\"accepted_but_changed\":{},\"other_error\":{},\"panic\":{}}}}}",
        maxlen, total, accepted, nrand, rand_acc, lens as f64 / nrand as f64,
        hist[0], hist[1], hist[2], hist[3], hist[4], hist[5], hist[7], hist[8], hist[9]
    );
    write_file(&a.out.join("summary.json"), &summary);
}
