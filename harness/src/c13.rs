//! C13: font info validation at its three entry points (FontInfo::validate, Font::save,
//! Font::load of a generated fontinfo.plist), boundary-exhaustive per rule.
//!
//! A case is the rule-relevant content of a fontinfo.plist (`Case`, mirrors `raw` of
//! coq/Model/FontInfo.v). For every case the harness
//!   * builds the in-memory `FontInfo` through the public API when the Rust types admit it and
//!     calls `validate()` and `Font::save` on it (then reads the written fontinfo.plist back as an
//!     untyped `plist::Value`, independently of norad's types),
//!   * writes the case as fontinfo.plist text with its own writer and calls `Font::load`,
//! and prints the case and the three observations as Gallina terms for the model to judge.
use crate::util::*;
use norad::error::{FontInfoErrorKind, FontInfoLoadError, FontLoadError, FontWriteError};
use norad::fontinfo::*;
use norad::{Font, FontInfo, Guideline, Identifier, Line};
use std::fmt::Write as _;
use std::path::{Path, PathBuf};

#[derive(Clone, Debug, Default, PartialEq)]
pub struct RGuide {
    x: bool,
    y: bool,
    angle: Option<f64>,
    id: Option<String>,
}

#[derive(Clone, Debug, Default)]
pub struct Case {
    date: Option<String>,
    gasp: Option<Vec<(i64, Vec<i64>)>>,
    guides: Option<Vec<RGuide>>,
    selection: Option<Vec<i64>>,
    class: Option<Vec<i64>>,
    panose: Option<Vec<i64>>,
    width: Option<i64>,
    charset: Option<i64>,
    u32s: Vec<i64>,
    upm: Option<f64>,
    lists: [Option<Vec<i64>>; 6],
    wext: Option<Vec<Vec<(usize, usize)>>>,
    wsimple: [Option<usize>; 4], // credits, copyright, description, trademark
    unknown: bool,
}

const U32_KEYS: [&str; 7] = [
    "openTypeHeadLowestRecPPEM",
    "openTypeOS2WeightClass",
    "openTypeOS2WinAscent",
    "openTypeOS2WinDescent",
    "versionMinor",
    "woffMajorVersion",
    "woffMinorVersion",
];
const LIST_KEYS: [&str; 6] = [
    "postscriptBlueValues",
    "postscriptOtherBlues",
    "postscriptFamilyBlues",
    "postscriptFamilyOtherBlues",
    "postscriptStemSnapH",
    "postscriptStemSnapV",
];

/// the abstract view of a font info (mirrors `info` of the model)
#[derive(Clone, Debug, Default, PartialEq)]
pub struct AGuide {
    kind: u8, // 0 vertical, 1 horizontal, 2 angle, 9 malformed (file view only)
    deg: u64, // bits
    id: Option<String>,
}
#[derive(Clone, Debug, Default, PartialEq)]
pub struct Info {
    date: Option<Vec<u8>>,
    gasp: Option<Vec<i64>>,
    guides: Option<Vec<AGuide>>,
    selection: Option<Vec<i64>>,
    class: Option<(i64, i64)>,
    lists: [Option<Vec<i64>>; 6],
    wext: Option<Vec<Vec<(usize, usize)>>>,
    wsimple: [Option<usize>; 4],
}

// ------------------------------------------------------------------ Gallina printing
fn g_fl(x: f64) -> String {
    if x.is_nan() {
        format!("(fnan {})", g_bool(x.is_sign_negative()))
    } else if x.is_infinite() {
        format!("(finf {})", g_bool(x < 0.0))
    } else {
        let (s, m, e, _) = dyadic(x);
        format!("(ffin {} {} ({}))", g_bool(s), m, e)
    }
}
fn g_z(z: i64) -> String {
    if z < 0 {
        format!("({})", z)
    } else {
        format!("{}", z)
    }
}
fn g_zlist(v: &[i64]) -> String {
    format!("[{}]", v.iter().map(|z| g_z(*z)).collect::<Vec<_>>().join(";"))
}
fn g_o<T>(o: &Option<T>, f: impl Fn(&T) -> String) -> String {
    match o {
        None => "None".into(),
        Some(t) => format!("(Some {})", f(t)),
    }
}
fn g_ids(s: &String) -> String {
    g_zlist(&s.chars().map(|c| c as i64).collect::<Vec<_>>())
}
fn g_wext(v: &Vec<Vec<(usize, usize)>>) -> String {
    format!(
        "[{}]",
        v.iter()
            .map(|r| format!(
                "[{}]",
                r.iter().map(|(a, b)| format!("wi {} {}", a, b)).collect::<Vec<_>>().join(";")
            ))
            .collect::<Vec<_>>()
            .join(";")
    )
}
fn g_ousize(o: &Option<usize>) -> String {
    g_o(o, |n| format!("{}", n))
}

fn g_raw(c: &Case) -> String {
    let mut s = String::from("(mkraw ");
    let _ = write!(
        s,
        "{} ",
        g_o(&c.date, |d| g_zlist(&d.as_bytes().iter().map(|b| *b as i64).collect::<Vec<_>>()))
    );
    let _ = write!(
        s,
        "{} ",
        g_o(&c.gasp, |v| format!(
            "[{}]",
            v.iter().map(|(p, b)| format!("({},{})", g_z(*p), g_zlist(b))).collect::<Vec<_>>().join(";")
        ))
    );
    let _ = write!(
        s,
        "{} ",
        g_o(&c.guides, |v| format!(
            "[{}]",
            v.iter()
                .map(|g| format!(
                    "rgd {} {} {} {}",
                    g_bool(g.x),
                    g_bool(g.y),
                    g_o(&g.angle, |a| g_fl(*a)),
                    g_o(&g.id, g_ids)
                ))
                .collect::<Vec<_>>()
                .join(";")
        ))
    );
    let _ = write!(s, "{} ", g_o(&c.selection, |v| g_zlist(v)));
    let _ = write!(s, "{} ", g_o(&c.class, |v| g_zlist(v)));
    let _ = write!(s, "{} ", g_o(&c.panose, |v| g_zlist(v)));
    let _ = write!(s, "{} ", g_o(&c.width, |z| g_z(*z)));
    let _ = write!(s, "{} ", g_o(&c.charset, |z| g_z(*z)));
    let _ = write!(s, "{} ", g_zlist(&c.u32s));
    let _ = write!(s, "{} ", g_o(&c.upm, |a| g_fl(*a)));
    for l in &c.lists {
        let _ = write!(s, "{} ", g_o(l, |v| g_zlist(v)));
    }
    let _ = write!(s, "{} ", g_o(&c.wext, g_wext));
    for w in &c.wsimple {
        let _ = write!(s, "{} ", g_ousize(w));
    }
    let _ = write!(s, "{})", g_bool(c.unknown));
    s
}

fn g_info(i: &Info) -> String {
    let mut s = String::from("(mkinfo ");
    let _ = write!(
        s,
        "{} ",
        g_o(&i.date, |d| g_zlist(&d.iter().map(|b| *b as i64).collect::<Vec<_>>()))
    );
    let _ = write!(s, "{} ", g_o(&i.gasp, |v| g_zlist(v)));
    let _ = write!(
        s,
        "{} ",
        g_o(&i.guides, |v| format!(
            "[{}]",
            v.iter()
                .map(|g| format!("gd {} {} {}", g.kind, g_fl(f64::from_bits(g.deg)), g_o(&g.id, g_ids)))
                .collect::<Vec<_>>()
                .join(";")
        ))
    );
    let _ = write!(s, "{} ", g_o(&i.selection, |v| g_zlist(v)));
    let _ = write!(s, "{} ", g_o(&i.class, |(a, b)| format!("({},{})", g_z(*a), g_z(*b))));
    for l in &i.lists {
        let _ = write!(s, "{} ", g_o(l, |v| g_zlist(v)));
    }
    let _ = write!(s, "{} ", g_o(&i.wext, g_wext));
    for (k, w) in i.wsimple.iter().enumerate() {
        let _ = write!(s, "{}{}", g_ousize(w), if k == 3 { ")" } else { " " });
    }
    s
}

#[derive(Clone, Debug, PartialEq)]
pub enum Obs {
    NA,
    Ok(Info),
    Invalid(String), // Gallina term of the error
    Parse,
    Other(i64, String),
}
fn g_obs(o: &Obs) -> String {
    match o {
        Obs::NA => "ONA".into(),
        Obs::Ok(i) => format!("(OOk {})", g_info(i)),
        Obs::Invalid(e) => format!("(OInvalid {})", e),
        Obs::Parse => "OParse".into(),
        Obs::Other(c, _) => format!("(OOther {})", g_z(*c)),
    }
}

/// Gallina term of a FontInfoErrorKind (None: a kind validate() is not modelled to return)
fn g_kind(k: &FontInfoErrorKind) -> Option<String> {
    use FontInfoErrorKind::*;
    let dbg = format!("{:?}", k);
    Some(match k {
        InvalidOpenTypeHeadCreatedDate => "EDate".into(),
        UnsortedGaspEntries => "EGasp".into(),
        DuplicateGuidelineIdentifiers => "EDupId".into(),
        DisallowedSelectionBits => "ESelection".into(),
        InvalidOs2FamilyClass => "EClass".into(),
        InvalidPostscriptListLength { name, max_len, len } => {
            format!("(elistlen \"{}\" {} {})", name, max_len, len)
        }
        PostscriptListMustBePairs(name) => format!("(EPairs \"{}\")", name),
        EmptyWoffAttribute(what) => format!("(EWoff \"{}\")", what),
        _ => {
            // variants added after the snapshot are matched by name so that the harness also
            // builds against trees that lack them
            if dbg == "InvalidGuidelineAngle" {
                "EAngle".into()
            } else {
                return None;
            }
        }
    })
}

// ------------------------------------------------------------------ building the FontInfo
fn u32_of(z: i64) -> Option<u32> {
    u32::try_from(z).ok()
}
fn u8_of(z: i64) -> Option<u8> {
    u8::try_from(z).ok()
}
fn name_rec() -> WoffMetadataExtensionNameRecord {
    WoffMetadataExtensionNameRecord { text: "n".into(), language: None, dir: None, class: None }
}
fn value_rec() -> WoffMetadataExtensionValueRecord {
    WoffMetadataExtensionValueRecord { text: "v".into(), language: None, dir: None, class: None }
}
fn text_recs(n: usize) -> Vec<WoffMetadataTextRecord> {
    (0..n)
        .map(|k| WoffMetadataTextRecord {
            text: format!("t{}", k),
            language: None,
            dir: None,
            class: None,
        })
        .collect()
}

/// The FontInfo holding what the case describes, if the Rust types admit it.
fn build(c: &Case) -> Option<FontInfo> {
    if c.unknown {
        return None;
    }
    let mut fi = FontInfo::default();
    fi.open_type_head_created = c.date.clone();
    if let Some(v) = &c.gasp {
        let mut out = vec![];
        for (p, bs) in v {
            let mut beh = vec![];
            for b in bs {
                beh.push(match b {
                    0 => GaspBehavior::Gridfit,
                    1 => GaspBehavior::DoGray,
                    2 => GaspBehavior::SymmetricGridfit,
                    3 => GaspBehavior::SymmetricSmoothing,
                    _ => return None,
                });
            }
            out.push(GaspRangeRecord { range_max_ppem: u32_of(*p)?, range_gasp_behavior: beh });
        }
        fi.open_type_gasp_range_records = Some(out);
    }
    if let Some(v) = &c.guides {
        let mut out = vec![];
        for (k, g) in v.iter().enumerate() {
            let line = match (g.x, g.y, g.angle) {
                (true, false, None) => Line::Vertical(k as f64 + 1.0),
                (false, true, None) => Line::Horizontal(k as f64 + 2.0),
                (true, true, Some(d)) => Line::Angle { x: k as f64 + 1.0, y: k as f64 + 2.0, degrees: d },
                _ => return None,
            };
            let id = match &g.id {
                None => None,
                Some(s) => Some(Identifier::new(s).ok()?),
            };
            out.push(Guideline::new(line, None, None, id));
        }
        fi.guidelines = Some(out);
    }
    if let Some(v) = &c.selection {
        fi.open_type_os2_selection = Some(v.iter().map(|z| u8_of(*z)).collect::<Option<Vec<u8>>>()?);
    }
    if let Some(v) = &c.class {
        if v.len() != 2 {
            return None;
        }
        fi.open_type_os2_family_class =
            Some(Os2FamilyClass { class_id: u8_of(v[0])?, subclass_id: u8_of(v[1])? });
    }
    if let Some(v) = &c.panose {
        if v.len() != 10 {
            return None;
        }
        let p = v.iter().map(|z| u32_of(*z)).collect::<Option<Vec<u32>>>()?;
        fi.open_type_os2_panose = Some(Os2Panose {
            family_type: p[0],
            serif_style: p[1],
            weight: p[2],
            proportion: p[3],
            contrast: p[4],
            stroke_variation: p[5],
            arm_style: p[6],
            letterform: p[7],
            midline: p[8],
            x_height: p[9],
        });
    }
    if let Some(w) = c.width {
        fi.open_type_os2_width_class = Some(match w {
            1 => Os2WidthClass::UltraCondensed,
            2 => Os2WidthClass::ExtraCondensed,
            3 => Os2WidthClass::Condensed,
            4 => Os2WidthClass::SemiCondensed,
            5 => Os2WidthClass::Normal,
            6 => Os2WidthClass::SemiExpanded,
            7 => Os2WidthClass::Expanded,
            8 => Os2WidthClass::ExtraExpanded,
            9 => Os2WidthClass::UltraExpanded,
            _ => return None,
        });
    }
    if let Some(w) = c.charset {
        use PostscriptWindowsCharacterSet::*;
        const ALL: [PostscriptWindowsCharacterSet; 20] = [
            Ansi, Default, Symbol, Macintosh, ShiftJis, Hangul, HangulJohab, Gb2312, ChineseBig5, Greek,
            Turkish, Vietnamese, Hebrew, Arabic, Baltic, Bitstream, Cyrillic, Thai, EasternEuropean, Oem,
        ];
        if !(1..=20).contains(&w) {
            return None;
        }
        fi.postscript_windows_character_set = Some(ALL[(w - 1) as usize]);
    }
    for (k, z) in c.u32s.iter().enumerate() {
        let v = Some(u32_of(*z)?);
        match k {
            0 => fi.open_type_head_lowest_rec_ppem = v,
            1 => fi.open_type_os2_weight_class = v,
            2 => fi.open_type_os2_win_ascent = v,
            3 => fi.open_type_os2_win_descent = v,
            4 => fi.version_minor = v,
            5 => fi.woff_major_version = v,
            6 => fi.woff_minor_version = v,
            _ => return None,
        }
    }
    if let Some(u) = c.upm {
        fi.units_per_em = Some(NonNegativeIntegerOrFloat::new(u)?);
    }
    let fl = |o: &Option<Vec<i64>>| o.as_ref().map(|v| v.iter().map(|z| *z as f64).collect::<Vec<f64>>());
    fi.postscript_blue_values = fl(&c.lists[0]);
    fi.postscript_other_blues = fl(&c.lists[1]);
    fi.postscript_family_blues = fl(&c.lists[2]);
    fi.postscript_family_other_blues = fl(&c.lists[3]);
    fi.postscript_stem_snap_h = fl(&c.lists[4]);
    fi.postscript_stem_snap_v = fl(&c.lists[5]);
    if let Some(v) = &c.wext {
        fi.woff_metadata_extensions = Some(
            v.iter()
                .map(|items| WoffMetadataExtensionRecord {
                    id: None,
                    names: vec![],
                    items: items
                        .iter()
                        .map(|(n, m)| WoffMetadataExtensionItemRecord {
                            id: None,
                            names: (0..*n).map(|_| name_rec()).collect(),
                            values: (0..*m).map(|_| value_rec()).collect(),
                        })
                        .collect(),
                })
                .collect(),
        );
    }
    if let Some(n) = c.wsimple[0] {
        fi.woff_metadata_credits = Some(WoffMetadataCredits {
            credits: (0..n)
                .map(|k| WoffMetadataCredit {
                    name: format!("c{}", k),
                    url: None,
                    role: None,
                    dir: None,
                    class: None,
                })
                .collect(),
        });
    }
    if let Some(n) = c.wsimple[1] {
        fi.woff_metadata_copyright = Some(WoffMetadataCopyright { text: text_recs(n) });
    }
    if let Some(n) = c.wsimple[2] {
        fi.woff_metadata_description = Some(WoffMetadataDescription { url: None, text: text_recs(n) });
    }
    if let Some(n) = c.wsimple[3] {
        fi.woff_metadata_trademark = Some(WoffMetadataTrademark { text: text_recs(n) });
    }
    Some(fi)
}

fn num_to_i64(x: f64) -> i64 {
    if x.fract() == 0.0 && x.abs() < 1e15 {
        x as i64
    } else {
        // not an integer: something the generators never produce; make it visible
        7_000_000_000_000_000 + (x.to_bits() % 1_000_000) as i64
    }
}

/// abstract view of an in-memory FontInfo
fn info_of(fi: &FontInfo) -> Info {
    let l = |o: &Option<Vec<f64>>| o.as_ref().map(|v| v.iter().map(|x| num_to_i64(*x)).collect::<Vec<i64>>());
    Info {
        date: fi.open_type_head_created.as_ref().map(|s| s.as_bytes().to_vec()),
        gasp: fi
            .open_type_gasp_range_records
            .as_ref()
            .map(|v| v.iter().map(|g| g.range_max_ppem as i64).collect()),
        guides: fi.guidelines.as_ref().map(|v| {
            v.iter()
                .map(|g| {
                    let (kind, deg) = match g.line {
                        Line::Vertical(_) => (0, 0.0),
                        Line::Horizontal(_) => (1, 0.0),
                        Line::Angle { degrees, .. } => (2, degrees),
                    };
                    AGuide { kind, deg: deg.to_bits(), id: g.identifier().map(|i| i.as_str().to_string()) }
                })
                .collect()
        }),
        selection: fi.open_type_os2_selection.as_ref().map(|v| v.iter().map(|b| *b as i64).collect()),
        class: fi.open_type_os2_family_class.as_ref().map(|c| (c.class_id as i64, c.subclass_id as i64)),
        lists: [
            l(&fi.postscript_blue_values),
            l(&fi.postscript_other_blues),
            l(&fi.postscript_family_blues),
            l(&fi.postscript_family_other_blues),
            l(&fi.postscript_stem_snap_h),
            l(&fi.postscript_stem_snap_v),
        ],
        wext: fi.woff_metadata_extensions.as_ref().map(|v| {
            v.iter().map(|r| r.items.iter().map(|i| (i.names.len(), i.values.len())).collect()).collect()
        }),
        wsimple: [
            fi.woff_metadata_credits.as_ref().map(|c| c.credits.len()),
            fi.woff_metadata_copyright.as_ref().map(|c| c.text.len()),
            fi.woff_metadata_description.as_ref().map(|c| c.text.len()),
            fi.woff_metadata_trademark.as_ref().map(|c| c.text.len()),
        ],
    }
}

// ------------------------------------------------------------------ untyped view of a written file
fn pv_num(v: &plist::Value) -> Option<f64> {
    match v {
        plist::Value::Real(r) => Some(*r),
        plist::Value::Integer(i) => i.as_signed().map(|x| x as f64).or_else(|| i.as_unsigned().map(|x| x as f64)),
        _ => None,
    }
}
fn pv_int(v: &plist::Value) -> i64 {
    match pv_num(v) {
        Some(x) => num_to_i64(x),
        None => 7_100_000_000_000_000,
    }
}
fn pv_arr(v: Option<&plist::Value>) -> Option<Vec<plist::Value>> {
    v.and_then(|v| v.as_array()).cloned()
}
fn pv_len_in(d: &plist::Dictionary, outer: &str, inner: &str) -> Option<usize> {
    // Some(n) when `outer` is present: n = length of its `inner` array (9999 when malformed)
    d.get(outer).map(|o| {
        o.as_dictionary().and_then(|o| o.get(inner)).and_then(|a| a.as_array()).map(|a| a.len()).unwrap_or(9999)
    })
}
/// abstract view of a fontinfo.plist read as an untyped property list
fn info_of_file(path: &Path) -> Result<Info, String> {
    if !path.exists() {
        return Ok(Info::default());
    }
    let v = plist::Value::from_file(path).map_err(|e| format!("unreadable: {}", e))?;
    let d = v.as_dictionary().ok_or("not a dictionary")?;
    let ints = |key: &str| pv_arr(d.get(key)).map(|a| a.iter().map(pv_int).collect::<Vec<i64>>());
    let mut lists: [Option<Vec<i64>>; 6] = Default::default();
    for (k, key) in LIST_KEYS.iter().enumerate() {
        lists[k] = ints(key);
    }
    Ok(Info {
        date: d.get("openTypeHeadCreated").map(|s| s.as_string().unwrap_or("<not a string>").as_bytes().to_vec()),
        gasp: pv_arr(d.get("openTypeGaspRangeRecords")).map(|a| {
            a.iter()
                .map(|g| g.as_dictionary().and_then(|g| g.get("rangeMaxPPEM")).map(pv_int).unwrap_or(-1))
                .collect()
        }),
        guides: pv_arr(d.get("guidelines")).map(|a| {
            a.iter()
                .map(|g| {
                    let e = plist::Dictionary::new();
                    let g = g.as_dictionary().unwrap_or(&e);
                    let id = g.get("identifier").and_then(|s| s.as_string()).map(|s| s.to_string());
                    match (g.get("x").is_some(), g.get("y").is_some(), g.get("angle")) {
                        (true, false, None) => AGuide { kind: 0, deg: 0, id },
                        (false, true, None) => AGuide { kind: 1, deg: 0, id },
                        (true, true, Some(a)) => {
                            AGuide { kind: 2, deg: pv_num(a).unwrap_or(f64::NAN).to_bits(), id }
                        }
                        _ => AGuide { kind: 9, deg: 0, id },
                    }
                })
                .collect()
        }),
        selection: ints("openTypeOS2Selection"),
        class: ints("openTypeOS2FamilyClass").map(|v| if v.len() == 2 { (v[0], v[1]) } else { (-1, v.len() as i64) }),
        lists,
        wext: pv_arr(d.get("woffMetadataExtensions")).map(|a| {
            a.iter()
                .map(|r| {
                    pv_arr(r.as_dictionary().and_then(|r| r.get("items")))
                        .unwrap_or_default()
                        .iter()
                        .map(|it| {
                            let e = plist::Dictionary::new();
                            let it = it.as_dictionary().unwrap_or(&e);
                            (
                                pv_arr(it.get("names")).map(|a| a.len()).unwrap_or(9999),
                                pv_arr(it.get("values")).map(|a| a.len()).unwrap_or(9999),
                            )
                        })
                        .collect()
                })
                .collect()
        }),
        wsimple: [
            pv_len_in(d, "woffMetadataCredits", "credits"),
            pv_len_in(d, "woffMetadataCopyright", "text"),
            pv_len_in(d, "woffMetadataDescription", "text"),
            pv_len_in(d, "woffMetadataTrademark", "text"),
        ],
    })
}

// ------------------------------------------------------------------ writing the case as a file
fn esc(s: &str) -> String {
    s.replace('&', "&amp;").replace('<', "&lt;").replace('>', "&gt;")
}
fn x_int(z: i64) -> String {
    format!("<integer>{}</integer>", z)
}
fn x_real(x: f64) -> String {
    if x.is_nan() {
        format!("<real>{}</real>", if x.is_sign_negative() { "-nan" } else { "nan" })
    } else {
        format!("<real>{}</real>", x)
    }
}
fn x_ints(v: &[i64]) -> String {
    format!("<array>{}</array>", v.iter().map(|z| x_int(*z)).collect::<String>())
}
fn x_texts(key: &str, n: usize) -> String {
    format!(
        "<key>{}</key><array>{}</array>",
        key,
        (0..n).map(|k| format!("<dict><key>text</key><string>t{}</string></dict>", k)).collect::<String>()
    )
}
pub fn plist_text(c: &Case) -> String {
    let mut s = String::from(
        "<?xml version=\"1.0\" encoding=\"UTF-8\"?>\n<!DOCTYPE plist PUBLIC \"-//Apple//DTD PLIST 1.0//EN\" \"http://www.apple.com/DTDs/PropertyList-1.0.dtd\">\n<plist version=\"1.0\">\n<dict>\n",
    );
    let mut kv = |k: &str, v: String| {
        let _ = writeln!(s, "<key>{}</key>{}", k, v);
    };
    if let Some(v) = &c.guides {
        kv(
            "guidelines",
            format!(
                "<array>{}</array>",
                v.iter()
                    .enumerate()
                    .map(|(k, g)| {
                        let mut t = String::from("<dict>");
                        if g.x {
                            let _ = write!(t, "<key>x</key>{}", x_int(k as i64 + 1));
                        }
                        if g.y {
                            let _ = write!(t, "<key>y</key>{}", x_int(k as i64 + 2));
                        }
                        if let Some(a) = g.angle {
                            let _ = write!(t, "<key>angle</key>{}", x_real(a));
                        }
                        if let Some(id) = &g.id {
                            let _ = write!(t, "<key>identifier</key><string>{}</string>", esc(id));
                        }
                        t.push_str("</dict>");
                        t
                    })
                    .collect::<String>()
            ),
        );
    }
    if let Some(v) = &c.gasp {
        kv(
            "openTypeGaspRangeRecords",
            format!(
                "<array>{}</array>",
                v.iter()
                    .map(|(p, b)| format!(
                        "<dict><key>rangeMaxPPEM</key>{}<key>rangeGaspBehavior</key>{}</dict>",
                        x_int(*p),
                        x_ints(b)
                    ))
                    .collect::<String>()
            ),
        );
    }
    if let Some(d) = &c.date {
        kv("openTypeHeadCreated", format!("<string>{}</string>", esc(d)));
    }
    for (k, z) in c.u32s.iter().enumerate() {
        kv(U32_KEYS[k], x_int(*z));
    }
    if let Some(v) = &c.class {
        kv("openTypeOS2FamilyClass", x_ints(v));
    }
    if let Some(v) = &c.panose {
        kv("openTypeOS2Panose", x_ints(v));
    }
    if let Some(v) = &c.selection {
        kv("openTypeOS2Selection", x_ints(v));
    }
    if let Some(w) = c.width {
        kv("openTypeOS2WidthClass", x_int(w));
    }
    for (k, key) in LIST_KEYS.iter().enumerate() {
        if let Some(v) = &c.lists[k] {
            kv(key, x_ints(v));
        }
    }
    if let Some(w) = c.charset {
        kv("postscriptWindowsCharacterSet", x_int(w));
    }
    if let Some(u) = c.upm {
        kv("unitsPerEm", x_real(u));
    }
    if let Some(n) = c.wsimple[1] {
        kv("woffMetadataCopyright", format!("<dict>{}</dict>", x_texts("text", n)));
    }
    if let Some(n) = c.wsimple[0] {
        kv(
            "woffMetadataCredits",
            format!(
                "<dict><key>credits</key><array>{}</array></dict>",
                (0..n).map(|k| format!("<dict><key>name</key><string>c{}</string></dict>", k)).collect::<String>()
            ),
        );
    }
    if let Some(n) = c.wsimple[2] {
        kv("woffMetadataDescription", format!("<dict>{}</dict>", x_texts("text", n)));
    }
    if let Some(v) = &c.wext {
        kv(
            "woffMetadataExtensions",
            format!(
                "<array>{}</array>",
                v.iter()
                    .map(|items| format!(
                        "<dict><key>names</key><array/><key>items</key><array>{}</array></dict>",
                        items
                            .iter()
                            .map(|(n, m)| format!("<dict>{}{}</dict>", x_texts("names", *n), x_texts("values", *m)))
                            .collect::<String>()
                    ))
                    .collect::<String>()
            ),
        );
    }
    if let Some(n) = c.wsimple[3] {
        kv("woffMetadataTrademark", format!("<dict>{}</dict>", x_texts("text", n)));
    }
    if c.unknown {
        kv("zzNotAFontInfoKey", x_int(1));
    }
    s.push_str("</dict>\n</plist>\n");
    s
}

// ------------------------------------------------------------------ the three entry points
pub struct Sandbox {
    load_dir: PathBuf,
    load2_dir: PathBuf,
    load1_dir: PathBuf,
    save_dir: PathBuf,
}
fn skeleton(dir: &Path, version: u32) {
    std::fs::create_dir_all(dir.join("glyphs")).unwrap();
    write_file(
        &dir.join("metainfo.plist"),
        &format!("<?xml version=\"1.0\" encoding=\"UTF-8\"?>\n<plist version=\"1.0\"><dict><key>creator</key><string>verif</string><key>formatVersion</key><integer>{}</integer></dict></plist>\n", version),
    );
    if version == 3 {
        write_file(
            &dir.join("layercontents.plist"),
            "<?xml version=\"1.0\" encoding=\"UTF-8\"?>\n<plist version=\"1.0\"><array><array><string>public.default</string><string>glyphs</string></array></array></plist>\n",
        );
    }
    write_file(
        &dir.join("glyphs").join("contents.plist"),
        "<?xml version=\"1.0\" encoding=\"UTF-8\"?>\n<plist version=\"1.0\"><dict/></plist>\n",
    );
}
impl Sandbox {
    pub fn new(root: &Path, tag: &str) -> Sandbox {
        let load_dir = root.join(format!("load_{}.ufo", tag));
        let load2_dir = root.join(format!("load2_{}.ufo", tag));
        let load1_dir = root.join(format!("load1_{}.ufo", tag));
        let save_dir = root.join(format!("save_{}.ufo", tag));
        skeleton(&load_dir, 3);
        skeleton(&load2_dir, 2);
        skeleton(&load1_dir, 1);
        Sandbox { load_dir, load2_dir, load1_dir, save_dir }
    }
}

fn obs_validate(fi: &FontInfo) -> Obs {
    match catch(|| fi.validate()) {
        Err(m) => Obs::Other(9, format!("panic: {}", m)),
        Ok(Ok(())) => Obs::Ok(info_of(fi)),
        Ok(Err(k)) => match g_kind(&k) {
            Some(e) => Obs::Invalid(e),
            None => Obs::Other(5, format!("{:?}", k)),
        },
    }
}
fn obs_save(fi: &FontInfo, sb: &Sandbox) -> Obs {
    let mut font = Font::new();
    font.font_info = fi.clone();
    let _ = std::fs::remove_dir_all(&sb.save_dir);
    match catch(|| font.save(&sb.save_dir)) {
        Err(m) => Obs::Other(9, format!("panic: {}", m)),
        Ok(Ok(())) => match info_of_file(&sb.save_dir.join("fontinfo.plist")) {
            Ok(i) => Obs::Ok(i),
            Err(m) => Obs::Other(6, m),
        },
        Ok(Err(FontWriteError::InvalidFontInfo(k))) => match g_kind(&k) {
            Some(e) => Obs::Invalid(e),
            None => Obs::Other(5, format!("{:?}", k)),
        },
        Ok(Err(e)) => Obs::Other(7, format!("{:?}", e)),
    }
}
fn classify_load(r: Result<Result<Font, FontLoadError>, String>) -> Obs {
    match r {
        Err(m) => Obs::Other(9, format!("panic: {}", m)),
        Ok(Ok(font)) => Obs::Ok(info_of(&font.font_info)),
        // validate() refused: InvalidData (format 3), FontInfoUpconversion (format 2, 1),
        // FontInfoV1Upconversion (format 1 lib data)
        Ok(Err(FontLoadError::FontInfo(FontInfoLoadError::InvalidData(k))))
        | Ok(Err(FontLoadError::FontInfo(FontInfoLoadError::FontInfoUpconversion(k))))
        | Ok(Err(FontLoadError::FontInfoV1Upconversion(k))) => match g_kind(&k) {
            Some(e) => Obs::Invalid(e),
            None => Obs::Other(5, format!("{:?}", k)),
        },
        Ok(Err(FontLoadError::FontInfo(FontInfoLoadError::ParsePlist(_)))) => Obs::Parse,
        Ok(Err(FontLoadError::ParsePlist { name: "lib.plist", .. })) => Obs::Parse,
        Ok(Err(e)) => Obs::Other(7, format!("{:?}", e)),
    }
}
fn obs_load(c: &Case, sb: &Sandbox) -> Obs {
    write_file(&sb.load_dir.join("fontinfo.plist"), &plist_text(c));
    classify_load(catch(|| Font::load(&sb.load_dir)))
}
/// the case only uses fields a format-2 fontinfo.plist has, with the same types
pub fn v2_applicable(c: &Case) -> bool {
    c.gasp.is_none()
        && c.guides.is_none()
        && c.panose.is_none()
        && c.width.is_none()
        && c.charset.is_none()
        && c.u32s.is_empty()
        && c.upm.is_none()
        && c.wext.is_none()
        && c.wsimple.iter().all(|w| w.is_none())
        && !c.unknown
}
/// the case only uses the PostScript lists (format 1: org.robofab.postScriptHintData in lib.plist)
pub fn v1_applicable(c: &Case) -> bool {
    v2_applicable(c) && c.date.is_none() && c.selection.is_none() && c.class.is_none() && c.lists.iter().any(|l| l.is_some())
}
fn obs_load2(c: &Case, sb: &Sandbox) -> Obs {
    if !v2_applicable(c) {
        return Obs::NA;
    }
    write_file(&sb.load2_dir.join("fontinfo.plist"), &plist_text(c));
    classify_load(catch(|| Font::load(&sb.load2_dir)))
}
pub fn lib_text_v1(c: &Case) -> String {
    let mut s = String::from(
        "<?xml version=\"1.0\" encoding=\"UTF-8\"?>\n<plist version=\"1.0\">\n<dict>\n<key>org.robofab.postScriptHintData</key>\n<dict>\n",
    );
    const KEYS: [&str; 6] = ["blueValues", "otherBlues", "familyBlues", "familyOtherBlues", "hStems", "vStems"];
    for k in 0..6 {
        if let Some(v) = &c.lists[k] {
            if k < 4 {
                // pairs, a trailing single value as a one-element group
                let groups: Vec<String> = v.chunks(2).map(x_ints).collect();
                let _ = writeln!(s, "<key>{}</key><array>{}</array>", KEYS[k], groups.concat());
            } else {
                let _ = writeln!(s, "<key>{}</key>{}", KEYS[k], x_ints(v));
            }
        }
    }
    s.push_str("</dict>\n</dict>\n</plist>\n");
    s
}
fn obs_load1(c: &Case, sb: &Sandbox) -> Obs {
    if !v1_applicable(c) {
        return Obs::NA;
    }
    write_file(&sb.load1_dir.join("lib.plist"), &lib_text_v1(c));
    classify_load(catch(|| Font::load(&sb.load1_dir)))
}

pub type Observed = (Obs, Obs, Obs, Obs, Obs);
pub fn observe(c: &Case, sb: &Sandbox) -> Observed {
    let (v, s) = match build(c) {
        None => (Obs::NA, Obs::NA),
        Some(fi) => (obs_validate(&fi), obs_save(&fi, sb)),
    };
    (v, s, obs_load(c, sb), obs_load2(c, sb), obs_load1(c, sb))
}

// ------------------------------------------------------------------ JSON (replay files, case list)
fn j_oi(o: &Option<Vec<i64>>) -> serde_json::Value {
    match o {
        None => serde_json::Value::Null,
        Some(v) => serde_json::json!(v),
    }
}
fn j_f(x: f64) -> serde_json::Value {
    serde_json::json!(format!("{:#018x}", x.to_bits()))
}
fn f_j(v: &serde_json::Value) -> f64 {
    f64::from_bits(u64::from_str_radix(v.as_str().unwrap().trim_start_matches("0x"), 16).unwrap())
}
pub fn case_json(c: &Case) -> serde_json::Value {
    serde_json::json!({
        "date": c.date,
        "gasp": c.gasp.as_ref().map(|v| v.iter().map(|(p, b)| serde_json::json!([p, b])).collect::<Vec<_>>()),
        "guides": c.guides.as_ref().map(|v| v.iter().map(|g| serde_json::json!({
            "x": g.x, "y": g.y, "angle": g.angle.map(j_f), "angle_text": g.angle.map(|a| format!("{:?}", a)), "id": g.id})).collect::<Vec<_>>()),
        "selection": j_oi(&c.selection), "class": j_oi(&c.class), "panose": j_oi(&c.panose),
        "width": c.width, "charset": c.charset, "u32s": c.u32s,
        "upm": c.upm.map(j_f), "upm_text": c.upm.map(|a| format!("{:?}", a)),
        "lists": c.lists.iter().map(j_oi).collect::<Vec<_>>(),
        "wext": c.wext.as_ref().map(|v| v.iter().map(|r| r.iter().map(|(a, b)| serde_json::json!([a, b])).collect::<Vec<_>>()).collect::<Vec<_>>()),
        "wsimple": c.wsimple.iter().map(|o| serde_json::json!(o)).collect::<Vec<_>>(),
        "unknown": c.unknown,
    })
}
fn oi_j(v: &serde_json::Value) -> Option<Vec<i64>> {
    v.as_array().map(|a| a.iter().map(|z| z.as_i64().unwrap()).collect())
}
pub fn case_of_json(j: &serde_json::Value) -> Case {
    let mut c = Case::default();
    c.date = j["date"].as_str().map(|s| s.to_string());
    c.gasp = j["gasp"].as_array().map(|a| a.iter().map(|p| (p[0].as_i64().unwrap(), oi_j(&p[1]).unwrap())).collect());
    c.guides = j["guides"].as_array().map(|a| {
        a.iter()
            .map(|g| RGuide {
                x: g["x"].as_bool().unwrap(),
                y: g["y"].as_bool().unwrap(),
                angle: if g["angle"].is_null() { None } else { Some(f_j(&g["angle"])) },
                id: g["id"].as_str().map(|s| s.to_string()),
            })
            .collect()
    });
    c.selection = oi_j(&j["selection"]);
    c.class = oi_j(&j["class"]);
    c.panose = oi_j(&j["panose"]);
    c.width = j["width"].as_i64();
    c.charset = j["charset"].as_i64();
    c.u32s = oi_j(&j["u32s"]).unwrap_or_default();
    c.upm = if j["upm"].is_null() { None } else { Some(f_j(&j["upm"])) };
    for k in 0..6 {
        c.lists[k] = oi_j(&j["lists"][k]);
    }
    c.wext = j["wext"].as_array().map(|a| {
        a.iter()
            .map(|r| {
                r.as_array()
                    .unwrap()
                    .iter()
                    .map(|p| (p[0].as_u64().unwrap() as usize, p[1].as_u64().unwrap() as usize))
                    .collect()
            })
            .collect()
    });
    for k in 0..4 {
        c.wsimple[k] = j["wsimple"][k].as_u64().map(|n| n as usize);
    }
    c.unknown = j["unknown"].as_bool().unwrap_or(false);
    c
}

// ------------------------------------------------------------------ generators
const VALID_DATES: [&str; 3] = ["2020/06/15 12:30:45", "0000/01/01 00:00:00", "9999/12/31 23:59:59"];
const DATE_BYTES: [u8; 14] = *b"0123569 /:+-T.";

fn ints(n: usize) -> Vec<i64> {
    (0..n as i64).map(|k| 10 * k - 30).collect()
}
fn angle_pool() -> Vec<f64> {
    vec![
        -f64::from_bits(1), // -epsilon (smallest subnormal)
        -0.0,
        0.0,
        f64::from_bits(1),
        180.0,
        359.99999999999994,
        360.0,
        360.00000000000006, // 360 + 1ulp
        361.0,
        400.0,
        -1.0,
        f64::NAN,
        -f64::NAN,
        f64::INFINITY,
        f64::NEG_INFINITY,
        1e300,
        90.5,
    ]
}
fn gd_v(id: Option<&str>) -> RGuide {
    RGuide { x: true, y: false, angle: None, id: id.map(|s| s.to_string()) }
}
fn gd_h(id: Option<&str>) -> RGuide {
    RGuide { x: false, y: true, angle: None, id: id.map(|s| s.to_string()) }
}
fn gd_a(a: f64, id: Option<&str>) -> RGuide {
    RGuide { x: true, y: true, angle: Some(a), id: id.map(|s| s.to_string()) }
}
fn guide_alphabet() -> Vec<RGuide> {
    vec![
        gd_v(None),
        gd_h(Some("a")),
        gd_a(45.0, Some("a")),
        gd_a(360.0, Some("b")),
        gd_a(400.0, Some("a")),
        gd_a(f64::NAN, None),
        gd_v(Some("b")),
    ]
}
fn wext_pool() -> Vec<Vec<Vec<(usize, usize)>>> {
    vec![
        vec![],
        vec![vec![]],
        vec![vec![(1, 1)]],
        vec![vec![(0, 1)]],
        vec![vec![(1, 0)]],
        vec![vec![(0, 0)]],
        vec![vec![(1, 1), (0, 1)]],
        vec![vec![(1, 1), (2, 3)]],
        vec![vec![(1, 1)], vec![]],
        vec![vec![], vec![(0, 0)]],
        vec![vec![(1, 0)], vec![]],
        vec![vec![(1, 1)], vec![(1, 1), (1, 0)]],
        vec![vec![(2, 3)], vec![(1, 1)]],
    ]
}

/// one canonical violation (and one canonical satisfied instance) per rule, in validate() order
fn rule_instances(ok: bool) -> Vec<Box<dyn Fn(&mut Case)>> {
    let mut v: Vec<Box<dyn Fn(&mut Case)>> = vec![];
    v.push(Box::new(move |c| {
        c.date = Some(if ok { "2021/02/03 04:05:06" } else { "2021/13/03 04:05:06" }.into())
    }));
    v.push(Box::new(move |c| c.gasp = Some(if ok { vec![(1, vec![0]), (2, vec![])] } else { vec![(2, vec![1]), (1, vec![])] })));
    v.push(Box::new(move |c| c.guides = Some(if ok { vec![gd_a(10.0, Some("p"))] } else { vec![gd_a(-10.0, Some("p"))] })));
    v.push(Box::new(move |c| {
        // duplicate identifiers; appended so that it combines with the angle rule
        let mut g = c.guides.clone().unwrap_or_default();
        g.push(gd_v(Some("q")));
        g.push(gd_h(Some(if ok { "r" } else { "q" })));
        c.guides = Some(g)
    }));
    v.push(Box::new(move |c| c.selection = Some(if ok { vec![1, 7] } else { vec![1, 5] })));
    v.push(Box::new(move |c| c.class = Some(if ok { vec![14, 15] } else { vec![15, 0] })));
    for k in 0..6 {
        v.push(Box::new(move |c| {
            let max = [14, 10, 14, 10, 12, 12][k];
            c.lists[k] = Some(ints(if ok { max } else { max + 1 }))
        }));
    }
    for k in 0..4 {
        // parity
        v.push(Box::new(move |c| c.lists[k] = Some(ints(if ok { 2 } else { 3 }))));
    }
    v.push(Box::new(move |c| c.wext = Some(if ok { vec![vec![(1, 1)]] } else { vec![vec![(1, 0)]] })));
    for k in 0..4 {
        v.push(Box::new(move |c| c.wsimple[k] = Some(if ok { 1 } else { 0 })));
    }
    v
}

fn random_case(rng: &mut Rng) -> Case {
    let mut c = Case::default();
    let angles = angle_pool();
    // profile: 0 any field; 1 only what a format-2 file has; 2 only the PostScript lists (format-1 lib data)
    let profile = match rng.below(10) {
        0..=5 => 0,
        6..=8 => 1,
        _ => 2,
    };
    // each present field is drawn from its satisfying values with probability 7/8
    let mut good = |rng: &mut Rng| !rng.chance(1, 8);
    if profile < 2 && rng.chance(1, 2) {
        let mut d: Vec<u8> = rng.pick(&VALID_DATES).as_bytes().to_vec();
        if good(rng) {
            // a random in-range date
            let s = format!(
                "{:04}/{:02}/{:02} {:02}:{:02}:{:02}",
                rng.below(10000),
                *rng.pick(&[1u64, 2, 9, 10, 11, 12]),
                *rng.pick(&[1u64, 9, 10, 28, 30, 31]),
                *rng.pick(&[0u64, 1, 9, 12, 22, 23]),
                *rng.pick(&[0u64, 30, 58, 59]),
                *rng.pick(&[0u64, 30, 58, 59])
            );
            d = s.into_bytes();
        } else {
            match rng.below(6) {
                0 => {
                    let p = rng.below(19) as usize;
                    d[p] = *rng.pick(&DATE_BYTES);
                }
                5 => {
                    // a multi-byte character over as many bytes as it is long (the total stays 19)
                    let ch = *rng.pick(&["\u{0661}", "\u{FF11}", "\u{1D7CF}", "\u{00B2}", "\u{00E9}", "\u{0969}"]);
                    let p = rng.below((20 - ch.len()) as u64) as usize;
                    d.splice(p..p + ch.len(), ch.bytes());
                }
                1 => {
                    // a field at a boundary
                    let (p, vals): (usize, &[&str]) = match rng.below(5) {
                        0 => (5, &["00", "01", "12", "13"]),
                        1 => (8, &["00", "01", "31", "32"]),
                        2 => (11, &["00", "23", "24"]),
                        3 => (14, &["00", "59", "60"]),
                        _ => (17, &["00", "59", "60"]),
                    };
                    let v = rng.pick(vals).as_bytes();
                    d[p] = v[0];
                    d[p + 1] = v[1];
                }
                2 => {
                    d.pop();
                }
                3 => d.push(b'0'),
                _ => {
                    for _ in 0..2 {
                        let p = rng.below(19) as usize;
                        d[p] = *rng.pick(&DATE_BYTES);
                    }
                }
            }
        }
        c.date = Some(String::from_utf8(d).unwrap());
    }
    if profile == 0 && rng.chance(1, 3) {
        let n = rng.below(5);
        let mut g: Vec<(i64, Vec<i64>)> = (0..n)
            .map(|_| (*rng.pick(&[0i64, 1, 2, 3, 65535, 4294967295]), (0..rng.below(3)).map(|_| rng.below(4) as i64).collect()))
            .collect();
        if good(rng) {
            g.sort();
        }
        c.gasp = Some(g);
    }
    if profile == 0 && rng.chance(1, 2) {
        let n = rng.below(5) as usize;
        let ids = ["a", "b", "c", "A", "a ", "d", "e"];
        let ok = good(rng);
        let mut used: Vec<&str> = vec![];
        c.guides = Some(
            (0..n)
                .map(|_| {
                    let mut id = if rng.chance(1, 2) { Some(*rng.pick(&ids)) } else { None };
                    if ok {
                        if let Some(x) = id {
                            if used.contains(&x) {
                                id = None;
                            } else {
                                used.push(x);
                            }
                        }
                    }
                    match rng.below(4) {
                        0 => gd_v(id),
                        1 => gd_h(id),
                        _ => gd_a(if ok || rng.chance(1, 2) { *rng.pick(&[0.0, -0.0, 1.0, 180.0, 360.0, 359.5]) } else { *rng.pick(&angles) }, id),
                    }
                })
                .collect(),
        );
    }
    if profile < 2 && rng.chance(1, 3) {
        let n = rng.below(5);
        c.selection = Some(if good(rng) {
            (0..n).map(|_| *rng.pick(&[1i64, 2, 3, 4, 7, 8, 9, 15, 255])).collect()
        } else {
            (0..n + 1).map(|_| *rng.pick(&[0i64, 1, 2, 3, 4, 5, 6, 7, 8, 9, 15, 255])).collect()
        });
    }
    if profile < 2 && rng.chance(1, 3) {
        c.class = Some(if good(rng) {
            vec![*rng.pick(&[0i64, 1, 13, 14]), *rng.pick(&[0i64, 1, 14, 15])]
        } else {
            vec![*rng.pick(&[0i64, 1, 13, 14, 15, 16, 255]), *rng.pick(&[0i64, 1, 14, 15, 16, 17, 255])]
        });
    }
    for k in 0..6 {
        if rng.chance(if profile == 2 { 1 } else { 1 }, if profile == 2 { 2 } else { 4 }) {
            let max = [14u64, 10, 14, 10, 12, 12][k];
            let n = if good(rng) {
                let n = *rng.pick(&[0, 2, 4, max - 2, max]);
                if k >= 4 && rng.chance(1, 2) { n.saturating_sub(1) } else { n }
            } else {
                match rng.below(4) {
                    0 => rng.below(18),
                    1 => max,
                    2 => max + 1,
                    _ => max - 1,
                }
            };
            c.lists[k] = Some(ints(n as usize));
        }
    }
    if profile == 2 && c.lists.iter().all(|l| l.is_none()) {
        c.lists[rng.below(6) as usize] = Some(ints(2));
    }
    if profile == 0 && rng.chance(1, 4) {
        c.wext = Some(if good(rng) {
            rng.pick(&[vec![vec![(1usize, 1usize)]], vec![vec![(1, 1), (2, 3)]], vec![vec![(2, 3)], vec![(1, 1)]]]).clone()
        } else {
            rng.pick(&wext_pool()).clone()
        });
    }
    for k in 0..4 {
        if profile == 0 && rng.chance(1, 4) {
            c.wsimple[k] = Some(if good(rng) { 1 + rng.below(2) as usize } else { rng.below(3) as usize });
        }
    }
    // typed extras, mostly well-typed
    if profile == 0 {
        if rng.chance(1, 8) {
            c.panose = Some((0..*rng.pick(&[10usize, 10, 10, 10, 10, 10, 9, 11])).map(|k| k as i64).collect());
        }
        if rng.chance(1, 8) {
            c.width = Some(*rng.pick(&[1i64, 5, 9, 9, 1, 5, 0, 10]));
        }
        if rng.chance(1, 8) {
            c.charset = Some(*rng.pick(&[1i64, 2, 20, 20, 1, 2, 0, 21]));
        }
        if rng.chance(1, 8) {
            let ok = good(rng);
            c.u32s = (0..rng.below(8))
                .map(|_| if ok { *rng.pick(&[0i64, 1, 400, 4294967295]) } else { *rng.pick(&[0i64, 1, 4294967295, -1, 4294967296]) })
                .collect();
        }
        if rng.chance(1, 8) {
            c.upm = Some(*rng.pick(&[1000.0, 2048.0, 0.0, 16.5, 1000.0, 2048.0, -0.0, -1000.0]));
        }
        if rng.chance(1, 60) {
            c.unknown = true;
        }
    }
    c
}

pub fn generate(a: &Args) -> Vec<(String, Case)> {
    let mut out: Vec<(String, Case)> = vec![];
    // the committed corpus (witnesses of repaired findings, earlier failures) runs first
    for x in &a.extra {
        if let Some(dir) = x.strip_prefix("corpus=") {
            let mut files: Vec<PathBuf> = std::fs::read_dir(dir)
                .map(|rd| rd.filter_map(|e| e.ok().map(|e| e.path())).collect())
                .unwrap_or_default();
            files.sort();
            for f in files {
                if f.extension().map(|e| e == "json").unwrap_or(false) {
                    let j: serde_json::Value =
                        serde_json::from_str(&std::fs::read_to_string(&f).expect("corpus file")).expect("corpus json");
                    out.push((
                        format!("corpus {}", f.file_name().unwrap().to_string_lossy()),
                        case_of_json(&j["case"]),
                    ));
                }
            }
        }
    }
    let mut push = |label: String, c: Case| out.push((label, c));
    push("empty".into(), Case::default());
    // --- the six lists, every length 0..16
    for k in 0..6 {
        for n in 0..=16 {
            let mut c = Case::default();
            c.lists[k] = Some(ints(n));
            push(format!("list {} len {}", LIST_KEYS[k], n), c);
        }
    }
    // --- dates
    let date = |d: &[u8]| {
        let mut c = Case::default();
        c.date = Some(String::from_utf8(d.to_vec()).unwrap());
        c
    };
    for base in VALID_DATES {
        push(format!("date {}", base), date(base.as_bytes()));
        for p in 0..19 {
            for b in DATE_BYTES {
                let mut d = base.as_bytes().to_vec();
                if d[p] != b {
                    d[p] = b;
                    push(format!("date {} byte {} := {:?}", base, p, b as char), date(&d));
                }
            }
        }
        // multi-byte characters: numeric ones of 2, 3 and 4 UTF-8 bytes (ARABIC-INDIC DIGIT ONE,
        // FULLWIDTH DIGIT ONE, MATHEMATICAL BOLD DIGIT ONE), SUPERSCRIPT TWO (numeric, not a
        // digit) and a letter. (a) in place of exactly as many ASCII bytes as the character is long:
        // still 19 bytes, and slice indices fall inside the character; (b) in place of one byte:
        // still 19 characters, more bytes.
        for ch in ["\u{0661}", "\u{FF11}", "\u{1D7CF}", "\u{00B2}", "\u{00E9}"] {
            let l = ch.len();
            for p in 0..=(19 - l) {
                let mut d = base.as_bytes().to_vec();
                d.splice(p..p + l, ch.bytes());
                push(format!("date {} bytes {}..{} := U+{:04X}", base, p, p + l, ch.chars().next().unwrap() as u32), date(&d));
            }
            for p in 0..19 {
                let mut d = base.as_bytes().to_vec();
                d.splice(p..p + 1, ch.bytes());
                push(format!("date {} byte {} := U+{:04X} ({} bytes)", base, p, ch.chars().next().unwrap() as u32, 18 + l), date(&d));
            }
        }
        // several multi-byte digits at once, 19 bytes in total
        for d in ["\u{0662}\u{0660}\u{0662}\u{0660}/\u{0660}\u{0661}/01 00",
                  "\u{FF12}\u{FF10}\u{FF12}\u{FF10}/\u{FF10}1 0", "2020/01/01 00:00:\u{0660}", "2020/01/01 00:00:0\u{0661}"] {
            if base == VALID_DATES[0] {
                push(format!("date {:?} ({} bytes)", d, d.len()), date(d.as_bytes()));
            }
        }
    }
    let fields: [(usize, &[&str]); 5] = [
        (5, &["00", "01", "09", "10", "12", "13", "19", "20", "99", " 1", "1 ", "+1"]),
        (8, &["00", "01", "09", "28", "30", "31", "32", "39", "40", "99", " 1", "+1"]),
        (11, &["00", "01", "19", "23", "24", "25", "29", "30", "99", " 1", "+1"]),
        (14, &["00", "01", "58", "59", "60", "61", "99", " 1", "+1"]),
        (17, &["00", "01", "58", "59", "60", "61", "99", " 1", "+1"]),
    ];
    for (p, vals) in fields {
        for v in vals {
            let mut d = VALID_DATES[0].as_bytes().to_vec();
            d[p] = v.as_bytes()[0];
            d[p + 1] = v.as_bytes()[1];
            push(format!("date field at {} := {:?}", p, v), date(&d));
        }
    }
    for y in ["0000", "0001", "1970", "9999", "65535", "+123", " 123", "123 ", "12/3", "-123", "२०२०"] {
        let mut d = y.as_bytes().to_vec();
        d.extend_from_slice(&VALID_DATES[0].as_bytes()[4..]);
        push(format!("date year {:?}", y), date(&d));
    }
    for mo in ["00", "01", "12", "13"] {
        for da in ["00", "01", "31", "32"] {
            for h in ["00", "23", "24"] {
                for mi in ["59", "60"] {
                    for se in ["59", "60"] {
                        let d = format!("2024/{}/{} {}:{}:{}", mo, da, h, mi, se);
                        push(format!("date {}", d), date(d.as_bytes()));
                    }
                }
            }
        }
    }
    for d in [
        "",
        " ",
        "2020/06/15 12:30:4",
        "2020/06/15 12:30:450",
        " 2020/06/15 12:30:45",
        "2020/06/15 12:30:45 ",
        "2020/06/15  12:30:45",
        "2020-06-15 12:30:45",
        "2020/06/15T12:30:45",
        "2020/06/15 12.30.45",
        "2020:06:15 12/30/45",
        "20200615123045     ",
        "2020/6/15 12:30:45",
        "2020/06/15 12:30:45\n",
        "///////////////////",
        "0000000000000000000",
        "                   ",
    ] {
        push(format!("date {:?}", d), date(d.as_bytes()));
    }
    // --- selection bits: all subsets of 0..7, and some lists that are not sets
    for m in 0..256u32 {
        let mut c = Case::default();
        c.selection = Some((0..8).filter(|b| m >> b & 1 == 1).map(|b| b as i64).collect());
        push(format!("selection subset {:#010b}", m), c);
    }
    for v in [vec![7, 0], vec![1, 1], vec![255], vec![9, 8, 6], vec![4, 5, 4], vec![256], vec![-1], vec![16, 32, 48]] {
        let mut c = Case::default();
        c.selection = Some(v.clone());
        push(format!("selection {:?}", v), c);
    }
    // --- family class
    for x in 0..=17 {
        for y in 0..=17 {
            let mut c = Case::default();
            c.class = Some(vec![x, y]);
            push(format!("class [{}, {}]", x, y), c);
        }
    }
    for v in [vec![], vec![1], vec![14], vec![1, 2, 3], vec![14, 15, 0], vec![0, 0, 0, 0], vec![99, 0, 0], vec![255, 255], vec![256, 0], vec![0, 256], vec![-1, 0], vec![0, -1], vec![14, 255]] {
        let mut c = Case::default();
        c.class = Some(v.clone());
        push(format!("class {:?}", v), c);
    }
    // --- gasp: all lists of length <= 4 over three ppem values
    for n in 0..=4u32 {
        for idx in 0..3u32.pow(n) {
            let mut c = Case::default();
            let mut x = idx;
            let mut v = vec![];
            for _ in 0..n {
                v.push(((x % 3) as i64 + 1, vec![(x % 4) as i64]));
                x /= 3;
            }
            c.gasp = Some(v);
            push(format!("gasp #{} of length {}", idx, n), c);
        }
    }
    for v in [
        vec![(4294967295i64, vec![])],
        vec![(0, vec![]), (4294967295, vec![])],
        vec![(4294967295, vec![]), (0, vec![])],
        vec![(4294967296, vec![])],
        vec![(-1, vec![])],
        vec![(1, vec![0, 1, 2, 3])],
        vec![(1, vec![4])],
        vec![(1, vec![-1])],
        vec![(2, vec![]), (1, vec![4])],
    ] {
        let mut c = Case::default();
        c.gasp = Some(v.clone());
        push(format!("gasp {:?}", v), c);
    }
    // --- guidelines: angles, shapes, identifier/angle order
    for x in angle_pool() {
        for id in [None, Some("a")] {
            let mut c = Case::default();
            c.guides = Some(vec![gd_a(x, id)]);
            push(format!("guideline angle {:?}", x), c);
        }
    }
    for m in 0..8u32 {
        let mut c = Case::default();
        c.guides = Some(vec![RGuide {
            x: m & 1 == 1,
            y: m & 2 == 2,
            angle: if m & 4 == 4 { Some(30.0) } else { None },
            id: None,
        }]);
        push(format!("guideline shape x={} y={} angle={}", m & 1, m >> 1 & 1, m >> 2), c);
    }
    let alpha = guide_alphabet();
    for n in 0..=3u32 {
        for idx in 0..(alpha.len() as u32).pow(n) {
            let mut c = Case::default();
            let mut x = idx as usize;
            let mut v = vec![];
            for _ in 0..n {
                v.push(alpha[x % alpha.len()].clone());
                x /= alpha.len();
            }
            c.guides = Some(v);
            push(format!("guidelines #{} of length {}", idx, n), c);
        }
    }
    for (i1, i2) in [("a", "A"), ("a", "a "), ("", ""), ("x", "x"), ("", " ")] {
        let mut c = Case::default();
        c.guides = Some(vec![gd_v(Some(i1)), gd_h(Some(i2))]);
        push(format!("guideline ids {:?} {:?}", i1, i2), c);
    }
    // --- WOFF
    for w in wext_pool() {
        let mut c = Case::default();
        c.wext = Some(w.clone());
        push(format!("woff extensions {:?}", w), c);
    }
    for k in 0..4 {
        for n in 0..3 {
            let mut c = Case::default();
            c.wsimple[k] = Some(n);
            push(format!("woff simple {} with {} entries", k, n), c);
        }
    }
    let wx: [Option<Vec<Vec<(usize, usize)>>>; 4] = [None, Some(vec![]), Some(vec![vec![]]), Some(vec![vec![(1, 1)]])];
    for e in &wx {
        for m in 0..81u32 {
            let mut c = Case::default();
            c.wext = e.clone();
            let mut x = m;
            for k in 0..4 {
                c.wsimple[k] = [None, Some(0), Some(1)][(x % 3) as usize];
                x /= 3;
            }
            push(format!("woff combination {:?} {}", e, m), c);
        }
    }
    // --- typed deserialisers
    for v in [(0..9).collect::<Vec<i64>>(), (0..10).collect(), (0..11).collect(), vec![], vec![-1; 10], vec![4294967295; 10], vec![4294967296; 10]] {
        let mut c = Case::default();
        c.panose = Some(v.clone());
        push(format!("panose {:?}", v), c);
    }
    for w in [-1, 0, 1, 5, 9, 10, 255, 256] {
        let mut c = Case::default();
        c.width = Some(w);
        push(format!("width class {}", w), c);
        let mut c = Case::default();
        c.charset = Some(w + 11);
        push(format!("charset {}", w + 11), c);
        let mut c = Case::default();
        c.charset = Some(w);
        push(format!("charset {}", w), c);
    }
    for k in 0..7 {
        for z in [-1, 0, 1, 4294967295, 4294967296] {
            let mut c = Case::default();
            c.u32s = vec![7; k];
            c.u32s.push(z);
            push(format!("{} = {}", U32_KEYS[k], z), c);
        }
    }
    for u in [1000.0, 0.0, -0.0, -1.0, 0.5, -0.5, f64::INFINITY, f64::NEG_INFINITY, f64::NAN, -f64::NAN, 1e-320, -1e-320] {
        let mut c = Case::default();
        c.upm = Some(u);
        push(format!("unitsPerEm {:?}", u), c);
    }
    {
        let mut c = Case::default();
        c.unknown = true;
        push("unknown key".into(), c.clone());
        c.date = Some(VALID_DATES[0].into());
        push("unknown key + date".into(), c.clone());
        c.date = Some("x".into());
        push("unknown key + bad date".into(), c);
    }
    // --- order of the rules: every pair of violated rules, each with the others satisfied/absent
    let bad = rule_instances(false);
    let good = rule_instances(true);
    for i in 0..bad.len() {
        let mut c = Case::default();
        bad[i](&mut c);
        push(format!("rule instance {} violated", i), c);
        let mut c = Case::default();
        good[i](&mut c);
        push(format!("rule instance {} satisfied", i), c);
        for j in 0..bad.len() {
            if i != j {
                let mut c = Case::default();
                bad[i](&mut c);
                bad[j](&mut c);
                push(format!("rule instances {} then {} violated", i, j), c);
            }
        }
    }
    {
        let mut c = Case::default();
        for g in &good {
            g(&mut c);
        }
        push("every rule satisfied".into(), c.clone());
        for i in 0..bad.len() {
            let mut d = c.clone();
            bad[i](&mut d);
            push(format!("every rule satisfied except instance {}", i), d);
        }
        let mut c = Case::default();
        for b in &bad {
            b(&mut c);
        }
        push("every rule violated".into(), c);
    }
    // --- random combinations of several rule-relevant fields at once
    let nrand = if a.thorough() { 200_000 } else { 6_000 };
    let mut rng = Rng::new(a.seed);
    for k in 0..nrand {
        push(format!("random #{}", k), random_case(&mut rng));
    }
    out
}

fn run_cases(cases: &[(String, Case)], root: &Path, nthreads: usize) -> Vec<Observed> {
    let chunk = (cases.len() + nthreads - 1) / nthreads.max(1);
    let mut results: Vec<Vec<Observed>> = vec![];
    std::thread::scope(|s| {
        let hs: Vec<_> = cases
            .chunks(chunk.max(1))
            .enumerate()
            .map(|(t, part)| {
                let root = root.to_path_buf();
                s.spawn(move || {
                    let sb = Sandbox::new(&root, &format!("{}", t));
                    part.iter().map(|(_, c)| observe(c, &sb)).collect::<Vec<_>>()
                })
            })
            .collect();
        for h in hs {
            results.push(h.join().expect("worker"));
        }
    });
    results.into_iter().flatten().collect()
}

pub fn main(a: &Args) {
    std::fs::create_dir_all(&a.out).unwrap();
    let sandbox_root = a.out.join("sandbox");
    std::fs::create_dir_all(&sandbox_root).unwrap();
    if let Some(p) = &a.replay {
        // replay file: JSON with the case under "case"
        let j: serde_json::Value = serde_json::from_str(&std::fs::read_to_string(p).expect("replay file")).expect("json");
        let c = case_of_json(&j["case"]);
        let sb = Sandbox::new(&sandbox_root, "replay");
        let (v, s, l, l2, l1) = observe(&c, &sb);
        println!("fontinfo.plist given to Font::load:\n{}", plist_text(&c));
        if v1_applicable(&c) {
            println!("lib.plist given to Font::load (format 1):\n{}", lib_text_v1(&c));
        }
        println!("in-memory FontInfo exists: {}", build(&c).is_some());
        println!("FontInfo::validate       -> {:?}", v);
        println!("Font::save               -> {:?}", s);
        println!("Font::load (format 3)    -> {:?}", l);
        println!("Font::load (format 2)    -> {:?}", l2);
        println!("Font::load (format 1 lib)-> {:?}", l1);
        println!(
            "GALLINA mkcase {} {} {} {} {} {}",
            g_raw(&c), g_obs(&v), g_obs(&s), g_obs(&l), g_obs(&l2), g_obs(&l1)
        );
        return;
    }
    let cases = generate(a);
    let obs = run_cases(&cases, &sandbox_root, 8);
    // shards of Gallina cases + a JSON line per case (label, case, what was observed)
    let shard = 500;
    let mut nshards = 0;
    let mut jl = String::new();
    let mut hist = std::collections::BTreeMap::<String, u64>::new();
    for (k, part) in cases.chunks(shard).enumerate() {
        let mut s = String::new();
        for (i, (_, c)) in part.iter().enumerate() {
            let (v, sv, l, l2, l1) = &obs[k * shard + i];
            let _ = writeln!(
                s,
                "mkcase {} {} {} {} {} {}",
                g_raw(c), g_obs(v), g_obs(sv), g_obs(l), g_obs(l2), g_obs(l1)
            );
        }
        write_file(&a.out.join(format!("cases_{}.txt", k)), &s);
        nshards += 1;
    }
    let short = |o: &Obs| match o {
        Obs::NA => "n/a".to_string(),
        Obs::Ok(_) => "ok".to_string(),
        Obs::Invalid(e) => format!("invalid {}", e),
        Obs::Parse => "parse".to_string(),
        Obs::Other(c, m) => format!("other {} {}", c, m),
    };
    for (k, (label, c)) in cases.iter().enumerate() {
        let (v, s, l, l2, l1) = &obs[k];
        let key = format!(
            "validate={} load={}",
            match v {
                Obs::Invalid(e) => e.split(|ch: char| !ch.is_alphanumeric()).find(|t| !t.is_empty()).unwrap_or("?").to_string(),
                o => short(o).split(' ').next().unwrap().to_string(),
            },
            match l {
                Obs::Invalid(_) => "invalid".to_string(),
                o => short(o).split(' ').next().unwrap().to_string(),
            }
        );
        *hist.entry(key).or_insert(0) += 1;
        let _ = writeln!(
            jl,
            "{}",
            serde_json::json!({"index": k, "label": label, "case": case_json(c),
                "validate": short(v), "save": short(s), "load": short(l),
                "load_format2": short(l2), "load_format1_lib": short(l1)})
        );
    }
    write_file(&a.out.join("cases.jsonl"), &jl);
    let nrand = cases.iter().filter(|(l, _)| l.starts_with("random #")).count();
    let n_mem = obs.iter().filter(|o| o.0 != Obs::NA).count();
    let n_v2 = obs.iter().filter(|o| o.3 != Obs::NA).count();
    let n_v1 = obs.iter().filter(|o| o.4 != Obs::NA).count();
    write_file(
        &a.out.join("summary.json"),
        &serde_json::json!({"cases": cases.len(), "shards": nshards, "shard_size": shard,
            "boundary_exhaustive_cases": cases.len() - nrand, "random_cases": nrand,
            "with_in_memory_value": n_mem, "through_format2_loader": n_v2, "through_format1_lib_loader": n_v1,
            "outcome_histogram": hist})
        .to_string(),
    );
    let _ = std::fs::remove_dir_all(&sandbox_root);
}
