mod c11;
mod util;

fn main() {
    util::quiet_panics();
    let argv: Vec<String> = std::env::args().skip(1).collect();
    if argv.is_empty() {
        eprintln!("usage: harness <property> --tier quick|thorough --seed N --out DIR [--replay F]");
        std::process::exit(2);
    }
    let a = util::Args::parse(&argv[1..]);
    match argv[0].as_str() {
        "c11" => c11::main(&a),
        other => {
            eprintln!("unknown subcommand {}", other);
            std::process::exit(2);
        }
    }
}
