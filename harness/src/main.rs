//! Harness: one subcommand per property; runs the implementation (norad at /repo, working tree)
//! on generated / enumerated inputs and writes what it did for the driver to compare with the model.
mod c01;
mod c02;
mod c03;
mod c04;
mod c05;
mod c06;
mod c07;
mod c08;
mod c09;
mod c10;
mod c11;
mod c12;
mod c13;
mod c14;
mod c15;
mod c16;
mod c17;
mod c18;
mod c19;
mod c20;
mod util;

fn main() {
    util::quiet_panics();
    let argv: Vec<String> = std::env::args().skip(1).collect();
    if argv.is_empty() {
        eprintln!("usage: harness <property> --tier quick|thorough --seed N --out DIR [--replay F]");
        std::process::exit(2);
    }
    let a = util::Args::parse(&argv[1..]);
    match argv[0].as_str() {
        "c01" => c01::main(&a),
        "c02" => c02::main(&a),
        "c03" => c03::main(&a),
        "c04" => c04::main(&a),
        "c05" => c05::main(&a),
        "c06" => c06::main(&a),
        "c07" => c07::main(&a),
        "c08" => c08::main(&a),
        "c09" => c09::main(&a),
        "c10" => c10::main(&a),
        "c11" => c11::main(&a),
        "c12" => c12::main(&a),
        "c13" => c13::main(&a),
        "c14" => c14::main(&a),
        "c15" => c15::main(&a),
        "c16" => c16::main(&a),
        "c17" => c17::main(&a),
        "c18" => c18::main(&a),
        "c19" => c19::main(&a),
        "c20" => c20::main(&a),
        other => {
            eprintln!("unknown subcommand {}", other);
            std::process::exit(2);
        }
    }
}
