//! Shared helpers: PRNG, panic capture, JSON/Gallina printing.
#![allow(dead_code)]
use std::fmt::Write as _;
use std::path::{Path, PathBuf};

/// SplitMix64: every random choice of a run derives from one state seeded by VERIF_SEED.
#[derive(Clone)]
pub struct Rng(pub u64);
impl Rng {
    pub fn new(seed: u64) -> Self {
        Rng(seed ^ 0x9E37_79B9_7F4A_7C15)
    }
    pub fn next(&mut self) -> u64 {
        self.0 = self.0.wrapping_add(0x9E37_79B9_7F4A_7C15);
        let mut z = self.0;
        z = (z ^ (z >> 30)).wrapping_mul(0xBF58_476D_1CE4_E5B9);
        z = (z ^ (z >> 27)).wrapping_mul(0x94D0_49BB_1331_11EB);
        z ^ (z >> 31)
    }
    pub fn below(&mut self, n: u64) -> u64 {
        if n == 0 {
            0
        } else {
            self.next() % n
        }
    }
    pub fn range(&mut self, lo: i64, hi: i64) -> i64 {
        lo + self.below((hi - lo + 1) as u64) as i64
    }
    pub fn chance(&mut self, num: u64, den: u64) -> bool {
        self.below(den) < num
    }
    pub fn pick<'a, T>(&mut self, xs: &'a [T]) -> &'a T {
        &xs[self.below(xs.len() as u64) as usize]
    }
    pub fn fork(&mut self) -> Rng {
        Rng(self.next())
    }
}

/// Run `f`, turning a panic into Err(message).
pub fn catch<T>(f: impl FnOnce() -> T) -> Result<T, String> {
    match std::panic::catch_unwind(std::panic::AssertUnwindSafe(f)) {
        Ok(v) => Ok(v),
        Err(e) => {
            let msg = if let Some(s) = e.downcast_ref::<&str>() {
                s.to_string()
            } else if let Some(s) = e.downcast_ref::<String>() {
                s.clone()
            } else {
                "panic".to_string()
            };
            Err(msg)
        }
    }
}

pub fn quiet_panics() {
    std::panic::set_hook(Box::new(|_| {}));
}

pub struct Args {
    pub tier: String,
    pub seed: u64,
    pub out: PathBuf,
    pub replay: Option<PathBuf>,
    pub extra: Vec<String>,
}
impl Args {
    pub fn parse(argv: &[String]) -> Args {
        let mut a = Args {
            tier: "quick".into(),
            seed: 1,
            out: PathBuf::from("."),
            replay: None,
            extra: vec![],
        };
        let mut i = 0;
        while i < argv.len() {
            match argv[i].as_str() {
                "--tier" => {
                    a.tier = argv[i + 1].clone();
                    i += 1
                }
                "--seed" => {
                    a.seed = argv[i + 1].parse().unwrap_or(1);
                    i += 1
                }
                "--out" => {
                    a.out = PathBuf::from(&argv[i + 1]);
                    i += 1
                }
                "--replay" => {
                    a.replay = Some(PathBuf::from(&argv[i + 1]));
                    i += 1
                }
                other => a.extra.push(other.to_string()),
            }
            i += 1;
        }
        a
    }
    pub fn thorough(&self) -> bool {
        self.tier == "thorough"
    }
}

pub fn write_file(p: &Path, s: &str) {
    std::fs::write(p, s).unwrap_or_else(|e| panic!("cannot write {}: {}", p.display(), e));
}

/// Gallina list of N literals from bytes / code points.
pub fn g_nlist<I: IntoIterator<Item = u64>>(xs: I) -> String {
    let mut s = String::from("[");
    let mut first = true;
    for x in xs {
        if !first {
            s.push(';');
        }
        first = false;
        let _ = write!(s, "{}", x);
    }
    s.push(']');
    s
}
pub fn g_str(t: &str) -> String {
    g_nlist(t.chars().map(|c| c as u64))
}
pub fn g_bytes(t: &[u8]) -> String {
    g_nlist(t.iter().map(|c| *c as u64))
}
pub fn g_bool(b: bool) -> &'static str {
    if b {
        "true"
    } else {
        "false"
    }
}
pub fn g_opt(o: Option<String>) -> String {
    match o {
        None => "None".into(),
        Some(s) => format!("(Some {})", s),
    }
}
pub fn g_list(xs: &[String]) -> String {
    format!("[{}]", xs.join(";"))
}

/// Printed form of the dump tree `tm` (same grammar as Coq prints it): N_ n | L_ [..]
#[derive(Clone, Debug, PartialEq)]
pub enum Tm {
    N(u64),
    L(Vec<Tm>),
}
impl Tm {
    pub fn s(t: &str) -> Tm {
        Tm::L(t.chars().map(|c| Tm::N(c as u64)).collect())
    }
    pub fn b(b: bool) -> Tm {
        Tm::N(b as u64)
    }
    pub fn opt(o: Option<Tm>) -> Tm {
        match o {
            None => Tm::L(vec![]),
            Some(t) => Tm::L(vec![t]),
        }
    }
    pub fn render(&self, out: &mut String) {
        match self {
            Tm::N(n) => {
                let _ = write!(out, "N_ {}", n);
            }
            Tm::L(l) => {
                out.push_str("L_ [");
                for (i, t) in l.iter().enumerate() {
                    if i > 0 {
                        out.push_str("; ");
                    }
                    t.render(out);
                }
                out.push(']');
            }
        }
    }
    pub fn to_string(&self) -> String {
        let mut s = String::new();
        self.render(&mut s);
        s
    }
}

/// f64 as (sign, mantissa, exponent) with value = (-1)^s * m * 2^e, m odd or 0 (normalised
/// dyadic), plus class tags for non-finite values.
pub fn dyadic(x: f64) -> (bool, u64, i64, u8) {
    // class: 0 finite, 1 inf, 2 nan
    if x.is_nan() {
        return (false, 0, 0, 2);
    }
    if x.is_infinite() {
        return (x < 0.0, 0, 0, 1);
    }
    let bits = x.to_bits();
    let sign = bits >> 63 == 1;
    let exp = ((bits >> 52) & 0x7ff) as i64;
    let frac = bits & ((1u64 << 52) - 1);
    let (mut m, mut e) = if exp == 0 { (frac, -1074) } else { (frac | (1u64 << 52), exp - 1075) };
    if m == 0 {
        return (sign, 0, 0, 0);
    }
    while m & 1 == 0 {
        m >>= 1;
        e += 1;
    }
    (sign, m, e, 0)
}
