//! C20: Contour::to_kurbo, ContourPoint::transform and the AffineTransform <-> kurbo::Affine
//! conversions on inputs that the Coq side (coq/Run/C20.v) derives from the same key with the
//! same 63-bit integer arithmetic; results are exchanged as one 6-bit fingerprint per case.
use crate::util::*;
use norad::{AffineTransform, Contour, ContourPoint, Glyph, PointType};
use std::fmt::Write as _;

const MASK: u64 = (1u64 << 63) - 1;

// ---------- 63-bit mixing: the same operations as Run/C20.v ----------
fn mix(z: u64) -> u64 {
    let z = (z ^ (z >> 30)).wrapping_mul(0x3F58476D1CE4E5B9) & MASK;
    let z = (z ^ (z >> 27)).wrapping_mul(0x14D049BB133111EB) & MASK;
    z ^ (z >> 31)
}
fn draw(key: u64, a: u64, b: u64) -> u64 {
    let x = key
        .wrapping_add(a.wrapping_mul(0x1E3779B97F4A7C15))
        .wrapping_add(b.wrapping_mul(0x2545F4914F6CDD1D))
        & MASK;
    mix(mix(x).wrapping_add(0x632BE59BD9B4E019) & MASK)
}
fn hstep(h: u64, v: u64) -> u64 {
    mix(h.wrapping_mul(0x2545F4914F6CDD1D).wrapping_add(v).wrapping_add(0x1E3779B97F4A7C15) & MASK)
}

// ---------- doubles ----------
const FRAC: u64 = (1u64 << 52) - 1;
fn of_fields(s: u64, e: u64, frac: u64) -> f64 {
    f64::from_bits((s << 63) | (e << 52) | frac)
}
/// (sign, biased exponent, fraction); every NaN is reported as (0, 2047, 1)
fn to_fields(f: f64) -> (u64, u64, u64) {
    if f.is_nan() {
        return (0, 2047, 1);
    }
    let b = f.to_bits();
    (b >> 63, (b >> 52) & 0x7ff, b & FRAC)
}
fn canon_bits(f: f64) -> u64 {
    let (s, e, fr) = to_fields(f);
    (s << 63) | (e << 52) | fr
}
fn hash_float(h: u64, f: f64) -> u64 {
    let (s, e, fr) = to_fields(f);
    hstep(hstep(h, s * 2048 + e), fr)
}
const SPECIALS: [(u64, u64, u64); 16] = [
    (0, 0, 0),
    (1, 0, 0),
    (0, 1023, 0),
    (1, 1023, 0),
    (0, 1022, 0),
    (0, 2046, FRAC),
    (1, 2046, FRAC),
    (0, 1, 0),
    (0, 0, 1),
    (0, 0, FRAC),
    (0, 1075, 0),
    (0, 1076, 1),
    (0, 1023, 1),
    (0, 1022, FRAC),
    (0, 1024, 0x8000000000000),
    (1, 1021, 0),
];
fn gen_float(d1: u64, d2: u64) -> f64 {
    let cat = d1 & 7;
    let sgn = (d1 >> 3) & 1;
    let u = d1 >> 4;
    let frac = d2 & FRAC;
    if cat <= 1 {
        ((u % 2001) as i64 - 1000) as f64 + 0.0
    } else if cat == 2 {
        let k = (u % 8001) as i64;
        if k >= 4000 {
            (k - 4000) as f64 / 4.0
        } else {
            -((4000 - k) as f64 / 4.0)
        }
    } else if cat <= 4 {
        of_fields(sgn, 993 + u % 61, frac)
    } else if cat == 5 {
        of_fields(sgn, 1 + u % 2046, frac)
    } else if cat == 6 {
        of_fields(sgn, u % 2047, frac)
    } else {
        let (s, e, fr) = SPECIALS[(u & 15) as usize];
        of_fields(s, e, fr)
    }
}
fn force_cat(mode: u64, d1: u64) -> u64 {
    match mode {
        0 => (d1 >> 3) << 3,
        1 => ((d1 >> 3) << 3) + 3,
        _ => d1,
    }
}

// ---------- contours ----------
const TYPES: [&str; 5] = ["move", "line", "offcurve", "curve", "qcurve"];
fn ptype(t: u8) -> PointType {
    match t {
        0 => PointType::Move,
        1 => PointType::Line,
        2 => PointType::OffCurve,
        3 => PointType::Curve,
        _ => PointType::QCurve,
    }
}
fn tnum(t: &PointType) -> u8 {
    match t {
        PointType::Move => 0,
        PointType::Line => 1,
        PointType::OffCurve => 2,
        PointType::Curve => 3,
        PointType::QCurve => 4,
    }
}
/// (type 0..4, smooth, x, y)
type Pt = (u8, bool, f64, f64);

fn coords_exh(i: usize) -> (f64, f64) {
    let k = (i + 1) as u64;
    ((1u64 << k) as f64, (1000 + 3 * k * k) as f64)
}
fn coords_rand(key: u64, j: u64, i: usize) -> (f64, f64) {
    let kc = mix(key.wrapping_add(2) & MASK);
    // the enumerated part of the segment-list stream uses small integers (readable replays)
    let mode = if (SEG_OFFSET..SEG_OFFSET + N_PAIRS + N_TRIPLES).contains(&j) { 0 } else { draw(kc, j, 1048576) % 3 };
    let i = i as u64;
    (
        gen_float(force_cat(mode, draw(kc, j, 4 * i)), draw(kc, j, 4 * i + 1)),
        gen_float(force_cat(mode, draw(kc, j, 4 * i + 2)), draw(kc, j, 4 * i + 3)),
    )
}

fn build(points: &[Pt]) -> Contour {
    Contour::new(
        points.iter().map(|p| ContourPoint::new(p.2, p.3, ptype(p.0), p.1, None, None)).collect(),
        None,
    )
}
fn doc(points: &[Pt], variant: u64) -> String {
    let mut s = String::from(
        "<?xml version=\"1.0\" encoding=\"UTF-8\"?>\n<glyph name=\"a\" format=\"2\">\n<outline>\n<contour>\n",
    );
    for (i, p) in points.iter().enumerate() {
        let _ = write!(s, "<point x=\"{:?}\" y=\"{:?}\"", p.2, p.3);
        if p.0 != 2 || (variant >> (i % 60)) & 1 == 1 {
            let _ = write!(s, " type=\"{}\"", TYPES[p.0 as usize]);
        }
        if p.1 {
            s.push_str(" smooth=\"yes\"");
        }
        s.push_str("/>\n");
    }
    s.push_str("</contour>\n</outline>\n</glyph>\n");
    s
}

#[derive(Clone, Debug, PartialEq)]
enum Out {
    Path(Vec<(u8, Vec<f64>)>),
    TooMany,
    BadPoint,
    OtherErr,
    Panic,
}
fn convert(c: &Contour) -> Out {
    match catch(|| c.to_kurbo()) {
        Err(_) => Out::Panic,
        Ok(Err(e)) => {
            let k = format!("{:?}", e);
            if k.contains("TooManyOffCurves") {
                Out::TooMany
            } else if k.contains("BadPoint") {
                Out::BadPoint
            } else {
                Out::OtherErr
            }
        }
        Ok(Ok(path)) => Out::Path(
            path.elements()
                .iter()
                .map(|el| match el {
                    kurbo::PathEl::MoveTo(p) => (1u8, vec![p.x, p.y]),
                    kurbo::PathEl::LineTo(p) => (2, vec![p.x, p.y]),
                    kurbo::PathEl::QuadTo(a, p) => (3, vec![a.x, a.y, p.x, p.y]),
                    kurbo::PathEl::CurveTo(a, b, p) => (4, vec![a.x, a.y, b.x, b.y, p.x, p.y]),
                    kurbo::PathEl::ClosePath => (5, vec![]),
                })
                .collect(),
        ),
    }
}
fn hash_out(o: &Out) -> u64 {
    match o {
        Out::Path(els) => {
            let mut h = 17u64;
            for (tag, fs) in els {
                h = hstep(h, *tag as u64);
                for f in fs {
                    h = hash_float(h, *f);
                }
            }
            h
        }
        Out::TooMany => 2,
        Out::BadPoint => 3,
        Out::Panic => 4,
        Out::OtherErr => 5,
    }
}
fn same(a: f64, b: f64) -> bool {
    canon_bits(a) == canon_bits(b)
}

/// The property's own predicate, evaluated directly on what the implementation returned for a
/// contour the parser accepted (an independent restatement; the Coq specification decides).
fn oracle(points: &[Pt], out: &Out) -> Option<String> {
    let els = match out {
        Out::Path(e) => e,
        other => return Some(format!("conversion of an accepted contour did not succeed: {:?}", other)),
    };
    let n = points.len();
    if n == 0 {
        return if els.is_empty() { None } else { Some("empty contour gave a non-empty path".into()) };
    }
    if els.is_empty() || els[0].0 != 1 {
        return Some("path does not begin with MoveTo".into());
    }
    if els[1..].iter().any(|e| e.0 == 1 || e.0 == 5) {
        return Some("MoveTo/ClosePath inside the path".into());
    }
    let start = (els[0].1[0], els[0].1[1]);
    let closed = points[0].0 != 0;
    let all_off = points.iter().all(|p| p.0 == 2);
    // start point
    if !closed {
        if !(same(start.0, points[0].2) && same(start.1, points[0].3)) {
            return Some("open contour does not start at its move point".into());
        }
    } else if !all_off {
        if !points.iter().any(|p| p.0 != 2 && same(p.2, start.0) && same(p.3, start.1)) {
            return Some("closed contour does not start at one of its on-curve points".into());
        }
    }
    // closure
    if closed {
        let last = els.last().unwrap();
        let k = last.1.len();
        if els.len() < 2 || !(same(last.1[k - 2], start.0) && same(last.1[k - 1], start.1)) {
            return Some("closed contour does not return to its start point".into());
        }
    }
    // number of segments: one per on-curve point, a qcurve after k > 0 off-curves counts k
    let mut expected = 0usize;
    if all_off {
        expected = n;
    } else {
        for i in 0..n {
            if points[i].0 == 2 || (!closed && i == 0) {
                continue;
            }
            let mut k = 0;
            let mut j = i;
            loop {
                if j == 0 {
                    if !closed {
                        break;
                    }
                    j = n;
                }
                j -= 1;
                if points[j].0 == 2 && k < n {
                    k += 1
                } else {
                    break;
                }
            }
            expected += if points[i].0 == 4 && k > 0 { k } else { 1 };
            // kind of the segment is checked by the Coq specification
        }
    }
    if els.len() - 1 != expected {
        return Some(format!("{} segments, the drawing rules give {}", els.len() - 1, expected));
    }
    // no point lost: the contour's points, in cyclic order, are a subsequence of the path's points
    let mut pp: Vec<(f64, f64)> = vec![];
    for (_, fs) in els {
        for q in fs.chunks(2) {
            pp.push((q[0], q[1]));
        }
    }
    let mut ok = false;
    for k in 0..n {
        if !closed && k > 0 {
            break;
        }
        let mut it = pp.iter();
        if (0..n).all(|i| {
            let p = &points[(k + i) % n];
            it.any(|q| same(q.0, p.2) && same(q.1, p.3))
        }) {
            ok = true;
            break;
        }
    }
    if !ok {
        return Some("a point of the contour is missing from the path (or out of order)".into());
    }
    None
}

struct CaseRes {
    model: u64,
    spec: u64,
    accepted: bool,
    violation: Option<String>,
}
fn run_contour(points: &[Pt], variant: u64) -> CaseRes {
    let direct = convert(&build(points));
    let model = hash_out(&direct);
    let d = doc(points, variant);
    let parsed = catch(|| Glyph::parse_raw(d.as_bytes()));
    match parsed {
        Err(_) => CaseRes { model, spec: 6, accepted: false, violation: Some("parse_raw panicked".into()) },
        Ok(Err(_)) => CaseRes { model, spec: 1, accepted: false, violation: None },
        Ok(Ok(g)) => {
            let empty = Contour::default();
            let c = if points.is_empty() && g.contours.is_empty() {
                &empty
            } else if g.contours.len() == 1 {
                &g.contours[0]
            } else {
                return CaseRes { model, spec: 6, accepted: true, violation: Some("parsed glyph does not hold exactly one contour".into()) };
            };
            let unchanged = c.points.len() == points.len()
                && c.points.iter().zip(points).all(|(a, b)| {
                    tnum(&a.typ) == b.0 && a.smooth == b.1 && same(a.x, b.2) && same(a.y, b.3)
                });
            if !unchanged {
                return CaseRes { model, spec: 6, accepted: true, violation: Some("the parsed contour differs from the document".into()) };
            }
            let out = convert(c);
            let violation = oracle(points, &out);
            CaseRes { model, spec: hash_out(&out), accepted: true, violation }
        }
    }
}

fn dump_out(o: &Out) -> String {
    match o {
        Out::Path(els) => {
            let mut s = String::from("Ok [");
            for (i, (tag, fs)) in els.iter().enumerate() {
                if i > 0 {
                    s.push_str(", ");
                }
                s.push_str(["", "MoveTo", "LineTo", "QuadTo", "CurveTo", "ClosePath"][*tag as usize]);
                for q in fs.chunks(2) {
                    let _ = write!(s, " ({:?}, {:?})", q[0], q[1]);
                }
            }
            s.push(']');
            s
        }
        other => format!("{:?}", other),
    }
}
fn bits_out(o: &Out) -> String {
    // same shape as Run/C20.v dump_result: (code, [(tag, [bits..])..])
    match o {
        Out::Path(els) => {
            let items: Vec<String> = els
                .iter()
                .map(|(t, fs)| format!("[{},[{}]]", t, fs.iter().map(|f| canon_bits(*f).to_string()).collect::<Vec<_>>().join(",")))
                .collect();
            format!("[0,[{}]]", items.join(","))
        }
        Out::TooMany => "[2,[]]".into(),
        Out::BadPoint => "[3,[]]".into(),
        Out::Panic => "[4,[]]".into(),
        Out::OtherErr => "[5,[]]".into(),
    }
}

fn points_exh(types: &[u8], smooth_bits: u64) -> Vec<Pt> {
    types
        .iter()
        .enumerate()
        .map(|(i, t)| {
            let (x, y) = coords_exh(i);
            // smooth only on on-curve points (it must not influence legality or the path)
            (*t, *t != 2 && (smooth_bits >> (i % 60)) & 1 == 1, x, y)
        })
        .collect()
}
fn points_rand(key: u64, j: u64, digits: &[u8]) -> Vec<Pt> {
    digits
        .iter()
        .enumerate()
        .map(|(i, d)| {
            let (x, y) = coords_rand(key, j, i);
            (d / 2, d % 2 == 1, x, y)
        })
        .collect()
}

/// type sequence of random contour j (digit coding of C11: type*2 + smooth); the same function
/// as Run/C20.v gen_digits
fn gen_digits(key: u64, j: u64) -> Vec<u8> {
    let kg = mix(key.wrapping_add(3) & MASK);
    let d0 = draw(kg, j, 0);
    let len = if j % 40 == 0 { 60 + d0 % 141 } else { 1 + d0 % 24 };
    let mut ds: Vec<u64> = Vec::with_capacity(len as usize);
    if draw(kg, j, 1) % 12 == 0 {
        for i in 0..len {
            ds.push(draw(kg, j, 10 + i) % 10);
        }
    } else {
        let open = draw(kg, j, 2) % 3 == 0;
        let mut offs = 0u64;
        for i in 0..len {
            let d = draw(kg, j, 10 + i);
            let r = d % 100;
            let t = if i == 0 && open {
                0
            } else if offs == 0 {
                if r < 25 { 1 } else if r < 60 { 2 } else if r < 80 { 3 } else { 4 }
            } else if offs == 1 {
                if r < 40 { 2 } else if r < 75 { 3 } else { 4 }
            } else if r < 15 {
                2
            } else if r < 55 {
                if offs == 2 { 3 } else { 4 }
            } else {
                4
            };
            let sm = if t == 2 { 0 } else if (d >> 20) % 3 == 0 { 1 } else { 0 };
            ds.push(2 * t + sm);
            offs = if t == 2 { offs + 1 } else { 0 };
        }
        let e = draw(kg, j, 3) % 24;
        if e < 2 {
            for d in ds.iter_mut() {
                *d = 4;
            }
        } else if e < 5 {
            let q = (draw(kg, j, 4) % len) as usize;
            ds[q] = draw(kg, j, 5) % 10;
        }
    }
    if !ds.is_empty() && ds[0] >> 1 == 0 {
        while ds.len() > 1 && ds[ds.len() - 1] >> 1 == 2 {
            ds.pop();
        }
    }
    ds.iter().map(|d| *d as u8).collect()
}

// ---------- the segment-list stream (same function as Run/C20.v seg_digits) ----------
const D_MOVE: u8 = 0;
const D_LINE: u8 = 2;
const D_OFF: u8 = 4;
const D_CURVE: u8 = 6;
const D_QCURVE: u8 = 8;
const SEG_SUMS: [u64; 5] = [15, 16, 31, 47, 63];
const N_PAIRS: u64 = 213;
const N_TRIPLES: u64 = 354;
const SPECIAL_RUNS: [u64; 11] = [14, 15, 16, 17, 30, 31, 32, 33, 63, 64, 65];
const SEG_OFFSET: u64 = 1073741824;

fn seg_triple(t: u64) -> (u64, u64) {
    let mut t = t;
    for s in SEG_SUMS {
        if t <= s {
            return (t, s - t);
        }
        t -= s + 1;
    }
    (0, 0)
}
fn rotl(v: Vec<u8>, k: usize) -> Vec<u8> {
    let mut r = v[k..].to_vec();
    r.extend_from_slice(&v[..k]);
    r
}
fn seg_digits(key: u64, j: u64) -> Vec<u8> {
    let ks = mix(key.wrapping_add(4) & MASK);
    let rotd = |l: Vec<u8>| -> Vec<u8> {
        let k = (draw(ks, j, 4) % l.len() as u64) as usize;
        rotl(l, k)
    };
    let offs = |k: u64| -> Vec<u8> { vec![D_OFF; k as usize] };
    if j < N_PAIRS {
        let (k, v) = (j / 3, j % 3);
        let mut body = offs(k);
        body.extend_from_slice(&[D_QCURVE, D_OFF, D_OFF, D_CURVE]);
        let first = if v == 2 { D_MOVE } else { D_LINE };
        let mut l = vec![first];
        l.extend(body);
        return if v == 1 { rotd(l) } else { l };
    }
    if j < N_PAIRS + N_TRIPLES {
        let t = j - N_PAIRS;
        let (k1, k2) = seg_triple(t / 2);
        let mut l = vec![if t % 2 == 0 { D_LINE } else { D_MOVE }];
        l.extend(offs(k1));
        l.push(D_QCURVE);
        l.extend(offs(k2));
        l.extend_from_slice(&[D_QCURVE, D_OFF, D_OFF, D_CURVE]);
        return if t % 2 == 0 { rotd(l) } else { l };
    }
    if draw(ks, j, 2) % 12 == 0 {
        return offs(1 + draw(ks, j, 3) % 40);
    }
    let nseg = 1 + draw(ks, j, 0) % 12;
    let mut w: Vec<u8> = vec![];
    for i in 0..nseg {
        let d = draw(ks, j, 10 + i);
        let r = d % 100;
        let e = d >> 8;
        let sm = if (e >> 20) % 3 == 0 { 1u8 } else { 0 };
        let sg: Vec<u8> = if r < 20 {
            vec![D_LINE + sm]
        } else if r < 30 {
            vec![D_CURVE + sm]
        } else if r < 45 {
            vec![D_OFF, D_CURVE + sm]
        } else if r < 70 {
            vec![D_OFF, D_OFF, D_CURVE + sm]
        } else {
            let r2 = e % 10;
            let k = if r2 < 5 {
                (e >> 4) % 41
            } else if r2 < 8 {
                SPECIAL_RUNS[((e >> 4) % 11) as usize]
            } else {
                (e >> 4) % 4
            };
            let mut v = offs(k);
            v.push(D_QCURVE + sm);
            v
        };
        if w.len() + sg.len() > 150 {
            break;
        }
        w.extend(sg);
    }
    if w.is_empty() {
        return vec![D_LINE];
    }
    if draw(ks, j, 1) % 3 == 0 {
        let mut l = vec![D_MOVE];
        l.extend(w);
        l
    } else {
        rotd(w)
    }
}
fn seg_case(key: u64, j: u64) -> (Vec<u8>, CaseRes) {
    let digits = seg_digits(key, j);
    let pts = points_rand(key, j + SEG_OFFSET, &digits);
    let r = run_contour(&pts, draw(key, 9001, j));
    (digits, r)
}
/// statistics of one contour in walk order (from the point after the last on-curve point of a
/// closed contour): lengths of the off-curve runs ended by a qcurve, and for every cubic with
/// two off-curves the number of off-curves consumed by qcurves since the previous curve point
fn seg_stats(digits: &[u8], runs: &mut [u64; 72], cum: &mut [u64; 72]) {
    let n = digits.len();
    let t = |i: usize| digits[i] / 2;
    if n == 0 || (0..n).all(|i| t(i) == 2) {
        return;
    }
    let start = if t(0) == 0 { 0 } else { (0..n).rev().find(|i| t(*i) != 2).unwrap() };
    let mut run = 0usize;
    let mut consumed = 0usize;
    for s in 1..=n {
        let i = (start + s) % n;
        if t(0) == 0 && start + s >= n {
            break;
        }
        match t(i) {
            2 => run += 1,
            4 => {
                runs[run.min(71)] += 1;
                consumed += run;
                run = 0;
            }
            3 => {
                if run == 2 {
                    cum[consumed.min(71)] += 1;
                }
                consumed = 0;
                run = 0;
            }
            _ => run = 0,
        }
    }
}

// ---------- transforms ----------
fn tr_case(key: u64, i: u64) -> (AffineTransform, (f64, f64)) {
    let kt = mix(key.wrapping_add(1) & MASK);
    let mode = draw(kt, i, 100) & 3;
    let g = |j: u64| gen_float(force_cat(mode, draw(kt, i, 2 * j)), draw(kt, i, 2 * j + 1));
    (
        AffineTransform { x_scale: g(0), xy_scale: g(1), yx_scale: g(2), y_scale: g(3), x_offset: g(4), y_offset: g(5) },
        (g(6), g(7)),
    )
}
struct TrRes {
    norad: (f64, f64),
    kurbo: (f64, f64),
    roundtrip_ok: bool,
    back: AffineTransform,
    formula: (f64, f64),
}
fn run_transform(t: AffineTransform, p: (f64, f64)) -> TrRes {
    let mut cp = ContourPoint::new(p.0, p.1, PointType::Line, false, None, None);
    cp.transform(t);
    let ka: kurbo::Affine = t.into();
    let back: AffineTransform = ka.into();
    let roundtrip_ok = same(back.x_scale, t.x_scale)
        && same(back.xy_scale, t.xy_scale)
        && same(back.yx_scale, t.yx_scale)
        && same(back.y_scale, t.y_scale)
        && same(back.x_offset, t.x_offset)
        && same(back.y_offset, t.y_offset);
    let kp = ka * kurbo::Point::new(p.0, p.1);
    let formula = (
        t.x_scale * p.0 + t.yx_scale * p.1 + t.x_offset,
        t.xy_scale * p.0 + t.y_scale * p.1 + t.y_offset,
    );
    TrRes { norad: (cp.x, cp.y), kurbo: (kp.x, kp.y), roundtrip_ok, back, formula }
}
fn hash_pt(h: u64, p: (f64, f64)) -> u64 {
    hash_float(hash_float(h, p.0), p.1)
}

fn json_str(s: &str) -> String {
    serde_json::to_string(s).unwrap()
}

const BS_TR: u64 = 100;
const BS_EXH: u64 = 125;
const BS_RAND: u64 = 50;

fn exh_types(n: usize, idx: u64) -> Vec<u8> {
    let mut types = vec![0u8; n];
    let mut x = idx;
    for k in (0..n).rev() {
        types[k] = (x % 5) as u8;
        x /= 5;
    }
    types
}
fn exh_case(key: u64, n: usize, idx: u64) -> (Vec<u8>, Vec<Pt>, CaseRes) {
    let types = exh_types(n, idx);
    let pts = points_exh(&types, draw(key, 7000 + n as u64, idx));
    let r = run_contour(&pts, draw(key, 8000 + n as u64, idx));
    (types, pts, r)
}
fn rand_case(key: u64, j: u64) -> (Vec<u8>, CaseRes) {
    let digits = gen_digits(key, j);
    let pts = points_rand(key, j, &digits);
    let r = run_contour(&pts, draw(key, 9000, j));
    (digits, r)
}
/// (fingerprint of ContourPoint::transform, fingerprint of the kurbo side + round trip)
fn tr_hashes(r: &TrRes) -> (u64, u64) {
    let b = r.back;
    let mut hk = hash_pt(29, r.kurbo);
    for f in [b.x_scale, b.xy_scale, b.yx_scale, b.y_scale, b.x_offset, b.y_offset] {
        hk = hash_float(hk, f);
    }
    (hash_pt(29, r.norad), hk)
}

/// folds per-case fingerprints block-wise, like Run/C20.v block_sums
struct Sums {
    bsize: u64,
    n: u64,
    cur: u64,
    out: String,
}
impl Sums {
    fn new(bsize: u64) -> Sums {
        Sums { bsize, n: 0, cur: 0, out: String::new() }
    }
    fn push(&mut self, h: u64) {
        self.cur = hstep(self.cur, h);
        self.n += 1;
        if self.n == self.bsize {
            self.flush();
        }
    }
    fn flush(&mut self) {
        if self.n > 0 {
            let _ = writeln!(self.out, "{}", self.cur);
            self.n = 0;
            self.cur = 0;
        }
    }
}

pub fn main(a: &Args) {
    if let Some(p) = &a.replay {
        replay(p);
        return;
    }
    let mut rng = Rng::new(a.seed);
    let key = rng.next() & MASK;
    let mut violations: Vec<String> = vec![];
    let mut n_viol = 0u64;
    let mut push_violation = |v: String, n_viol: &mut u64| {
        *n_viol += 1;
        if violations.len() < 50 {
            violations.push(v);
        }
    };

    // ----- exhaustive over type sequences -----
    let maxlen: usize = if a.thorough() { 9 } else { 7 };
    let mut exh_total = 0u64;
    let mut exh_accepted = 0u64;
    let mut exh_err = 0u64;
    for n in 0..=maxlen {
        let count = 5u64.pow(n as u32);
        let mut model = Sums::new(BS_EXH);
        let mut spec = Sums::new(BS_EXH);
        for idx in 0..count {
            let (types, _pts, r) = exh_case(key, n, idx);
            model.push(r.model);
            spec.push(r.spec);
            exh_total += 1;
            if r.accepted {
                exh_accepted += 1;
            }
            if r.model == 2 || r.model == 3 {
                exh_err += 1;
            }
            if let Some(v) = r.violation {
                let digits: String = types.iter().map(|t| (b'0' + t) as char).collect();
                push_violation(
                    format!("{{\"kind\":\"contour\",\"coords\":\"exh\",\"digits5\":\"{}\",\"what\":{}}}", digits, json_str(&v)),
                    &mut n_viol,
                );
            }
        }
        model.flush();
        spec.flush();
        write_file(&a.out.join(format!("exh_model_{}.txt", n)), &model.out);
        write_file(&a.out.join(format!("exh_spec_{}.txt", n)), &spec.out);
    }

    // ----- random longer contours -----
    let nrand: u64 = if a.thorough() { 200_000 } else { 20_000 };
    let mut rmodel = Sums::new(BS_RAND);
    let mut rspec = Sums::new(BS_RAND);
    let mut rand_accepted = 0u64;
    let mut rand_alloff = 0u64;
    let mut lens = 0u64;
    let mut samples = String::new();
    for j in 0..nrand {
        let (digits, r) = rand_case(key, j);
        rmodel.push(r.model);
        rspec.push(r.spec);
        if r.accepted {
            rand_accepted += 1;
            if !digits.is_empty() && digits.iter().all(|d| d / 2 == 2) {
                rand_alloff += 1;
            }
        }
        lens += digits.len() as u64;
        let ds: String = digits.iter().map(|d| (b'0' + d) as char).collect();
        if j >= 1 && j <= 3 {
            let _ = writeln!(samples, "{} {}", ds, r.accepted);
        }
        if let Some(v) = r.violation {
            push_violation(
                format!(
                    "{{\"kind\":\"contour\",\"coords\":\"rand\",\"key\":{},\"index\":{},\"digits\":\"{}\",\"what\":{}}}",
                    key, j, ds, json_str(&v)
                ),
                &mut n_viol,
            );
        }
    }
    rmodel.flush();
    rspec.flush();
    write_file(&a.out.join("rand_model.txt"), &rmodel.out);
    write_file(&a.out.join("rand_spec.txt"), &rspec.out);
    write_file(&a.out.join("rand_samples.txt"), &samples);

    // ----- contours built from segment lists -----
    let nseg: u64 = if a.thorough() { 60_000 } else { 6_000 };
    let mut smodel = Sums::new(BS_RAND);
    let mut sspec = Sums::new(BS_RAND);
    let mut seg_accepted = 0u64;
    let mut seg_points = 0u64;
    let mut seg_open = 0u64;
    let mut seg_start_off = 0u64;
    let mut runs = [0u64; 72];
    let mut cum = [0u64; 72];
    for j in 0..nseg {
        let (digits, r) = seg_case(key, j);
        smodel.push(r.model);
        sspec.push(r.spec);
        if r.accepted {
            seg_accepted += 1;
        }
        seg_points += digits.len() as u64;
        if digits[0] / 2 == 0 {
            seg_open += 1;
        } else if digits[0] / 2 == 2 {
            seg_start_off += 1;
        }
        seg_stats(&digits, &mut runs, &mut cum);
        if let Some(v) = r.violation {
            let ds: String = digits.iter().map(|d| (b'0' + d) as char).collect();
            push_violation(
                format!(
                    "{{\"kind\":\"contour\",\"coords\":\"seg\",\"key\":{},\"index\":{},\"digits\":\"{}\",\"what\":{}}}",
                    key, j, ds, json_str(&v)
                ),
                &mut n_viol,
            );
        }
    }
    smodel.flush();
    sspec.flush();
    write_file(&a.out.join("seg_model.txt"), &smodel.out);
    write_file(&a.out.join("seg_spec.txt"), &sspec.out);
    let hist = |h: &[u64; 72]| -> String {
        format!("{{{}}}", h.iter().enumerate().filter(|(_, c)| **c > 0).map(|(k, c)| format!("\"{}{}\":{}", k, if k == 71 { "+" } else { "" }, c)).collect::<Vec<_>>().join(","))
    };
    let seg_summary = format!(
        "{{\"contours\":{},\"accepted\":{},\"mean_len\":{:.1},\"open\":{},\"closed_starting_with_offcurve\":{},\"qcurve_run_length_histogram\":{},\"cubic2_by_offcurves_consumed_by_qcurves_since_previous_curve\":{}}}",
        nseg, seg_accepted, seg_points as f64 / nseg as f64, seg_open, seg_start_off, hist(&runs), hist(&cum)
    );
    write_file(&a.out.join("seg_summary.json"), &seg_summary);

    // ----- transforms -----
    let ntr: u64 = if a.thorough() { 10_000_000 } else { 1_000_000 };
    let mut tr = Sums::new(BS_TR);
    let mut trk = Sums::new(BS_TR);
    let mut tr_nonfinite = 0u64;
    let mut tr_inexact = 0u64;
    let kt = mix(key.wrapping_add(1) & MASK);
    for i in 0..ntr {
        let (t, p) = tr_case(key, i);
        let r = run_transform(t, p);
        let (h, hk) = tr_hashes(&r);
        tr.push(h);
        trk.push(hk);
        if !r.norad.0.is_finite() || !r.norad.1.is_finite() {
            tr_nonfinite += 1;
        }
        if draw(kt, i, 100) & 3 != 0 {
            tr_inexact += 1;
        }
        let mut what = vec![];
        if !(same(r.norad.0, r.formula.0) && same(r.norad.1, r.formula.1)) {
            what.push("ContourPoint::transform differs from x' = xScale*x + yxScale*y + xOffset, y' = xyScale*x + yScale*y + yOffset");
        }
        if !(same(r.norad.0, r.kurbo.0) && same(r.norad.1, r.kurbo.1)) {
            what.push("ContourPoint::transform differs from kurbo::Affine * Point of the converted transform");
        }
        if !r.roundtrip_ok {
            what.push("AffineTransform -> kurbo::Affine -> AffineTransform is not the identity");
        }
        if !what.is_empty() {
            push_violation(
                format!("{{\"kind\":\"transform\",\"key\":{},\"index\":{},\"what\":{}}}", key, i, json_str(&what.join("; "))),
                &mut n_viol,
            );
        }
    }
    tr.flush();
    trk.flush();
    write_file(&a.out.join("tr.txt"), &tr.out);
    write_file(&a.out.join("tr_kurbo.txt"), &trk.out);

    write_file(&a.out.join("violations.json"), &format!("[{}]", violations.join(",\n")));
    let summary = format!(
        "{{\"key\":{},\"maxlen\":{},\"block_exh\":{},\"block_rand\":{},\"block_tr\":{},\"exhaustive_sequences\":{},\"exhaustive_accepted\":{},\"exhaustive_conversion_errors\":{},\"random_contours\":{},\"random_accepted\":{},\"random_accepted_all_offcurve\":{},\"random_mean_len\":{:.1},\"transforms\":{},\"transforms_nonfinite_result\":{},\"transforms_not_small_integer\":{},\"oracle_violations\":{}}}",
        key, maxlen, BS_EXH, BS_RAND, BS_TR, exh_total, exh_accepted, exh_err, nrand, rand_accepted, rand_alloff,
        lens as f64 / nrand as f64, ntr, tr_nonfinite, tr_inexact, n_viol
    );
    write_file(&a.out.join("summary.json"), &summary);
}

/// replay file: one line,
///   `contour exh <digits5>` | `contour rand|seg <key> <index>` | `transform <key> <index>`   readable results
///   `block exh <key> <n> <base> <count>` | `block rand|seg <key> <base> <count>` | `block tr <key> <base> <count>`
///       per-case fingerprints "model spec" (tr: "transform kurbo"), one case per line
fn replay(p: &std::path::Path) {
    let s = std::fs::read_to_string(p).expect("replay file");
    let w: Vec<&str> = s.split_whitespace().collect();
    let num = |i: usize| -> u64 { w[i].parse().unwrap() };
    match (w.first().copied(), w.get(1).copied()) {
        (Some("block"), Some("exh")) => {
            for idx in num(4)..num(4) + num(5) {
                let (_, _, r) = exh_case(num(2), num(3) as usize, idx);
                println!("{} {}", r.model, r.spec);
            }
        }
        (Some("block"), Some("rand")) => {
            for j in num(3)..num(3) + num(4) {
                let (_, r) = rand_case(num(2), j);
                println!("{} {}", r.model, r.spec);
            }
        }
        (Some("block"), Some("seg")) => {
            for j in num(3)..num(3) + num(4) {
                let (_, r) = seg_case(num(2), j);
                println!("{} {}", r.model, r.spec);
            }
        }
        (Some("block"), Some("tr")) => {
            for i in num(3)..num(3) + num(4) {
                let (t, p) = tr_case(num(2), i);
                let (h, hk) = tr_hashes(&run_transform(t, p));
                println!("{} {}", h, hk);
            }
        }
        (Some("contour"), Some(kind)) => {
            let pts = if kind == "exh" {
                let types: Vec<u8> = w.get(2).unwrap_or(&"").bytes().map(|b| b - b'0').collect();
                points_exh(&types, 0)
            } else if kind == "seg" {
                let digits = seg_digits(num(2), num(3));
                println!("digits: {}", digits.iter().map(|d| (b'0' + d) as char).collect::<String>());
                points_rand(num(2), num(3) + SEG_OFFSET, &digits)
            } else {
                let digits = gen_digits(num(2), num(3));
                println!("digits: {}", digits.iter().map(|d| (b'0' + d) as char).collect::<String>());
                points_rand(num(2), num(3), &digits)
            };
            let d = doc(&pts, 0);
            let direct = convert(&build(&pts));
            println!("points: {}", pts.iter().map(|p| format!("{}{}({:?},{:?})", TYPES[p.0 as usize], if p.1 { "+smooth" } else { "" }, p.2, p.3)).collect::<Vec<_>>().join(" "));
            println!("to_kurbo(Contour::new): {}", dump_out(&direct));
            println!("bits: {}", bits_out(&direct));
            match catch(|| Glyph::parse_raw(d.as_bytes())) {
                Err(_) => println!("parse_raw: panic"),
                Ok(Err(e)) => println!("parse_raw: rejected ({:?})", e),
                Ok(Ok(g)) => {
                    println!("parse_raw: accepted");
                    let empty = Contour::default();
                    let c = g.contours.first().unwrap_or(&empty);
                    let out = convert(c);
                    println!("to_kurbo(parsed): {}", dump_out(&out));
                    println!("parsed_bits: {}", bits_out(&out));
                    println!("oracle: {}", oracle(&pts, &out).unwrap_or_else(|| "holds".into()));
                }
            }
        }
        (Some("transform"), _) => {
            let (t, p) = tr_case(num(1), num(2));
            let r = run_transform(t, p);
            println!("transform: {:?}", t);
            println!("point: ({:?}, {:?})", p.0, p.1);
            println!("ContourPoint::transform: ({:?}, {:?})", r.norad.0, r.norad.1);
            println!("kurbo Affine * Point:    ({:?}, {:?})", r.kurbo.0, r.kurbo.1);
            println!("formula:                 ({:?}, {:?})", r.formula.0, r.formula.1);
            println!("roundtrip identity: {} (back: {:?})", r.roundtrip_ok, r.back);
            println!(
                "bits: [[{}],[{},{}],[{},{}]]",
                [t.x_scale, t.xy_scale, t.yx_scale, t.y_scale, t.x_offset, t.y_offset, p.0, p.1]
                    .iter()
                    .map(|f| canon_bits(*f).to_string())
                    .collect::<Vec<_>>()
                    .join(","),
                canon_bits(r.norad.0),
                canon_bits(r.norad.1),
                canon_bits(r.kurbo.0),
                canon_bits(r.kurbo.1)
            );
        }
        _ => println!("unrecognised replay line: {}", s),
    }
}
